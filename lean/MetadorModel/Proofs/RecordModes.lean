import MetadorModel.Proofs.RecordOpen
import MetadorModel.Proofs.FindFiles
/-! Open-mode laws of the record model (C03), proved from the call specs. Kept apart from
`Props/C03.lean`, which states the property theorems. -/
namespace MetadorModel.Record
open MetadorModel.FindFiles


/-- how the first constructor argument resolves to a non-empty list of container files:
an explicit list, or a record name via `find_files` -/
def Resolves (d : Disk) : Target → List Name → Prop
  | .list fs, paths => fs = paths ∧ paths ≠ []
  | .name n, paths => findFiles (names d) n = some paths ∧ paths ≠ []

theorem openRec_resolved (s : State) (c : Bool) (t : Target) (m : Mode) (paths : List Name)
    (hcl : s.h.closed = true) (hres : Resolves s.disk t paths) (hm : m = .r ∨ m = .rp ∨ m = .a) :
    openRec s c t m = openExisting s c paths m := by
  unfold openRec
  simp only [hcl, Bool.not_true, Bool.false_eq_true, if_false]
  cases t with
  | list fs =>
    obtain ⟨rfl, hne⟩ := hres
    have h1 : (m == Mode.w || m == Mode.wm || m == Mode.x) = false := by
      rcases hm with rfl | rfl | rfl <;> rfl
    have h2 : fs.isEmpty = false := by cases fs <;> simp_all
    simp [h1, h2]
  | name n =>
    obtain ⟨hf, hne⟩ := hres
    cases paths with
    | nil => exact absurd rfl hne
    | cons f fs => rcases hm with rfl | rfl | rfl <;> simp [hf]

/-- **'r' is strictly read-only** (every disk, every target, both classes): the call changes
no file and reports an empty write set; if it succeeds, the handle has no writable container
and patching is disabled. -/
theorem open_r_pure (s : State) (c : Bool) (t : Target) :
    (openRec s c t .r).st.disk = s.disk ∧ (openRec s c t .r).W = [] ∧
    ((openRec s c t .r).out = .ok →
      hasWritable (openRec s c t .r).st.h = false ∧ (openRec s c t .r).st.h.allow = false ∧
      (openRec s c t .r).st.h.closed = false) := by
  have key : ∀ paths, (openExisting s c paths .r).st.disk = s.disk ∧ (openExisting s c paths .r).W = [] ∧
      ((openExisting s c paths .r).out = .ok →
        hasWritable (openExisting s c paths .r).st.h = false ∧ (openExisting s c paths .r).st.h.allow = false ∧
        (openExisting s c paths .r).st.h.closed = false) := by
    intro paths
    rcases openExisting_spec s c paths .r with hf | ⟨files, b, man, hopen, _, ⟨_, heq⟩ | ⟨hw, _, _⟩⟩
    · exact ⟨hf.2.1, hf.W, fun h => absurd h hf.1⟩
    · obtain ⟨_, _, fl, ul, hl, hb⟩ := openFiles_ok hopen
      have hb' : b = false := by rw [hb]; rfl
      subst hb'
      rw [heq]
      refine ⟨rfl, by simp [Res.W], fun _ => ⟨by simp [hasWritable, openedHandle], rfl, rfl⟩⟩
    · simp at hw
  have hfail : ∀ e, e ≠ Out.ok → (fail s e).st.disk = s.disk ∧ (fail s e).W = [] ∧
      ((fail s e).out = .ok → hasWritable (fail s e).st.h = false ∧ (fail s e).st.h.allow = false ∧
        (fail s e).st.h.closed = false) :=
    fun e he => ⟨rfl, rfl, fun h => absurd h he⟩
  unfold openRec
  split
  · exact hfail _ (by decide)
  · cases t with
    | list fs =>
      simp only
      split
      · exact hfail _ (by decide)
      · split
        · exact hfail _ (by decide)
        · exact key fs
    | name n =>
      simp only
      split
      · exact hfail _ (by decide)
      · exact hfail _ (by decide)
      · exact key _

/-- on a handle opened read-only, creating, committing and discarding patches and writing are
refused with `ValueError` and change nothing -/
theorem open_r_refuses_patching (s : State) (hcl : s.h.closed = false) (ha : s.h.allow = false)
    (hw : hasWritable s.h = false) (hne : s.h.files ≠ []) (k : Nat) :
    createPatch s = fail s .valueError ∧ commitPlain s = fail s .valueError ∧
    discardPatch s = fail s .valueError ∧ write s k = fail s .valueError ∧
    (s.h.mfcls = true → (commitMF s).out = .valueError ∧ (commitMF s).st.disk = s.disk ∧ (commitMF s).W = []) := by
  have hne' : s.h.files.isEmpty = false := by cases h : s.h.files <;> simp_all
  refine ⟨by simp [createPatch, hcl, ha], by simp [commitPlain, hcl, ha], by simp [discardPatch, hcl, ha],
    by simp [write, hcl, hw, hne'], ?_⟩
  intro _
  unfold commitMF
  cases hl : lastFile s.h.files with
  | none => exact absurd ((lastFile_eq_none _).mp hl) hne
  | some y =>
    obtain ⟨f, ub⟩ := y
    simp [commitPlain, mfPrep, hcl, ha, fail, Res.W, hl]

/-- **`r` / `r+` on a missing record fail** with `FileNotFoundError`; nothing changes. -/
theorem open_missing_r_fails (s : State) (c : Bool) (n : Name) (m : Mode) (hm : m = .r ∨ m = .rp)
    (hcl : s.h.closed = true) (habs : findFiles (names s.disk) n = some []) :
    openRec s c (.name n) m = fail s .fileNotFound := by
  rcases hm with rfl | rfl <;> simp [openRec, hcl, habs]

theorem absent_base_free {d : Disk} {n : Name} (habs : findFiles (names d) n = some []) :
    getF d (baseFile n) = none := by
  rw [getF_none_iff_not_mem_names]
  intro hmem
  unfold findFiles at habs
  split at habs
  · simp only [Option.some.injEq] at habs
    have : baseFile n ∈ (names d).filter (belongs n) := List.mem_filter.mpr ⟨hmem, belongs_baseFile n⟩
    rw [habs] at this; cases this
  · cases habs

theorem absent_valid {d : Disk} {n : Name} (habs : findFiles (names d) n = some []) : isValidName n = true := by
  unfold findFiles at habs
  split at habs
  · assumption
  · cases habs

/-- the result of creating the record `n` -/
def created (s : State) (c : Bool) (n : Name) : Res :=
  { st := { disk := setF s.disk (baseFile n) (.cont (newBaseUB s.next) []), next := s.next + 2,
            h := freshHandle c n s.next },
    out := .ok, created := [baseFile n] }

/-- **`a` creates when absent** (and so do `w`, `w-`, `x`): exactly the base container
`<n>.ih5` is created, empty and uncommitted; the handle is writable. -/
theorem open_a_creates_when_absent (s : State) (c : Bool) (n : Name) (m : Mode)
    (hm : m = .a ∨ m = .w ∨ m = .wm ∨ m = .x)
    (hcl : s.h.closed = true) (habs : findFiles (names s.disk) n = some []) :
    openRec s c (.name n) m = created s c n ∧
    hasWritable (created s c n).st.h = true ∧ view (created s c n).st = [] ∧
    (∀ g, g ≠ baseFile n → getF (created s c n).st.disk g = getF s.disk g) := by
  have hfree := absent_base_free habs
  have hv := absent_valid habs
  have hnt : createRec s c n false [] = created s c n := by
    rcases createRec_notrunc s c n [] with hf | ⟨_, _, _, heq⟩
    · exfalso
      apply hf.1
      simp [createRec, hv, goneFiles, newContainer, hfree, eraseAll]
    · exact heq
  have ht : createRec s c n true [] = created s c n := by
    rw [← hnt]
    simp [createRec, goneFiles, hfree]
  refine ⟨?_, by simp [created, hasWritable, freshHandle], ?_, ?_⟩
  · rcases hm with rfl | rfl | rfl | rfl
    · simp [openRec, hcl, habs, hnt]
    · simp [openRec, hcl, ht]
    · simp [openRec, hcl, hnt]
    · simp [openRec, hcl, hnt]
  · simp [view, created, freshHandle, viewFiles, payloadOf, getF_setF_eq]
  · intro g hg
    exact getF_setF_ne _ _ _ _ hg

/-- **`x` / `w-` refuse to touch an existing record**: `FileExistsError`, nothing changes. -/
theorem open_x_refuses_existing (s : State) (c : Bool) (n : Name) (m : Mode) (hm : m = .x ∨ m = .wm)
    (hcl : s.h.closed = true) (hv : isValidName n = true) (hex : (getF s.disk (baseFile n)).isSome = true) :
    openRec s c (.name n) m = fail s .fileExists := by
  have : createRec s c n false [] = fail s .fileExists := by
    simp [createRec, hv, goneFiles, newContainer, hex, eraseAll, fail]
  rcases hm with rfl | rfl <;> simp [openRec, hcl, this]

/-- `x` / `w-` (like `a`, `w`) create the record when it is absent -/
theorem open_x_creates_when_absent (s : State) (c : Bool) (n : Name) (m : Mode) (hm : m = .x ∨ m = .wm)
    (hcl : s.h.closed = true) (habs : findFiles (names s.disk) n = some []) :
    openRec s c (.name n) m = created s c n := by
  rcases hm with rfl | rfl
  · exact (open_a_creates_when_absent s c n _ (Or.inr (Or.inr (Or.inr rfl))) hcl habs).1
  · exact (open_a_creates_when_absent s c n _ (Or.inr (Or.inr (Or.inl rfl))) hcl habs).1


theorem mem_goneFiles {d : Disk} {n g : Name} {t : Bool} (h : g ∈ goneFiles d n t) :
    belongs n g = true ∧ g ∈ names d := by
  unfold goneFiles at h
  split at h
  · exact ⟨(List.mem_filter.mp h).2, (List.mem_filter.mp h).1⟩
  · cases h

/-- **`w` replaces the whole record — and only that record.** For a valid name the call
succeeds; afterwards the base container is a fresh, empty, uncommitted one and the handle is
the fresh writable handle; every directory entry that does not syntactically belong to the
name (`belongs n g = false`, in particular all files of prefix-related records, see
`findFiles_disjoint`) is untouched; if the record existed (its base container did), every
other file belonging to the name is gone. -/
theorem open_w_replaces (s : State) (c : Bool) (n : Name) (hcl : s.h.closed = true)
    (hv : isValidName n = true) :
    (openRec s c (.name n) .w).out = .ok ∧
    (openRec s c (.name n) .w).st.h = freshHandle c n s.next ∧
    getF (openRec s c (.name n) .w).st.disk (baseFile n) = some (.cont (newBaseUB s.next) []) ∧
    view (openRec s c (.name n) .w).st = [] ∧
    (∀ g, belongs n g = false → getF (openRec s c (.name n) .w).st.disk g = getF s.disk g) ∧
    ((getF s.disk (baseFile n)).isSome = true →
      ∀ g, belongs n g = true → g ≠ baseFile n → getF (openRec s c (.name n) .w).st.disk g = none) ∧
    (∀ g ∈ (openRec s c (.name n) .w).removed, belongs n g = true) := by
  have hfree : getF (eraseAll s.disk (goneFiles s.disk n true)) (baseFile n) = none := by
    by_cases hex : (getF s.disk (baseFile n)).isSome = true
    · apply getF_eraseAll_mem
      unfold goneFiles
      simp only [hex, Bool.and_self, if_true]
      exact List.mem_filter.mpr ⟨(getF_isSome_iff_mem_names _ _).mp hex, belongs_baseFile n⟩
    · have : goneFiles s.disk n true = [] := by simp [goneFiles, hex]
      rw [this, eraseAll]
      cases h : getF s.disk (baseFile n) <;> simp_all
  have hop : openRec s c (.name n) .w = createRec s c n true [] := by simp [openRec, hcl]
  rw [hop]
  rcases createRec_spec s c n true [] with ⟨h, _⟩ | ⟨_, e, _, herr, _⟩ | ⟨_, _, _, heq⟩
  · rw [hv] at h; cases h
  · rw [newContainer_of_fresh _ (by simp) hfree] at herr; cases herr
  · rw [heq]
    refine ⟨rfl, rfl, getF_setF_eq _ _ _, ?_, ?_, ?_, ?_⟩
    · simp [view, freshHandle, viewFiles, payloadOf, getF_setF_eq]
    · intro g hg
      have h1 : g ≠ baseFile n := by
        intro h; rw [h, belongs_baseFile] at hg; cases hg
      simp only
      rw [getF_setF_ne _ _ _ _ h1]
      apply getF_eraseAll_not_mem
      intro hm
      rw [(mem_goneFiles hm).1] at hg; cases hg
    · intro hex g hg hne
      simp only
      rw [getF_setF_ne _ _ _ _ hne]
      by_cases hmem : g ∈ names s.disk
      · apply getF_eraseAll_mem
        unfold goneFiles
        simp only [hex, Bool.and_self, if_true]
        exact List.mem_filter.mpr ⟨hmem, hg⟩
      · have hnot : g ∉ goneFiles s.disk n true := fun h => hmem (mem_goneFiles h).2
        rw [getF_eraseAll_not_mem _ _ _ hnot]
        exact (getF_none_iff_not_mem_names _ _).mpr hmem
    · intro g hg
      exact (mem_goneFiles hg).1

/-- **`r+` / `a` continue an uncommitted container**: when `_open` accepts the files and the
newest container has no checksum, it is reopened writable; no file is created or removed,
only that container may be touched. -/
theorem open_rplus_continues (s : State) (c : Bool) (t : Target) (m : Mode) (paths : List Name)
    (files : List (Name × UB)) (man : Option (Nat × Nat))
    (hcl : s.h.closed = true) (hres : Resolves s.disk t paths) (hm : m = .rp ∨ m = .a)
    (hopen : openFiles s.disk paths true = .ok (files, true))
    (hman : (if c then loadManifest s.disk files else .ok none) = .ok man) :
    ∃ f ul, lastFile files = some (f, ul) ∧ ul.hash = none ∧
      openRec s c t m =
        { st := { s with h := openedHandle files true c m man }, out := .ok, written := [f] } ∧
      hasWritable (openedHandle files true c m man) = true := by
  obtain ⟨_, _, fl, ul, hl, hb⟩ := openFiles_ok hopen
  have hnone : ul.hash = none := by
    have := hb.symm
    simp only [Bool.true_and, Option.isNone_iff_eq_none] at this
    exact this
  have hne : files.isEmpty = false := by
    cases files with
    | nil => simp [lastFile] at hl
    | cons x r => rfl
  have hmr : (m != Mode.r) = true := by rcases hm with rfl | rfl <;> rfl
  refine ⟨fl, ul, hl, hnone, ?_, by simp [hasWritable, openedHandle, hne]⟩
  rw [openRec_resolved s c t m paths hcl hres (by rcases hm with h | h <;> simp [h])]
  unfold openExisting
  simp only [hmr, hopen, hman, hasWritable, hne, hl]
  simp [openedHandle, hmr]

/-- **`r+` / `a` on a committed record start exactly one new patch**: when `_open` accepts
the files and the newest container is committed, the call creates the next patch container
`<name>.p<idx+1>.ih5` (mode `x`): if that name is free, this one file is created (empty,
uncommitted, linked to its predecessor) and nothing else changes; otherwise the call is
refused and nothing changes at all. -/
theorem open_rplus_new_patch (s : State) (c : Bool) (t : Target) (m : Mode) (paths : List Name)
    (files : List (Name × UB)) (man : Option (Nat × Nat))
    (hcl : s.h.closed = true) (hres : Resolves s.disk t paths) (hm : m = .rp ∨ m = .a)
    (hopen : openFiles s.disk paths true = .ok (files, false))
    (hman : (if c then loadManifest s.disk files else .ok none) = .ok man) :
    ∃ f0 u0 rest fl ul, files = (f0, u0) :: rest ∧ lastFile files = some (fl, ul) ∧ ul.hash.isSome = true ∧
      ((getF s.disk (patchFile (inferName f0) (ul.idx + 1)) = none ∧
        (files.map Prod.fst).contains (patchFile (inferName f0) (ul.idx + 1)) = false ∧
        openRec s c t m =
          { st := { disk := setF s.disk (patchFile (inferName f0) (ul.idx + 1)) (.cont (newPatchUB ul s.next) []),
                    next := s.next + 1,
                    h := { openedHandle files false c m man with
                           files := files ++ [(patchFile (inferName f0) (ul.idx + 1), newPatchUB ul s.next)],
                           lastRW := true } },
            out := .ok, created := [patchFile (inferName f0) (ul.idx + 1)] }) ∨
       (Failed s (openRec s c t m) ∧
         ((getF s.disk (patchFile (inferName f0) (ul.idx + 1))).isSome = true ∨
          (files.map Prod.fst).contains (patchFile (inferName f0) (ul.idx + 1)) = true))) := by
  obtain ⟨_, _, fl, ul, hl, hb⟩ := openFiles_ok hopen
  have hsome : ul.hash.isSome = true := by
    have := hb.symm
    cases h : ul.hash with
    | none => rw [h] at this; simp at this
    | some v => rfl
  cases files with
  | nil => simp [lastFile] at hl
  | cons x rest =>
    obtain ⟨f0, u0⟩ := x
    have hmr : (m != Mode.r) = true := by rcases hm with rfl | rfl <;> rfl
    refine ⟨f0, u0, rest, fl, ul, rfl, hl, hsome, ?_⟩
    rw [openRec_resolved s c t m paths hcl hres (by rcases hm with h | h <;> simp [h])]
    unfold openExisting
    simp only [hmr, hopen, hman, hasWritable, List.isEmpty_cons, Bool.not_false, Bool.and_false,
      Bool.false_eq_true, if_false, Bool.not_false, Bool.and_self, if_true]
    unfold createPatch
    simp only [hasWritable, List.isEmpty_cons, Bool.not_false, Bool.and_false, Bool.false_eq_true, if_false,
      hmr, Bool.not_true, hl, fileNames]
    by_cases hcont : (List.map Prod.fst ((f0, u0) :: rest)).contains (patchFile (inferName f0) (ul.idx + 1)) = true
    · right
      refine ⟨?_, Or.inr hcont⟩
      simp only [newContainer, hcont, if_true, fail]
      exact ⟨by simp, rfl, rfl, rfl, rfl, rfl⟩
    · by_cases hex : (getF s.disk (patchFile (inferName f0) (ul.idx + 1))).isSome = true
      · right
        refine ⟨?_, Or.inl hex⟩
        simp only [newContainer, hcont, hex, if_true, Bool.false_eq_true, if_false, fail]
        exact ⟨by simp, rfl, rfl, rfl, rfl, rfl⟩
      · left
        have hnone : getF s.disk (patchFile (inferName f0) (ul.idx + 1)) = none := by
          cases h : getF s.disk (patchFile (inferName f0) (ul.idx + 1)) <;> simp_all
        refine ⟨hnone, by simpa using hcont, ?_⟩
        simp only [newContainer, hcont, hex, Bool.false_eq_true, if_false]
        simp [openedHandle, hmr]


end MetadorModel.Record
