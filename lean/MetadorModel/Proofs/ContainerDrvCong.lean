import MetadorModel.Proofs.ContainerDrvEqv
/-!
# Cache equivalence is a congruence for every container operation (C09, reopen points)

A small relational program logic for the state-and-exception monad `M`:
`Cong R m m' R'` — started in `R`-related states, `m` and `m'` return the same value or raise
the same error, and leave `R'`-related states (`ObsEq`-related ones when they raise).
The two computations are always two instances of the same model function; they differ only in
the state snapshots (`let s ← getSt`) they have read. No invariant is assumed: every cache
read is shown to give the same answer in related states, syntactically.

Ends in `obsEq_congruent : Congruent e ObsEq`.
-/
namespace MetadorModel.Container

/-! ## The logic -/

inductive ResRel {α : Type} (R' : St → St → Prop) : Res α → Res α → Prop
  | ok (a : α) {t t' : St} : R' t t' → ResRel R' (.ok a, t) (.ok a, t')
  | err (e : Err) {t t' : St} : ObsEq t t' → ResRel R' (.error e, t) (.error e, t')

theorem ResRel.fst_eq {α : Type} {R' : St → St → Prop} {x y : Res α} (h : ResRel R' x y) :
    x.1 = y.1 := by cases h <;> rfl

theorem ResRel.obsEq {α : Type} {x y : Res α} (h : ResRel ObsEq x y) : ObsEq x.2 y.2 := by
  cases h <;> assumption

def Cong {α : Type} (R : St → St → Prop) (m m' : M α) (R' : St → St → Prop) : Prop :=
  ∀ s s', R s s' → ResRel R' (m s) (m' s')

section Rules
variable {α β : Type} {R R' R1 R2 : St → St → Prop}

theorem Cong.pure (a : α) (h : ∀ s s', R s s' → R' s s') :
    Cong R (Pure.pure a : M α) (Pure.pure a) R' :=
  fun s s' hs => .ok a (h s s' hs)

theorem Cong.bind {m m' : M α} {f f' : α → M β} (h : Cong R m m' R1)
    (hf : ∀ a, Cong R1 (f a) (f' a) R2) : Cong R (m >>= f) (m' >>= f') R2 := by
  intro s s' hs
  have h1 := h s s' hs
  show ResRel R2 (M.bind m f s) (M.bind m' f' s')
  unfold M.bind
  generalize m s = x at h1 ⊢
  generalize m' s' = x' at h1 ⊢
  cases h1 with
  | ok a ht => exact hf a _ _ ht
  | err e ht => exact .err e ht

theorem Cong.mono_post {m m' : M α} (h : Cong R m m' R1) (hp : ∀ s s', R1 s s' → R2 s s') :
    Cong R m m' R2 := by
  intro s s' hs
  have h1 := h s s' hs
  generalize m s = x at h1 ⊢
  generalize m' s' = x' at h1 ⊢
  cases h1 with
  | ok a ht => exact .ok a (hp _ _ ht)
  | err e ht => exact .err e ht

/-- both sides read their state; the continuations are compared for related snapshots -/
theorem Cong.getSt_bind {f f' : St → M α} (h : ∀ s s', R s s' → Cong R (f s) (f' s') R') :
    Cong R (getSt >>= f) (getSt >>= f') R' :=
  fun s s' hs => h s s' hs s s' hs

theorem Cong.raise (e : Err) (h : ∀ s s', R s s' → ObsEq s s') :
    Cong R (raise e : M α) (raise e) R' :=
  fun s s' hs => .err e (h s s' hs)

/-- a raising statement in non-final position: the rest is never run -/
theorem Cong.raise_bind (e : Err) (h : ∀ s s', R s s' → ObsEq s s') {f f' : α → M β} :
    Cong R (Container.raise e >>= f) (Container.raise e >>= f') R' :=
  fun s s' hs => .err e (h s s' hs)

theorem Cong.ofOpt (e : Err) (o : Option α) (h : ∀ s s', R s s' → ObsEq s s') :
    Cong R (ofOpt e o) (ofOpt e o) R := by
  cases o with
  | none => exact Cong.raise e h
  | some a => exact Cong.pure a (fun _ _ h => h)

theorem Cong.ofOpt_bind (e : Err) (o : Option α) (h : ∀ s s', R s s' → ObsEq s s') {f f' : α → M β}
    (hk : ∀ a, o = some a → Cong R (f a) (f' a) R') :
    Cong R (Container.ofOpt e o >>= f) (Container.ofOpt e o >>= f') R' := by
  cases o with
  | none => exact fun s s' hs => .err e (h s s' hs)
  | some a => exact fun s s' hs => hk a rfl s s' hs

/-- both sides look up a dictionary entry; the entries are related -/
theorem Cong.ofOpt_rel {γ : Type} {V : γ → γ → Prop} (e : Err) {o o' : Option γ} (ho : OptRel V o o')
    (h : ∀ s s', R s s' → ObsEq s s') {f f' : γ → M β}
    (hk : ∀ a a', V a a' → Cong R (f a) (f' a') R') :
    Cong R (Container.ofOpt e o >>= f) (Container.ofOpt e o' >>= f') R' := by
  cases ho with
  | none => exact fun s s' hs => .err e (h s s' hs)
  | some hv => exact fun s s' hs => hk _ _ hv s s' hs

theorem Cong.modC {f f' : Caches → Caches}
    (h : ∀ s s', R s s' → R' { s with c := f s.c } { s' with c := f' s'.c }) :
    Cong R (modC f) (modC f') R' :=
  fun s s' hs => .ok () (h s s' hs)

theorem Cong.liftRaw (g : Tree → Except Err Tree) (hraw : ∀ s s', R s s' → s.raw = s'.raw)
    (hE : ∀ s s', R s s' → ObsEq s s')
    (hok : ∀ s s' t, R s s' → R' { s with raw := t } { s' with raw := t }) :
    Cong R (liftRaw g) (liftRaw g) R' := by
  intro s s' hs
  unfold MetadorModel.Container.liftRaw
  rw [← hraw s s' hs]
  cases g s.raw with
  | ok t => exact .ok () (hok s s' t hs)
  | error e => exact .err e (hE s s' hs)

theorem Cong.forEachM (l : List α) {f f' : α → M Unit} (h : ∀ a, a ∈ l → Cong R (f a) (f' a) R) :
    Cong R (forEachM l f) (forEachM l f') R := by
  induction l with
  | nil => exact Cong.pure _ (fun _ _ h => h)
  | cons a t ih =>
    unfold MetadorModel.Container.forEachM
    exact Cong.bind (h a (by simp)) (fun _ => ih (fun b hb => h b (by simp [hb])))

end Rules

/-! ## Cache updates that keep `CRel` -/

section CRelUpd
variable {U P : PkgId → Prop}

theorem CRel.setUsed {c c' : Caches} (h : CRel U P c c') (pkg : PkgId) {v v' : List SRef}
    (hv : MemEq v v') :
    CRel U P { c with used := alSet c.used pkg v } { c' with used := alSet c'.used pkg v' } :=
  ⟨h.tocPath, h.parents, h.pkginfos, h.providers, h.schemas, h.children,
   fun pk hU => by
     show OptRel MemEq (alGet (alSet c.used pkg v) pk) (alGet (alSet c'.used pkg v') pk)
     rw [c9_alGet_alSet, c9_alGet_alSet]
     split
     · exact .some hv
     · exact h.used pk hU,
   h.prov⟩

theorem CRel.newUsed {c c' : Caches} (h : CRel U P c c') (pkg : PkgId) :
    CRel (fun pk => U pk ∨ pk = pkg) P { c with used := alSet c.used pkg [] }
      { c' with used := alSet c'.used pkg [] } :=
  ⟨h.tocPath, h.parents, h.pkginfos, h.providers, h.schemas, h.children,
   fun pk hU => by
     show OptRel MemEq (alGet (alSet c.used pkg []) pk) (alGet (alSet c'.used pkg []) pk)
     rw [c9_alGet_alSet, c9_alGet_alSet]
     split
     · exact .some (MemEq.refl _)
     · rename_i hne
       rcases hU with hU | hU
       · exact h.used pk hU
       · exact absurd hU.symm hne,
   h.prov⟩

theorem StRel.setRaw {s s' : St} (h : StRel U P s s') (t : Tree) :
    StRel U P { s with raw := t } { s' with raw := t } := ⟨rfl, h.next, h.c⟩

theorem Cong.liftRaw_StRel (hPU : ∀ pk, P pk → U pk) (g : Tree → Except Err Tree) :
    Cong (StRel U P) (Container.liftRaw g) (Container.liftRaw g) (StRel U P) :=
  Cong.liftRaw g (fun _ _ h => h.raw) (fun _ _ h => h.toObsEq hPU) (fun _ _ t h => h.setRaw t)

end CRelUpd

/-! ## TOCPackages -/

section Low
variable {U P : PkgId → Prop}

theorem pkgRegister_cong (hPU : ∀ pk, P pk → U pk) (pkg : PkgId) (plugins : List SRef) :
    Cong (StRel U P) (pkgRegister pkg plugins) (pkgRegister pkg plugins)
      (StRel U (fun pk => P pk ∨ pk = pkg)) := by
  unfold pkgRegister
  refine Cong.bind (Cong.liftRaw_StRel hPU _) (fun _ => ?_)
  refine Cong.modC (fun s s' h => ?_)
  exact ⟨h.raw, h.next,
    ⟨h.c.tocPath, h.c.parents, h.c.pkginfos.alSet _ _, addProviders_congr h.c.providers _ _,
     h.c.schemas, h.c.children, h.c.used,
     fun r pk hm => (addProviders_mem hm).elim (fun hh => Or.inr hh) (fun hh => Or.inl (h.c.prov r pk hh))⟩⟩

theorem pkgUnregister_cong (hPU : ∀ pk, P pk → U pk) (pkg : PkgId) :
    Cong (StRel U P) (pkgUnregister pkg) (pkgUnregister pkg) (StRel U P) := by
  have hE : ∀ s s', StRel U P s s' → ObsEq s s' := fun _ _ h => h.toObsEq hPU
  unfold pkgUnregister
  refine Cong.bind (Cong.liftRaw_StRel hPU _) (fun _ => ?_)
  refine Cong.getSt_bind (fun s s' h => ?_)
  rw [h.c.pkginfos pkg]
  refine Cong.bind (Cong.ofOpt _ _ hE) (fun info => ?_)
  refine Cong.bind (R1 := StRel U P) (Cong.modC (fun t t' ht => ?_)) (fun _ => ?_)
  · exact ⟨ht.raw, ht.next,
      ⟨ht.c.tocPath, ht.c.parents, ht.c.pkginfos.alErase _, ht.c.providers, ht.c.schemas,
       ht.c.children, ht.c.used, ht.c.prov⟩⟩
  refine Cong.getSt_bind (fun s s' h => ?_)
  have hr := removeProviders_congr h.c.providers pkg info
  generalize hx : removeProviders s.c.providers pkg info = x at hr ⊢
  generalize removeProviders s'.c.providers pkg info = x' at hr ⊢
  cases hr with
  | err e => exact Cong.raise _ hE
  | @ok prov prov' hpp =>
    dsimp only
    refine Cong.bind (R1 := StRel U P) (Cong.modC (fun t t' ht => ?_)) (fun _ => ?_)
    · exact ⟨ht.raw, ht.next,
        ⟨ht.c.tocPath, ht.c.parents, ht.c.pkginfos, hpp, ht.c.schemas, ht.c.children, ht.c.used,
         fun r pk hm => h.c.prov r pk (removeProviders_sub hx hm)⟩⟩
    refine Cong.getSt_bind (fun s s' h => ?_)
    rw [h.raw]
    split
    · exact Cong.liftRaw_StRel hPU _
    · exact Cong.pure _ (fun _ _ h => h)

/-! ## TOCSchemas -/

/-- the part of `_register` after the provider package has been made known -/
theorem schemaRegister_tail_cong (hPU : ∀ pk, P pk → U pk) (ref : SRef) :
    Cong (StRel U P)
      (do
        let s ← getSt
        let provs ← ofOpt .key (alGet s.c.providers ref)
        forEachM provs fun pkg => do
          let s ← getSt
          let cur ← ofOpt .key (alGet s.c.used pkg)
          modC fun c => { c with used := alSet c.used pkg (setAdd cur ref) })
      (do
        let s ← getSt
        let provs ← ofOpt .key (alGet s.c.providers ref)
        forEachM provs fun pkg => do
          let s ← getSt
          let cur ← ofOpt .key (alGet s.c.used pkg)
          modC fun c => { c with used := alSet c.used pkg (setAdd cur ref) })
      ObsEq := by
  have hE : ∀ s s', StRel U P s s' → ObsEq s s' := fun _ _ h => h.toObsEq hPU
  refine Cong.getSt_bind (fun s s' h => ?_)
  have hprov : ∀ pkg, pkg ∈ (alGet s.c.providers ref).getD [] → U pkg :=
    fun pkg hm => hPU _ (h.c.prov ref pkg hm)
  rw [h.c.providers ref] at hprov ⊢
  refine Cong.ofOpt_bind _ _ hE (fun provs hprovs => ?_)
  rw [hprovs] at hprov
  refine Cong.mono_post (Cong.forEachM _ (fun pkg hpkg => ?_)) hE
  refine Cong.getSt_bind (fun s s' h => ?_)
  refine Cong.ofOpt_rel _ (h.c.used pkg (hprov pkg hpkg)) hE (fun cur cur' hcur => ?_)
  exact Cong.modC (fun t t' ht => ⟨ht.raw, ht.next, ht.c.setUsed pkg (hcur.setAdd ref)⟩)

theorem schemaRegister_congP (hPU : ∀ pk, P pk → U pk) (e : Env) (ref : SRef) :
    Cong (StRel U P) (schemaRegister e ref) (schemaRegister e ref) ObsEq := by
  have hE : ∀ s s', StRel U P s s' → ObsEq s s' := fun _ _ h => h.toObsEq hPU
  unfold schemaRegister
  refine Cong.getSt_bind (fun s s' h => ?_)
  simp only [h.c.schemas ref]
  split
  · exact Cong.pure _ hE
  · refine Cong.bind (Cong.ofOpt _ _ hE) (fun info => ?_)
    refine Cong.bind (Cong.liftRaw_StRel hPU _) (fun _ => ?_)
    refine Cong.bind (Cong.liftRaw_StRel hPU _) (fun _ => ?_)
    refine Cong.bind (R1 := StRel U P) (Cong.modC (fun t t' ht => ?_)) (fun _ => ?_)
    · obtain ⟨h1, h2⟩ := upcAdd_congr ref ht.c.parents ht.c.children [] info.parents
      try dsimp only
      rcases hx : upcAdd ref t.c.parents t.c.children [] info.parents with ⟨par, chi⟩
      rcases hx' : upcAdd ref t'.c.parents t'.c.children [] info.parents with ⟨par', chi'⟩
      rw [hx, hx'] at h1 h2
      exact ⟨ht.raw, ht.next,
        ⟨ht.c.tocPath, h1, ht.c.pkginfos, ht.c.providers, ht.c.schemas.setAdd ref, h2, ht.c.used,
         ht.c.prov⟩⟩
    refine Cong.getSt_bind (fun s s' h => ?_)
    try dsimp only
    rw [h.c.providers ref]
    split
    · refine Cong.bind (pkgRegister_cong hPU _ _) (fun _ => ?_)
      refine Cong.bind (R1 := StRel (fun pk => U pk ∨ pk = info.pkg) (fun pk => P pk ∨ pk = info.pkg))
        (Cong.modC (fun t t' ht => ?_)) (fun _ => ?_)
      · exact ⟨ht.raw, ht.next, ht.c.newUsed info.pkg⟩
      exact schemaRegister_tail_cong (fun pk hp => hp.imp_left (hPU pk)) ref
    · exact schemaRegister_tail_cong hPU ref

theorem schemaUnregister_congP (hPU : ∀ pk, P pk → U pk) (ref : SRef) :
    Cong (StRel U P) (schemaUnregister ref) (schemaUnregister ref) ObsEq := by
  have hE : ∀ s s', StRel U P s s' → ObsEq s s' := fun _ _ h => h.toObsEq hPU
  unfold schemaUnregister
  refine Cong.bind (Cong.liftRaw_StRel hPU _) (fun _ => ?_)
  refine Cong.getSt_bind (fun s s' h => ?_)
  simp only [h.c.schemas ref]
  try dsimp only
  split
  · exact Cong.raise_bind _ hE
  refine Cong.bind (R1 := StRel U P) (Cong.modC (fun t t' ht => ?_)) (fun _ => ?_)
  · exact ⟨ht.raw, ht.next,
      ⟨ht.c.tocPath, ht.c.parents, ht.c.pkginfos, ht.c.providers, ht.c.schemas.setRemove ref,
       ht.c.children, ht.c.used, ht.c.prov⟩⟩
  refine Cong.getSt_bind (fun s s' h => ?_)
  rw [h.c.parents ref]
  refine Cong.ofOpt_bind _ _ hE (fun ps _ => ?_)
  have hr := upcRemove_congr ref h.c.schemas h.c.parents h.c.children ps
  generalize upcRemove ref s.c.schemas s.c.parents s.c.children ps = x at hr ⊢
  generalize upcRemove ref s'.c.schemas s'.c.parents s'.c.children ps = x' at hr ⊢
  cases hr with
  | err e => exact Cong.raise _ hE
  | @ok a a' haa =>
    obtain ⟨par, chi⟩ := a
    obtain ⟨par', chi'⟩ := a'
    dsimp only
    refine Cong.bind (R1 := StRel U P) (Cong.modC (fun t t' ht => ?_)) (fun _ => ?_)
    · exact ⟨ht.raw, ht.next,
        ⟨ht.c.tocPath, haa.1, ht.c.pkginfos, ht.c.providers, ht.c.schemas, haa.2, ht.c.used,
         ht.c.prov⟩⟩
    refine Cong.getSt_bind (fun s s' h => ?_)
    have hprov : ∀ pkg, pkg ∈ (alGet s.c.providers ref).getD [] → U pkg :=
      fun pkg hm => hPU _ (h.c.prov ref pkg hm)
    rw [h.c.providers ref] at hprov ⊢
    refine Cong.ofOpt_bind _ _ hE (fun provs hprovs => ?_)
    rw [hprovs] at hprov
    refine Cong.bind (R1 := StRel U P) (Cong.forEachM _ (fun pkg hpkg => ?_)) (fun _ => ?_)
    · refine Cong.getSt_bind (fun s s' h => ?_)
      refine Cong.ofOpt_rel _ (h.c.used pkg (hprov pkg hpkg)) hE (fun cur cur' hcur => ?_)
      try dsimp only
      refine Cong.bind (R1 := StRel U P)
        (Cong.modC (fun t t' ht => ⟨ht.raw, ht.next, ht.c.setUsed pkg (hcur.setRemove ref)⟩))
        (fun _ => ?_)
      rw [(hcur.setRemove ref).isEmpty]
      split
      · exact pkgUnregister_cong hPU pkg
      · exact Cong.pure _ (fun _ _ h => h)
    refine Cong.getSt_bind (fun s s' h => ?_)
    rw [h.raw]
    split
    · exact Cong.mono_post (Cong.liftRaw_StRel hPU _) hE
    · exact Cong.pure _ hE

end Low

theorem schemaRegister_cong (e : Env) (ref : SRef) :
    Cong ObsEq (schemaRegister e ref) (schemaRegister e ref) ObsEq :=
  fun s s' h => schemaRegister_congP (U := Prov s.c) (P := Prov s.c) (fun _ h => h) e ref s s' h.toStRel

theorem schemaUnregister_cong (ref : SRef) :
    Cong ObsEq (schemaUnregister ref) (schemaUnregister ref) ObsEq :=
  fun s s' h => schemaUnregister_congP (U := Prov s.c) (P := Prov s.c) (fun _ h => h) ref s s' h.toStRel

end MetadorModel.Container
