import MetadorModel.Proofs.OverlayWriteSorted
/-!
# C01 write side, part 12: the replay program computes `Spec.copy` (plain trees only)

`CopyRes t s d t'` is the point-wise description of "the subtree at `s` of `t`, as it was, now
also at `d`; missing ancestors of `d` are groups; nothing else changed". `Spec.copy` satisfies
it (`specCopy_res`) and so does the replay program of `h5_copy_from_to` run on the plain tree
(`prog_res`) when it is given a parents-first snapshot of the source (`KidsOk`).
-/
namespace MetadorModel.Overlay
open MetadorModel.Tree
variable {V : Type}

/-! ### association lists -/

theorem aget_append {κ β : Type} [DecidableEq κ] (q : κ) (l1 l2 : List (κ × β)) :
    aget q (l1 ++ l2) = match aget q l1 with
      | some v => some v
      | none => aget q l2 := by
  induction l1 with
  | nil => rfl
  | cons e l1 ih =>
    obtain ⟨a, b⟩ := e
    by_cases h : a = q
    · simp [aget, h]
    · simp [aget, h, ih]

theorem aget_regraft_below (s d : Path) (t : Tree V) (x : Path) :
    aget (d ++ x) (Spec.regraft s d t) = aget (s ++ x) t := by
  induction t with
  | nil => rfl
  | cons e t ih =>
    obtain ⟨a, n⟩ := e
    unfold Spec.regraft at ih ⊢
    by_cases hp : isPre s a = true
    · obtain ⟨y, rfl⟩ := (isPre_iff _ _).1 hp
      simp only [List.filter_cons, hp, ↓reduceIte, List.map_cons, List.drop_left, aget,
        List.append_cancel_left_eq]
      by_cases hy : y = x
      · simp [hy]
      · simp only [hy, ↓reduceIte]; exact ih
    · have hne : a ≠ s ++ x := by
        rintro rfl; exact hp (isPre_append s x)
      simp only [List.filter_cons, hp, Bool.false_eq_true, ↓reduceIte, aget, hne]
      exact ih

theorem aget_regraft_other (s d : Path) (t : Tree V) (q : Path) (hq : isPre d q = false) :
    aget q (Spec.regraft s d t) = none := by
  induction t with
  | nil => rfl
  | cons e t ih =>
    obtain ⟨a, n⟩ := e
    unfold Spec.regraft at ih ⊢
    by_cases hp : isPre s a = true
    · have hne : d ++ List.drop s.length a ≠ q := by
        rintro rfl; rw [isPre_append] at hq; cases hq
      simp only [List.filter_cons, hp, ↓reduceIte, List.map_cons, aget, hne]
      exact ih
    · simp only [List.filter_cons, hp, Bool.false_eq_true, ↓reduceIte]
      exact ih

/-! ### the point-wise specification of a copy -/

/-- kind of `q` after the missing ancestors of `d` were created -/
def withAnc (t : Tree V) (d q : Path) : Option (NKind V) :=
  match kindAt t q with
  | some kd => some kd
  | none => if q ∈ properPrefixes d then some .group else none

theorem kindAt_ensure' (t : Tree V) (d q : Path) : kindAt (ensure emptyGroup d t) q = withAnc t d q := by
  rw [kindAt_ensure]; unfold withAnc
  cases kindAt t q with
  | some kd => rfl
  | none => simp only []

structure CopyRes (t : Tree V) (s d : Path) (t' : Tree V) : Prop where
  below : ∀ x, kindAt t' (d ++ x) = kindAt t (s ++ x) ∧ ∀ k, attrAt t' (d ++ x) k = attrAt t (s ++ x) k
  other : ∀ q, isPre d q = false → kindAt t' q = withAnc t d q ∧ ∀ k, attrAt t' q k = attrAt t q k

theorem CopyRes.equiv {t : Tree V} {s d : Path} {t1 t2 : Tree V} (h1 : CopyRes t s d t1) (h2 : CopyRes t s d t2) :
    ∀ q, kindAt t1 q = kindAt t2 q ∧ ∀ k, attrAt t1 q k = attrAt t2 q k := by
  intro q
  by_cases hb : isPre d q = true
  · obtain ⟨x, rfl⟩ := (isPre_iff _ _).1 hb
    exact ⟨by rw [(h1.below x).1, (h2.below x).1], fun k => by rw [(h1.below x).2, (h2.below x).2]⟩
  · have hb' : isPre d q = false := by simpa using hb
    exact ⟨by rw [(h1.other q hb').1, (h2.other q hb').1], fun k => by rw [(h1.other q hb').2, (h2.other q hb').2]⟩

theorem specCopy_res (t : Tree V) (s d : Path) (hfree : ∀ x, aget (d ++ x) t = none) :
    CopyRes t s d (Spec.regraft s d t ++ ensure emptyGroup d t) := by
  refine ⟨fun x => ?_, fun q hq => ?_⟩
  · have hE : aget (d ++ x) (ensure emptyGroup d t) = none := by
      rw [aget_ensure, hfree x]
      have : d ++ x ∉ properPrefixes d := not_mem_pp_of_isPre d _ (isPre_append d x)
      simp [this]
    refine ⟨?_, fun k => ?_⟩
    · unfold kindAt
      rw [aget_append, aget_regraft_below]
      cases h : aget (s ++ x) t with
      | some n => rfl
      | none => simp [hE]
    · unfold attrAt
      rw [aget_append, aget_regraft_below]
      cases h : aget (s ++ x) t with
      | some n => rfl
      | none => simp [hE]
  · refine ⟨?_, fun k => ?_⟩
    · rw [← kindAt_ensure']
      unfold kindAt
      rw [aget_append, aget_regraft_other s d t q hq]
    · rw [← attrAt_ensure t d q k]
      unfold attrAt
      rw [aget_append, aget_regraft_other s d t q hq]

/-! ### copying attributes on the plain tree -/

theorem specCopyAttrs_ok (as : List (Key × V)) : ∀ (t : Tree V) (p : Path), kindAt t p ≠ none →
    (as.map (·.1)).Nodup →
    ∃ t', specCopyAttrs t p as = .ok t' ∧ (∀ q, kindAt t' q = kindAt t q) ∧
      ∀ q k, attrAt t' q k = if q = p then (match aget k as with | some v => some v | none => attrAt t p k)
        else attrAt t q k := by
  induction as with
  | nil =>
    intro t p _ _
    refine ⟨t, rfl, fun _ => rfl, fun q k => ?_⟩
    by_cases hq : q = p <;> simp [hq, aget]
  | cons kv more ih =>
    intro t p hp hnd
    obtain ⟨k0, v0⟩ := kv
    simp only [List.map_cons, List.nodup_cons] at hnd
    obtain ⟨n, hn⟩ : ∃ n, aget p t = some n := by
      cases h : aget p t with
      | none => exact absurd ((kindAt_none_iff t p).2 h) hp
      | some n => exact ⟨n, rfl⟩
    have hk1 : ∀ q, kindAt (aput p { n with attrs := aput k0 v0 n.attrs } t) q = kindAt t q := by
      intro q
      rw [kindAt_aput]
      by_cases hq : q = p
      · subst hq; simp [kindAt, hn]
      · simp [hq]
    obtain ⟨t', h1, h2, h3⟩ := ih (aput p { n with attrs := aput k0 v0 n.attrs } t) p
      (by rw [hk1]; exact hp) hnd.2
    refine ⟨t', ?_, fun q => by rw [h2, hk1], fun q k => ?_⟩
    · simp only [specCopyAttrs, Spec.setAttr, hn, bind, Except.bind]
      exact h1
    · rw [h3, attrAt_aput, attrAt_aput]
      by_cases hq : q = p
      · simp only [hq, ↓reduceIte, aget_aput, aget]
        by_cases hk : k0 = k
        · subst hk
          have : aget k0 more = none := by
            cases hx : aget k0 more with
            | none => rfl
            | some v =>
              exfalso
              apply hnd.1
              have := Single.aget_mem more k0 v hx
              exact List.mem_map.2 ⟨(k0, v), this, rfl⟩
          simp [this]
        · have hk' : ¬ k = k0 := fun h => hk h.symm
          simp only [hk, hk', ↓reduceIte]
          cases aget k more with
          | some v => rfl
          | none => simp [attrAt, hn]
      · simp [hq]

end MetadorModel.Overlay
