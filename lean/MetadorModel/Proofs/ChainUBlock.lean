import MetadorModel.Model.UBlock
import Mathlib.Data.List.Basic
/-! Lemmas about the canonical user-block parser of `Model/UBlock.lean` (C04, C11):
round trip with remainder, soundness, and the characterisation
`parseUBT t = ok u ↔ t = render u ∧ u.wf`. -/
namespace MetadorModel.UBlock
open List

theorem lit_append (p s : List Char) : lit p (p ++ s) = some s := by
  induction p with
  | nil => cases s <;> rfl
  | cons c p ih => simp [lit, ih]

theorem lit_some {p s r : List Char} (h : lit p s = some r) : s = p ++ r := by
  induction p generalizing s with
  | nil => cases s <;> simp_all [lit]
  | cons c p ih =>
    cases s with
    | nil => simp [lit] at h
    | cons d s =>
      simp only [lit] at h
      split_ifs at h with hcd
      subst hcd
      rw [ih h]; rfl

theorem untilQuote_append {a r : List Char} (ha : '"' ∉ a) :
    untilQuote (a ++ '"' :: r) = some (a, r) := by
  induction a with
  | nil => simp [untilQuote]
  | cons c a ih =>
    have hc : c ≠ '"' := fun h => ha (h ▸ mem_cons_self)
    have ha' : '"' ∉ a := fun h => ha (mem_cons_of_mem _ h)
    simp [untilQuote, hc, ih ha']

theorem untilQuote_some {s a r : List Char} (h : untilQuote s = some (a, r)) :
    s = a ++ '"' :: r ∧ '"' ∉ a := by
  induction s generalizing a with
  | nil => simp [untilQuote] at h
  | cons c s ih =>
    simp only [untilQuote] at h
    split_ifs at h with hc
    · simp at h; obtain ⟨rfl, rfl⟩ := h; simp [hc]
    · rcases hu : untilQuote s with _ | ⟨a', r'⟩
      · simp [hu] at h
      · simp [hu] at h
        obtain ⟨rfl, rfl⟩ := h
        obtain ⟨h1, h2⟩ := ih hu
        refine ⟨by rw [h1]; rfl, ?_⟩
        simp [h2]; exact fun h => hc h.symm

theorem strP_append {ok : List Char → Bool} {a r : List Char} (hok : ok a = true) (ha : '"' ∉ a) :
    strP ok (q a ++ r) = some (a, r) := by
  simp [strP, q, untilQuote_append ha, hok]

theorem strP_some {ok : List Char → Bool} {s a r : List Char} (h : strP ok s = some (a, r)) :
    s = q a ++ r ∧ ok a = true ∧ '"' ∉ a := by
  cases s with
  | nil => simp [strP] at h
  | cons c s =>
    simp only [strP] at h
    split_ifs at h with hc
    subst hc
    rcases hu : untilQuote s with _ | ⟨a', r'⟩
    · simp [hu] at h
    · simp [hu] at h
      obtain ⟨hok, rfl, rfl⟩ := h
      obtain ⟨h1, h2⟩ := untilQuote_some hu
      exact ⟨by rw [h1]; simp [q], hok, h2⟩

/-! digits -/
theorem digitRun_append {d r : List Char} (hd : ∀ c ∈ d, isDigit c = true)
    (hr : ∀ c, r.head? = some c → isDigit c = false) : digitRun (d ++ r) = (d, r) := by
  induction d with
  | nil =>
    cases r with
    | nil => rfl
    | cons c r => simp [digitRun, hr c rfl]
  | cons c d ih =>
    have := ih (fun x hx => hd x (mem_cons_of_mem _ hx))
    simp [digitRun, hd c mem_cons_self, this]

theorem digitRun_eq {s a r : List Char} (h : digitRun s = (a, r)) : s = a ++ r := by
  induction s generalizing a with
  | nil => simp [digitRun] at h; obtain ⟨rfl, rfl⟩ := h; rfl
  | cons c s ih =>
    simp only [digitRun] at h
    split_ifs at h with hc
    · rcases hd : digitRun s with ⟨a', r'⟩
      simp [hd] at h
      obtain ⟨rfl, rfl⟩ := h
      rw [ih hd]; rfl
    · simp at h; obtain ⟨rfl, rfl⟩ := h; rfl

theorem isDec_digits {s : List Char} (h : isDec s = true) : ∀ c ∈ s, isDigit c = true := by
  cases s with
  | nil => simp
  | cons c cs =>
    simp only [isDec] at h
    split_ifs at h with h0
    · subst h0
      have : cs = [] := by simpa using h
      subst this
      simp; decide
    · simp only [Bool.and_eq_true, decide_eq_true_eq, all_eq_true] at h
      intro x hx
      rcases mem_cons.mp hx with rfl | hx
      · simp only [isDigit, Bool.and_eq_true, decide_eq_true_eq]
        exact ⟨Char.le_trans (by decide) h.1.1, h.1.2⟩
      · exact h.2 x hx

theorem decP_append {d r : List Char} (hd : isDec d = true)
    (hr : ∀ c, r.head? = some c → isDigit c = false) : decP (d ++ r) = some (d, r) := by
  simp [decP, digitRun_append (isDec_digits hd) hr, hd]

theorem decP_some {s a r : List Char} (h : decP s = some (a, r)) : s = a ++ r ∧ isDec a = true := by
  unfold decP at h
  rcases hd : digitRun s with ⟨a', r'⟩
  simp [hd] at h
  obtain ⟨hok, rfl, rfl⟩ := h
  exact ⟨digitRun_eq hd, hok⟩

/-! optional strings, booleans -/
theorem optP_null (ok : List Char → Bool) (r : List Char) :
    optP ok (S_null ++ r) = some (none, r) := by
  unfold optP; rw [lit_append]

theorem optP_str {ok : List Char → Bool} {a r : List Char} (hok : ok a = true) (ha : '"' ∉ a) :
    optP ok (q a ++ r) = some (some a, r) := by
  have : lit S_null (q a ++ r) = none := by simp [q, lit, S_null]
  unfold optP; rw [this, strP_append hok ha]; rfl

theorem optP_append {ok : List Char → Bool} (o : Option (List Char)) (r : List Char)
    (h : ∀ a, o = some a → ok a = true ∧ '"' ∉ a) : optP ok (optStr o ++ r) = some (o, r) := by
  cases o with
  | none => exact optP_null ok r
  | some a => exact optP_str (h a rfl).1 (h a rfl).2

theorem optP_some {ok : List Char → Bool} {s r : List Char} {o : Option (List Char)}
    (h : optP ok s = some (o, r)) :
    s = optStr o ++ r ∧ ∀ a, o = some a → ok a = true ∧ '"' ∉ a := by
  unfold optP at h
  rcases hl : lit S_null s with _ | r'
  · rw [hl] at h
    rcases hs : strP ok s with _ | ⟨a, r''⟩
    · simp [hs] at h
    · simp [hs] at h
      obtain ⟨rfl, rfl⟩ := h
      obtain ⟨h1, h2, h3⟩ := strP_some hs
      exact ⟨h1, fun a' ha' => by cases ha'; exact ⟨h2, h3⟩⟩
  · rw [hl] at h
    simp at h
    obtain ⟨rfl, rfl⟩ := h
    exact ⟨lit_some hl, fun a ha => by cases ha⟩

theorem boolP_append (b : Bool) (r : List Char) : boolP (renderBool b ++ r) = some (b, r) := by
  cases b
  · have : lit S_true (S_false ++ r) = none := by simp [lit, S_true, S_false]
    unfold boolP renderBool
    simp only [Bool.false_eq_true, if_false]
    rw [this, lit_append]; rfl
  · unfold boolP renderBool
    simp only [if_true]
    rw [lit_append]

theorem boolP_some {s r : List Char} {b : Bool} (h : boolP s = some (b, r)) :
    s = renderBool b ++ r := by
  unfold boolP at h
  rcases hl : lit S_true s with _ | r'
  · rw [hl] at h
    rcases hf : lit S_false s with _ | r''
    · simp [hf] at h
    · simp [hf] at h
      obtain ⟨rfl, rfl⟩ := h
      simpa [renderBool] using lit_some hf
  · rw [hl] at h
    simp at h
    obtain ⟨rfl, rfl⟩ := h
    simpa [renderBool] using lit_some hl

/-! the extension object -/
theorem extP_none (r : List Char) : extP (renderExt none ++ r) = some (none, r) := by
  unfold extP renderExt; rw [lit_append]

theorem extP_ext {e : ExtT} (r : List Char) (h1 : isUuid e.muuid = true) (h1' : '"' ∉ e.muuid)
    (h2 : isQHash e.mhash = true) (h2' : '"' ∉ e.mhash) :
    extP (renderExt (some e) ++ r) = some (some e, r) := by
  have h0 : lit S_obj0 (renderExt (some e) ++ r) = none := by
    simp [renderExt, E1, S_obj0, lit]
  unfold extP
  rw [h0]
  simp only [renderExt, append_assoc]
  rw [lit_append]
  simp only [Option.bind_eq_bind, Option.bind_some, boolP_append, lit_append,
    strP_append h1 h1', strP_append h2 h2']
  rfl

theorem extP_some {s r : List Char} {o : Option ExtT} (h : extP s = some (o, r)) :
    s = renderExt o ++ r ∧
      ∀ e, o = some e → (isUuid e.muuid = true ∧ '"' ∉ e.muuid) ∧ (isQHash e.mhash = true ∧ '"' ∉ e.mhash) := by
  unfold extP at h
  rcases hl : lit S_obj0 s with _ | r'
  · rw [hl] at h
    simp only [Option.bind_eq_bind] at h
    rcases k1 : lit E1 s with _ | s1
    · simp [k1] at h
    rcases k2 : boolP s1 with _ | ⟨b, s2⟩
    · simp [k1, k2] at h
    rcases k3 : lit E2 s2 with _ | s3
    · simp [k1, k2, k3] at h
    rcases k4 : strP isUuid s3 with _ | ⟨mu, s4⟩
    · simp [k1, k2, k3, k4] at h
    rcases k5 : lit E3 s4 with _ | s5
    · simp [k1, k2, k3, k4, k5] at h
    rcases k6 : strP isQHash s5 with _ | ⟨mh, s6⟩
    · simp [k1, k2, k3, k4, k5, k6] at h
    rcases k7 : lit E4 s6 with _ | s7
    · simp [k1, k2, k3, k4, k5, k6, k7] at h
    simp [k1, k2, k3, k4, k5, k6, k7] at h
    obtain ⟨rfl, rfl⟩ := h
    obtain ⟨u1, u2, u3⟩ := strP_some k4
    obtain ⟨v1, v2, v3⟩ := strP_some k6
    refine ⟨?_, fun e he => by cases he; exact ⟨⟨u2, u3⟩, ⟨v2, v3⟩⟩⟩
    rw [lit_some k1, boolP_some k2, lit_some k3, u1, lit_some k5, v1, lit_some k7]
    simp [renderExt, append_assoc]
  · rw [hl] at h
    simp at h
    obtain ⟨rfl, rfl⟩ := h
    exact ⟨lit_some hl, fun e he => by cases he⟩


/-! character classes: no quote inside uuids and hash strings -/
theorem isHexL_ne_quote {c : Char} (h : isHexL c = true) : c ≠ '"' := by
  rintro rfl; revert h; decide

theorem isHex_ne_quote {c : Char} (h : isHex c = true) : c ≠ '"' := by
  rintro rfl; revert h; decide

theorem hexRun_some {n : Nat} {s r : List Char} (h : hexRun n s = some r) :
    ∃ a, s = a ++ r ∧ a.length = n ∧ ∀ c ∈ a, isHexL c = true := by
  induction n generalizing s with
  | zero => simp [hexRun] at h; exact ⟨[], by simp [h]⟩
  | succ n ih =>
    cases s with
    | nil => simp [hexRun] at h
    | cons c s =>
      simp only [hexRun] at h
      split_ifs at h with hc
      obtain ⟨a, h1, h2, h3⟩ := ih h
      refine ⟨c :: a, by rw [h1]; rfl, by simp [h2], ?_⟩
      intro x hx
      rcases mem_cons.mp hx with rfl | hx
      · exact hc
      · exact h3 x hx

theorem dash_some {s r : List Char} (h : dash s = some r) : s = '-' :: r := by
  cases s with
  | nil => simp [dash] at h
  | cons c s =>
    simp only [dash] at h
    split_ifs at h with hc
    simp at h; subst hc; subst h; rfl

theorem isUuid_chars {s : List Char} (h : isUuid s = true) : ∀ c ∈ s, isHexL c = true ∨ c = '-' := by
  unfold isUuid at h
  rcases k1 : hexRun 8 s with _ | s1
  · simp [k1] at h
  rcases k2 : dash s1 with _ | s2
  · simp [k1, k2] at h
  rcases k3 : hexRun 4 s2 with _ | s3
  · simp [k1, k2, k3] at h
  rcases k4 : dash s3 with _ | s4
  · simp [k1, k2, k3, k4] at h
  rcases k5 : hexRun 4 s4 with _ | s5
  · simp [k1, k2, k3, k4, k5] at h
  rcases k6 : dash s5 with _ | s6
  · simp [k1, k2, k3, k4, k5, k6] at h
  rcases k7 : hexRun 4 s6 with _ | s7
  · simp [k1, k2, k3, k4, k5, k6, k7] at h
  rcases k8 : dash s7 with _ | s8
  · simp [k1, k2, k3, k4, k5, k6, k7, k8] at h
  rcases k9 : hexRun 12 s8 with _ | s9
  · simp [k1, k2, k3, k4, k5, k6, k7, k8, k9] at h
  simp [k1, k2, k3, k4, k5, k6, k7, k8, k9] at h
  have h9 : s9 = [] := by
    cases s9 with
    | nil => rfl
    | cons c t => simp at h
  subst h9
  obtain ⟨a1, e1, -, c1⟩ := hexRun_some k1
  obtain ⟨a3, e3, -, c3⟩ := hexRun_some k3
  obtain ⟨a5, e5, -, c5⟩ := hexRun_some k5
  obtain ⟨a7, e7, -, c7⟩ := hexRun_some k7
  obtain ⟨a9, e9, -, c9⟩ := hexRun_some k9
  rw [e1, dash_some k2, e3, dash_some k4, e5, dash_some k6, e7, dash_some k8, e9]
  intro c hc
  simp only [mem_append, mem_cons, append_nil] at hc
  rcases hc with hc | rfl | hc | rfl | hc | rfl | hc | rfl | hc
  · exact Or.inl (c1 c hc)
  · exact Or.inr rfl
  · exact Or.inl (c3 c hc)
  · exact Or.inr rfl
  · exact Or.inl (c5 c hc)
  · exact Or.inr rfl
  · exact Or.inl (c7 c hc)
  · exact Or.inr rfl
  · exact Or.inl (c9 c hc)

theorem isUuid_noQuote {s : List Char} (h : isUuid s = true) : '"' ∉ s := by
  intro hm
  rcases isUuid_chars h _ hm with h | h
  · exact isHexL_ne_quote h rfl
  · cases h

theorem hexOk_noQuote {s : List Char} (h : hexOk s = true) : '"' ∉ s := by
  simp only [hexOk, Bool.and_eq_true, all_eq_true] at h
  exact fun hm => isHex_ne_quote (h.2 _ hm) rfl

theorem isQHash_noQuote {s : List Char} (h : isQHash s = true) : '"' ∉ s := by
  unfold isQHash at h
  rcases k1 : lit S_sha256 s with _ | r
  · rw [k1] at h
    rcases k2 : lit S_sha512 s with _ | r
    · simp [k2] at h
    · rw [k2] at h
      rw [lit_some k2]
      simp only [mem_append, not_or]
      exact ⟨by decide, hexOk_noQuote h⟩
  · rw [k1] at h
    rw [lit_some k1]
    simp only [mem_append, not_or]
    exact ⟨by decide, hexOk_noQuote h⟩

/-! ## the whole user block -/

theorem K3_head : ∀ c, K3.head? = some c → isDigit c = false := by
  intro c h; simp [K3] at h; subst h; decide

theorem decP_append_K3 {d : List Char} (hd : isDec d = true) (r : List Char) :
    decP (d ++ (K3 ++ r)) = some (d, K3 ++ r) :=
  decP_append hd (fun c hc => K3_head c (by simpa [K3] using hc))

theorem wf_parts {u : UBT} (h : u.wf = true) :
    isUuid u.rid = true ∧ isDec u.idx = true ∧ isUuid u.pid = true ∧
    (∀ a, u.prev = some a → isUuid a = true ∧ '"' ∉ a) ∧
    (∀ a, u.hash = some a → isQHash a = true ∧ '"' ∉ a) ∧
    (∀ e, u.ext = some e → (isUuid e.muuid = true ∧ '"' ∉ e.muuid) ∧ (isQHash e.mhash = true ∧ '"' ∉ e.mhash)) := by
  simp only [UBT.wf, ExtT.wf, Bool.and_eq_true] at h
  obtain ⟨⟨⟨⟨⟨h1, h2⟩, h3⟩, h4⟩, h5⟩, h6⟩ := h
  refine ⟨h1, h2, h3, ?_, ?_, ?_⟩
  · intro a ha; rw [ha] at h4; exact ⟨h4, isUuid_noQuote h4⟩
  · intro a ha; rw [ha] at h5; exact ⟨h5, isQHash_noQuote h5⟩
  · intro e he; rw [he] at h6
    simp only [Bool.and_eq_true] at h6
    exact ⟨⟨h6.1, isUuid_noQuote h6.1⟩, ⟨h6.2, isQHash_noQuote h6.2⟩⟩

/-- **round trip with remainder**: the parser reads back a rendered block and leaves the rest -/
theorem parseP_render {u : UBT} (h : u.wf = true) (rest : List Char) :
    parseP (render u ++ rest) = some (u, rest) := by
  obtain ⟨h1, h2, h3, h4, h5, h6⟩ := wf_parts h
  have hext : extP (renderExt u.ext ++ (S_close ++ rest)) = some (u.ext, S_close ++ rest) := by
    rcases he : u.ext with _ | e
    · exact extP_none _
    · obtain ⟨⟨a1, a2⟩, ⟨b1, b2⟩⟩ := h6 e he
      exact extP_ext _ a1 a2 b1 b2
  unfold parseP
  simp only [render, append_assoc]
  rw [lit_append]
  simp only [Option.bind_eq_bind, Option.bind_some, lit_append,
    strP_append h1 (isUuid_noQuote h1), strP_append h3 (isUuid_noQuote h3),
    decP_append_K3 h2,
    optP_append u.prev _ h4, optP_append u.hash _ h5, hext]
  rfl

/-- **soundness**: whatever the parser accepts is a rendered block followed by the rest -/
theorem parseP_some {s r : List Char} {u : UBT} (h : parseP s = some (u, r)) :
    s = render u ++ r ∧ u.wf = true := by
  unfold parseP at h
  simp only [Option.bind_eq_bind] at h
  rcases k1 : lit K1 s with _ | s1
  · simp [k1] at h
  rcases k2 : strP isUuid s1 with _ | ⟨rid, s2⟩
  · simp [k1, k2] at h
  rcases k3 : lit K2 s2 with _ | s3
  · simp [k1, k2, k3] at h
  rcases k4 : decP s3 with _ | ⟨idx, s4⟩
  · simp [k1, k2, k3, k4] at h
  rcases k5 : lit K3 s4 with _ | s5
  · simp [k1, k2, k3, k4, k5] at h
  rcases k6 : strP isUuid s5 with _ | ⟨pid, s6⟩
  · simp [k1, k2, k3, k4, k5, k6] at h
  rcases k7 : lit K4 s6 with _ | s7
  · simp [k1, k2, k3, k4, k5, k6, k7] at h
  rcases k8 : optP isUuid s7 with _ | ⟨prev, s8⟩
  · simp [k1, k2, k3, k4, k5, k6, k7, k8] at h
  rcases k9 : lit K5 s8 with _ | s9
  · simp [k1, k2, k3, k4, k5, k6, k7, k8, k9] at h
  rcases k10 : optP isQHash s9 with _ | ⟨hash, s10⟩
  · simp [k1, k2, k3, k4, k5, k6, k7, k8, k9, k10] at h
  rcases k11 : lit K6 s10 with _ | s11
  · simp [k1, k2, k3, k4, k5, k6, k7, k8, k9, k10, k11] at h
  rcases k12 : extP s11 with _ | ⟨ext, s12⟩
  · simp [k1, k2, k3, k4, k5, k6, k7, k8, k9, k10, k11, k12] at h
  rcases k13 : lit S_close s12 with _ | s13
  · simp [k1, k2, k3, k4, k5, k6, k7, k8, k9, k10, k11, k12, k13] at h
  simp [k1, k2, k3, k4, k5, k6, k7, k8, k9, k10, k11, k12, k13] at h
  obtain ⟨rfl, rfl⟩ := h
  obtain ⟨a1, a2, -⟩ := strP_some k2
  obtain ⟨b1, b2⟩ := decP_some k4
  obtain ⟨c1, c2, -⟩ := strP_some k6
  obtain ⟨d1, d2⟩ := optP_some k8
  obtain ⟨e1, e2⟩ := optP_some k10
  obtain ⟨f1, f2⟩ := extP_some k12
  constructor
  · rw [lit_some k1, a1, lit_some k3, b1, lit_some k5, c1, lit_some k7, d1, lit_some k9, e1,
      lit_some k11, f1, lit_some k13]
    simp [render, append_assoc]
  · simp only [UBT.wf, ExtT.wf, Bool.and_eq_true]
    refine ⟨⟨⟨⟨⟨a2, b2⟩, c2⟩, ?_⟩, ?_⟩, ?_⟩
    · rcases prev with _ | a
      · rfl
      · exact (d2 a rfl).1
    · rcases hash with _ | a
      · rfl
      · exact (e2 a rfl).1
    · rcases ext with _ | e
      · rfl
      · simp only [Bool.and_eq_true]
        exact ⟨(f2 e rfl).1.1, (f2 e rfl).2.1⟩

/-- **The canonical parser accepts exactly the rendered well-formed blocks.** -/
theorem parseUBT_ok_iff (t : List Char) (u : UBT) :
    parseUBT t = .ok u ↔ t = render u ∧ u.wf = true := by
  unfold parseUBT
  constructor
  · intro h
    rcases hp : parseP t with _ | ⟨u', r⟩
    · simp [hp] at h
    · rw [hp] at h
      cases r with
      | nil =>
        simp only [pure, Except.pure] at h
        injection h with h
        subst h
        simpa using parseP_some hp
      | cons c r => simp at h
  · rintro ⟨rfl, hw⟩
    have := parseP_render hw []
    rw [append_nil] at this
    rw [this]; rfl

end MetadorModel.UBlock
