import MetadorModel.Proofs.Listing
import MetadorModel.Proofs.OverlayWriteCopySim
import Mathlib.Data.String.Basic
/-!
# C01 write side, part 11: the listing that `copy` replays is parents-first

`listing r` is sorted by `pathLt` (Python string order lifted to paths; a path precedes its
extensions) and duplicate free, so the snapshot of the source's descendants that
`h5_copy_from_to` replays (`KidsOk`) lists every visible descendant exactly once, with its kind
and attributes, every node after all of its ancestors.
-/
namespace MetadorModel.Overlay
open MetadorModel.Tree
variable {V : Type}

/-! ### `pathLt` is a strict order that puts prefixes first -/

theorem pathLt_trans : ∀ (a b c : Path), pathLt a b = true → pathLt b c = true → pathLt a c = true
  | [], [], _, h, _ => by simp [pathLt] at h
  | [], _ :: _, [], _, h => by simp [pathLt] at h
  | [], _ :: _, _ :: _, _, _ => rfl
  | _ :: _, [], _, h, _ => by simp [pathLt] at h
  | _ :: _, _ :: _, [], _, h => by simp [pathLt] at h
  | x :: xs, y :: ys, z :: zs, h1, h2 => by
    simp only [pathLt] at h1 h2 ⊢
    by_cases hxy : x < y
    · by_cases hyz : y < z
      · simp [lt_trans hxy hyz]
      · simp only [hyz, ↓reduceIte] at h2
        by_cases hyz' : y = z
        · subst hyz'; simp [hxy]
        · simp [hyz'] at h2
    · simp only [hxy, ↓reduceIte] at h1
      by_cases hxy' : x = y
      · subst hxy'
        simp only [↓reduceIte] at h1
        by_cases hyz : x < z
        · simp [hyz]
        · simp only [hyz, ↓reduceIte] at h2 ⊢
          by_cases hyz' : x = z
          · subst hyz'
            simp only [↓reduceIte] at h2 ⊢
            exact pathLt_trans xs ys zs h1 h2
          · simp [hyz'] at h2
      · simp [hxy'] at h1

theorem pathLt_irrefl : ∀ (a : Path), pathLt a a = false
  | [] => rfl
  | x :: xs => by simp [pathLt, pathLt_irrefl xs]

theorem pathLt_asymm (a b : Path) (h : pathLt a b = true) : pathLt b a = false := by
  cases hb : pathLt b a with
  | false => rfl
  | true =>
    have := pathLt_trans a b a h hb
    rw [pathLt_irrefl] at this; cases this

theorem pathLt_append : ∀ (x y : Path), y ≠ [] → pathLt x (x ++ y) = true
  | [], [], h => absurd rfl h
  | [], _ :: _, _ => rfl
  | a :: x, y, h => by simp [pathLt, pathLt_append x y h]

/-! ### insertion sort sorts -/

def Srt {α : Type} (lt : α → α → Bool) (l : List α) : Prop := l.Pairwise (fun a b => lt b a = false)

theorem mem_insertBy {α : Type} (lt : α → α → Bool) (x z : α) (l : List α) :
    z ∈ insertBy lt x l ↔ z = x ∨ z ∈ l := by
  rw [(Listing.insertBy_perm lt x l).mem_iff]; simp

theorem insertBy_sorted {α : Type} (lt : α → α → Bool)
    (htr : ∀ a b c, lt a b = true → lt b c = true → lt a c = true)
    (has : ∀ a b, lt a b = true → lt b a = false) (x : α) (l : List α) (h : Srt lt l) :
    Srt lt (insertBy lt x l) := by
  induction l with
  | nil => simp [insertBy, Srt]
  | cons y ys ih =>
    unfold Srt at h ih ⊢
    rw [List.pairwise_cons] at h
    simp only [insertBy]
    by_cases hxy : lt x y = true
    · simp only [hxy, ↓reduceIte]
      rw [List.pairwise_cons]
      refine ⟨?_, List.pairwise_cons.2 h⟩
      intro z hz
      rcases List.mem_cons.1 hz with rfl | hz'
      · exact has _ _ hxy
      · cases hzx : lt z x with
        | false => rfl
        | true =>
          have := htr z x y hzx hxy
          rw [h.1 z hz'] at this; cases this
    · simp only [hxy, Bool.false_eq_true, ↓reduceIte]
      rw [List.pairwise_cons]
      refine ⟨?_, ih h.2⟩
      intro z hz
      rcases (mem_insertBy lt x z ys).1 hz with rfl | hz'
      · simpa using hxy
      · exact h.1 z hz'

theorem sortBy_sorted {α : Type} (lt : α → α → Bool)
    (htr : ∀ a b c, lt a b = true → lt b c = true → lt a c = true)
    (has : ∀ a b, lt a b = true → lt b a = false) (l : List α) : Srt lt (sortBy lt l) := by
  induction l with
  | nil => simp [sortBy, Srt]
  | cons x xs ih => exact insertBy_sorted lt htr has x _ ih

/-- in a sorted list an element that is smaller than another one comes first -/
theorem before_of_sorted {α : Type} (lt : α → α → Bool) (l1 l2 : List α) (e a : α)
    (hs : Srt lt (l1 ++ e :: l2)) (hm : a ∈ l1 ++ e :: l2) (hlt : lt a e = true) (hirr : lt e e = false) :
    a ∈ l1 := by
  unfold Srt at hs
  rw [List.pairwise_append] at hs
  obtain ⟨_, h2, _⟩ := hs
  rw [List.pairwise_cons] at h2
  rcases List.mem_append.1 hm with h | h
  · exact h
  · rcases List.mem_cons.1 h with rfl | h'
    · rw [hirr] at hlt; cases hlt
    · rw [h2.1 a h'] at hlt; cases hlt

/-! ### the listing -/

theorem listing_eq (r : Rec V) : listing r = (candidates r).filterMap
    (fun p => ((viewKind r p).map (fun kd => (kd, attrsList r p))).map (fun x => (p, x))) := by
  unfold listing
  congr 1
  funext p; cases viewKind r p <;> rfl

theorem listing_keys_sublist (r : Rec V) : ((listing r).map (·.1)).Sublist (candidates r) := by
  rw [listing_eq]
  exact Listing.keys_filterMap_sublist _ _

theorem candidates_sorted (r : Rec V) : Srt pathLt (candidates r) :=
  sortBy_sorted pathLt pathLt_trans pathLt_asymm _

theorem mem_listing (r : Rec V) (e : Path × NKind V × List (Key × V)) (h : e ∈ listing r) :
    viewKind r e.1 = some e.2.1 ∧ e.2.2 = attrsList r e.1 := by
  simp only [listing, List.mem_filterMap] at h
  obtain ⟨q, _, hq⟩ := h
  cases hv : viewKind r q with
  | none => simp [hv] at hq
  | some kd =>
    simp only [hv, Option.map_some, Option.some.injEq] at hq
    subst hq
    exact ⟨hv, rfl⟩

theorem listing_mem_of_visible (r : Rec V) (q : Path) (hq : q ≠ []) (kd : NKind V) (h : viewKind r q = some kd) :
    (q, kd, attrsList r q) ∈ listing r := by
  simp only [listing, List.mem_filterMap]
  exact ⟨q, Listing.viewKind_some_mem r q hq kd h, by simp [h]⟩

/-! ### the snapshot replayed by `copy` -/

structure KidsOk (t : Tree V) (s : Path) (kids : List (Path × NKind V × List (Key × V))) : Prop where
  mem : ∀ e ∈ kids, ∃ x, x ≠ [] ∧ e.1 = s ++ x ∧ kindAt t e.1 = some e.2.1 ∧
    (∀ k, aget k e.2.2 = attrAt t e.1 k) ∧ (e.2.2.map (·.1)).Nodup
  nodup : (kids.map (·.1)).Nodup
  complete : ∀ x, x ≠ [] → kindAt t (s ++ x) ≠ none → s ++ x ∈ kids.map (·.1)
  order : ∀ l1 e l2, kids = l1 ++ e :: l2 → ∀ x y, e.1 = s ++ x ++ y → x ≠ [] → y ≠ [] →
    s ++ x ∈ l1.map (·.1)

theorem kidsOk_of_rep (r : Rec V) (t : Tree V) (s : Path) (hrep : Rep r t) (hs : s ≠ []) :
    KidsOk t s ((listing r).filter (fun e => isPre s e.1 && e.1 != s)) := by
  have hsub : (((listing r).filter (fun e => isPre s e.1 && e.1 != s)).map (·.1)).Sublist (candidates r) :=
    (List.Sublist.map _ List.filter_sublist).trans (listing_keys_sublist r)
  have hsorted : Srt pathLt (((listing r).filter (fun e => isPre s e.1 && e.1 != s)).map (·.1)) :=
    List.Pairwise.sublist hsub (candidates_sorted r)
  have hcomplete : ∀ x, x ≠ [] → kindAt t (s ++ x) ≠ none →
      s ++ x ∈ ((listing r).filter (fun e => isPre s e.1 && e.1 != s)).map (·.1) := by
    intro x hx hk
    rw [← (hrep _).1] at hk
    cases hv : viewKind r (s ++ x) with
    | none => exact absurd hv hk
    | some kd =>
      have hm := listing_mem_of_visible r (s ++ x) (by simp [hs]) kd hv
      rw [List.mem_map]
      refine ⟨_, List.mem_filter.2 ⟨hm, ?_⟩, rfl⟩
      simp [isPre_append, hx]
  refine ⟨?_, hsub.nodup (Listing.nodup_sort_dedup _ _), hcomplete, ?_⟩
  · intro e he
    obtain ⟨hl, hp⟩ := List.mem_filter.1 he
    obtain ⟨hv, ha⟩ := mem_listing r e hl
    simp only [Bool.and_eq_true, bne_iff_ne, ne_eq] at hp
    obtain ⟨x, hx⟩ := (isPre_iff _ _).1 hp.1
    refine ⟨x, ?_, hx, by rw [← (hrep _).1]; exact hv, ?_, ?_⟩
    · rintro rfl; simp at hx; exact hp.2 hx
    · intro k; rw [ha, Listing.aget_attrsList, (hrep _).2 k]
    · rw [ha]; exact Listing.attrsList_nodup r e.1
  · intro l1 e l2 hk x y he hx hy
    have hmem : e ∈ (listing r).filter (fun e => isPre s e.1 && e.1 != s) := by rw [hk]; simp
    obtain ⟨x0, _, _, hkd, _⟩ : ∃ x, x ≠ [] ∧ e.1 = s ++ x ∧ kindAt t e.1 = some e.2.1 ∧ True ∧ True := by
      obtain ⟨hl, _⟩ := List.mem_filter.1 hmem
      obtain ⟨hv, _⟩ := mem_listing r e hl
      exact ⟨x ++ y, by simp [hx], by rw [he]; simp, by rw [← (hrep _).1]; exact hv, trivial, trivial⟩
    -- the ancestor is visible, hence listed
    have hvis : kindAt t (s ++ x) ≠ none := by
      have := hrep.parent (s ++ x) y hy (by rw [← he, hkd]; simp)
      rw [this]; simp
    have hin := hcomplete x hx hvis
    rw [hk] at hin hsorted
    simp only [List.map_append, List.map_cons] at hin hsorted
    exact before_of_sorted pathLt _ _ e.1 (s ++ x) hsorted hin
      (by rw [he]; exact pathLt_append _ y hy) (pathLt_irrefl _)

end MetadorModel.Overlay
