import MetadorModel.Proofs.ContainerInit
/-!
# Preservation of the container invariant by operations on user nodes
(`create_group`, `__setitem__`, and the frame lemma used by `__delitem__`)
-/
namespace MetadorModel.Container

theorem isInternal_metaDir (base : Path) (m : String) (rest : Path) :
    isInternal (base ++ .metaDir m :: rest) = true := by
  simp [isInternal, Key.internal]

theorem isInternal_toc (rest : Path) : isInternal (.toc :: rest) = true := by
  simp [isInternal, Key.internal]

theorem isInternal_of_head_toc {q : Path} (h : q.head? = some .toc) : isInternal q = true := by
  cases q with
  | nil => simp at h
  | cons k q => simp at h; subst h; exact isInternal_toc q

theorem ObjAt.internal {t : Tree} {p : Path} {r : SRef} {u : Nat} (h : ObjAt t p r u) : isInternal p = true := by
  obtain ⟨base, m, -, rfl, -⟩ := h
  exact isInternal_metaDir base m _

theorem ObjAt.congr_internal {t t' : Tree} (hf : ∀ q, isInternal q = true → get? t' q = get? t q)
    (p : Path) (r : SRef) (u : Nat) : ObjAt t' p r u ↔ ObjAt t p r u := by
  constructor
  · rintro ⟨base, m, hb, rfl, hg⟩
    exact ⟨base, m, hb, rfl, by rw [← hf _ (isInternal_metaDir base m _)]; exact hg⟩
  · rintro ⟨base, m, hb, rfl, hg⟩
    exact ⟨base, m, hb, rfl, by rw [hf _ (isInternal_metaDir base m _)]; exact hg⟩

/-- A change of the raw tree that touches no reserved name (only user groups and datasets come
and go, and no dataset that owns a metadata directory disappears) keeps the invariant. -/
theorem inv_of_user_change {e : Env} {s : St} (hi : Inv e s) {t' : Tree}
    (hk : KeysOK t') (hc : PClosed t')
    (hint : ∀ q, isInternal q = true → get? t' q = get? s.raw q)
    (huser : ∀ q n, q ≠ [] → isInternal q = false → get? t' q = some n →
      (n = .grp ∨ ∃ tok, n = .ds (.data tok)))
    (hhost : ∀ base m v, isInternal base = false → get? s.raw (base ++ [.metaDir m]) ≠ none →
      get? s.raw (base ++ [.user m]) = some (.ds v) → ∃ v', get? t' (base ++ [.user m]) = some (.ds v')) :
    Inv e ⟨t', s.c, s.next⟩ := by
  have hobj : ∀ p r u, ObjAt t' p r u ↔ ObjAt s.raw p r u := ObjAt.congr_internal hint
  have hused : ∀ r, UsedIn t' r ↔ UsedIn s.raw r := fun r =>
    ⟨fun ⟨p, u, h⟩ => ⟨p, u, (hobj _ _ _).mp h⟩, fun ⟨p, u, h⟩ => ⟨p, u, (hobj _ _ _).mpr h⟩⟩
  refine ⟨hk, hc, ?_, (hi.toc.frame (fun q hq => hint q (isInternal_of_head_toc hq))).congr hobj hused,
    hi.scache.congr hused, ?_⟩
  · constructor
    · intro q n hq hqt hg
      cases hiq : isInternal q with
      | true => rw [hint q hiq] at hg; exact hi.mok.ushape q n hq hqt hg
      | false => exact .user q n hiq (huser q n hq hiq hg)
    · intro base m hb hg
      have e1 : isInternal (base ++ [Key.metaDir m]) = true := isInternal_metaDir base m []
      rw [hint _ e1] at hg
      obtain ⟨h1, r, u, h2⟩ := hi.mok.host base m hb hg
      refine ⟨?_, r, u, ?_⟩
      · rcases h1 with h | ⟨v, hv⟩
        · exact Or.inl h
        · exact Or.inr (hhost base m v hb hg hv)
      · rw [hint _ (isInternal_metaDir base m _)]; exact h2
    · intro p r u ho; exact hi.mok.objenv p r u ((hobj _ _ _).mp ho)
    · intro base m r u r' u' hb hg1 hg2 hn
      rw [hint _ (isInternal_metaDir base m _)] at hg1 hg2
      exact hi.mok.onename base m r u r' u' hb hg1 hg2 hn
    · intro p p' r r' u h1 h2
      exact hi.mok.uniq p p' r r' u ((hobj _ _ _).mp h1) ((hobj _ _ _).mp h2)
    · intro p r u ho; exact hi.mok.bound p r u ((hobj _ _ _).mp ho)
  · intro u tp
    rw [hi.lcache u tp]
    constructor
    · rintro ⟨p, r, h, rfl⟩; exact ⟨p, r, (hobj _ _ _).mpr h, rfl⟩
    · rintro ⟨p, r, h, rfl⟩; exact ⟨p, r, (hobj _ _ _).mp h, rfl⟩

theorem isInternal_prefix {q p : Path} (h : q <+: p) (hp : isInternal p = false) : isInternal q = false := by
  obtain ⟨b, rfl⟩ := h
  rw [isInternal_append] at hp
  simp only [Bool.or_eq_false_iff] at hp
  exact hp.1

/-- creating a user node (group or dataset) keeps the invariant -/
theorem createNode_inv {e : Env} {s : St} (hi : Inv e s) {p : Path} (hp : isInternal p = false) {n : Node}
    (hn : n = .grp ∨ ∃ tok, n = .ds (.data tok)) {t' : Tree} (h : rawCreate s.raw p n = .ok t') :
    Inv e ⟨t', s.c, s.next⟩ := by
  have hmid : ∀ q, isMid [] p q = true → isInternal q = false := fun q hm =>
    isInternal_prefix (isMid_nil_iff.mp hm).2.1 hp
  refine inv_of_user_change hi (rawCreate_keys h hi.keys) (rawCreate_pclosed h hi.pclosed) ?_ ?_ ?_
  · intro q hq
    have hq0 : q ≠ [] := by rintro rfl; simp [isInternal] at hq
    rw [rawCreate_get? h q hq0]
    have : q ≠ p := by rintro rfl; rw [hp] at hq; cases hq
    rw [if_neg this]
    cases hg : get? s.raw q with
    | some x => rfl
    | none =>
      cases hm : isMid [] p q with
      | false => simp
      | true => rw [hmid q hm] at hq; cases hq
  · intro q x hq0 hq hg
    rw [rawCreate_get? h q hq0] at hg
    by_cases h1 : q = p
    · rw [if_pos h1] at hg; cases hg; exact hn
    · rw [if_neg h1] at hg
      cases hx : get? s.raw q with
      | some y =>
        rw [hx] at hg; cases hg
        have := hi.mok.ushape q _ hq0 (isInternal_head_ne_toc hq) hx
        cases this with
        | user q n _ h' => exact h'
        | metaDir base m _ => rw [isInternal_metaDir base m []] at hq; cases hq
        | obj base m r u tok _ => rw [isInternal_metaDir base m _] at hq; cases hq
      | none =>
        rw [hx] at hg
        cases hm : isMid [] p q with
        | true => simp [hm] at hg; exact Or.inl hg.symm
        | false => simp [hm] at hg
  · intro base m v hb _ hv
    refine ⟨v, ?_⟩
    rw [rawCreate_get? h _ (by simp)]
    have hfree := (rawCreate_inv h).2.1
    have : base ++ [Key.user m] ≠ p := by rintro rfl; rw [hfree] at hv; cases hv
    rw [if_neg this, hv]

/-- `create_group(name)`: success or failure -/
theorem opCreateGroup_inv {e : Env} {s : St} (hi : Inv e s) (p : Path) : Inv e (opCreateGroup p s).2 := by
  unfold opCreateGroup guardPath
  cases hint : isInternal p with
  | true => simpa [hint] using hi
  | false =>
    simp only [Bool.false_eq_true, if_false, bind, M.bind, run_pure, run_liftRaw]
    cases h : rawCreate s.raw p .grp with
    | error err => simpa using hi
    | ok t' => exact createNode_inv hi hint (Or.inl rfl) h

/-- `group[name] = value`: success or failure -/
theorem opCreateDataset_inv {e : Env} {s : St} (hi : Inv e s) (p : Path) (tok : String) :
    Inv e (opCreateDataset p tok s).2 := by
  unfold opCreateDataset guardPath
  cases hint : isInternal p with
  | true => simpa [hint] using hi
  | false =>
    simp only [Bool.false_eq_true, if_false, bind, M.bind, run_pure, run_liftRaw]
    cases h : rawCreate s.raw p (.ds (.data tok)) with
    | error err => simpa using hi
    | ok t' => exact createNode_inv hi hint (Or.inr ⟨tok, rfl⟩) h

end MetadorModel.Container
