import MetadorModel.Proofs.OverlayWriteCopySpec
/-!
# C01 write side, part 13: the replay loop on the plain tree (invariant over the snapshot)
-/
namespace MetadorModel.Overlay
open MetadorModel.Tree
variable {V : Type}

/-- hypotheses about the plain tree under which the copy program is analysed -/
structure CopyCtx (t : Tree V) (s d : Path) : Prop where
  /-- parent closed with group parents (true of every tree a record shows) -/
  pc : ∀ x y, y ≠ [] → kindAt t (x ++ y) ≠ none → kindAt t x = some .group
  /-- nothing at or below the destination -/
  free : ∀ x, kindAt t (d ++ x) = none
  /-- no ancestor of the destination is a dataset -/
  anc : ∀ y ∈ properPrefixes d, ∀ v, kindAt t y ≠ some (.data v)
  dne : d ≠ []

/-- state of the replay after the descendants `done` of the source have been replayed -/
structure RInv (t : Tree V) (s d : Path) (done : List Path) (T : Tree V) : Prop where
  kind : ∀ x, kindAt T (d ++ x) = if x = [] ∨ s ++ x ∈ done then kindAt t (s ++ x) else none
  attr : ∀ x k, attrAt T (d ++ x) k = if x = [] ∨ s ++ x ∈ done then attrAt t (s ++ x) k else none
  other : ∀ q, isPre d q = false → kindAt T q = withAnc t d q ∧ ∀ k, attrAt T q k = attrAt t q k

theorem withAnc_ne_none_of_mem (t : Tree V) (d y : Path) (h : y ∈ properPrefixes d) : withAnc t d y ≠ none := by
  unfold withAnc
  cases kindAt t y <;> simp [h]

theorem isData_false_of (T : Tree V) (y : Path) (h : ∀ v, kindAt T y ≠ some (.data v)) :
    isData (aget y T) = false := by
  cases hd : isData (aget y T) with
  | false => rfl
  | true =>
    obtain ⟨v, hv⟩ := (isData_iff T y).1 hd
    exact absurd hv (h v)

/-- one iteration: create the node and copy its attributes -/
theorem replay_step (t : Tree V) (s d : Path) (ctx : CopyCtx t s d)
    (done : List Path) (T : Tree V) (hinv : RInv t s d done T)
    (x : Path) (kd : NKind V) (as : List (Key × V)) (hx : x ≠ []) (hnew : s ++ x ∉ done)
    (hkd : kindAt t (s ++ x) = some kd) (has : ∀ k, aget k as = attrAt t (s ++ x) k)
    (hnd : (as.map (·.1)).Nodup)
    (hanc : ∀ x' y, x = x' ++ y → x' ≠ [] → y ≠ [] → s ++ x' ∈ done) :
    ∃ T2, (specCreate T (d ++ x) kd >>= fun T1 => specCopyAttrs T1 (d ++ x) as) = .ok T2 ∧
      RInv t s d (done ++ [s ++ x]) T2 := by
  -- kinds of the proper prefixes of the target in the current tree
  have hpp : ∀ y ∈ properPrefixes (d ++ x), kindAt T y ≠ none ∧ ∀ v, kindAt T y ≠ some (.data v) := by
    intro y hy
    by_cases hb : isPre d y = true
    · obtain ⟨x', rfl⟩ := (isPre_iff _ _).1 hb
      have hx' : x' ∈ properPrefixes x := (mem_pp_append_append d x x').1 hy
      obtain ⟨y', hy', hxy⟩ := (mem_properPrefixes _ _).1 hx'
      have hg : kindAt t (s ++ x') = some .group := by
        apply ctx.pc (s ++ x') y' hy'
        rw [List.append_assoc, ← hxy, hkd]; simp
      have hin : x' = [] ∨ s ++ x' ∈ done := by
        by_cases h0 : x' = []
        · exact Or.inl h0
        · exact Or.inr (hanc x' y' hxy h0 hy')
      rw [hinv.kind x']
      simp only [hin, ↓reduceIte, hg]
      exact ⟨by simp, fun v => by simp⟩
    · have hb' : isPre d y = false := by simpa using hb
      have hyd : y ∈ properPrefixes d := mem_pp_of_mem_pp_append d x y hy hb'
      rw [(hinv.other y hb').1]
      refine ⟨withAnc_ne_none_of_mem t d y hyd, fun v => ?_⟩
      unfold withAnc
      cases hk : kindAt t y with
      | some kd' => simp only; rw [← hk]; exact ctx.anc y hyd v
      | none => simp [hyd]
  have hfresh : aget (d ++ x) T = none := by
    rw [← kindAt_none_iff, hinv.kind x]
    simp [hx, hnew]
  have hcf : Spec.checkFresh T (d ++ x) = .ok () := by
    unfold Spec.checkFresh
    have h1 : d ++ x ≠ [] := by simp [hx]
    have h3 : ancestorsOk T (d ++ x) = true := by
      unfold ancestorsOk
      rw [List.all_eq_true]
      intro y hy
      rw [isData_false_of T y (hpp y hy).2]; rfl
    simp [h1, hfresh, h3]
  -- the tree after creating the node
  have hT1 : ∀ nd : Node V, (∀ q, kindAt (aput (d ++ x) nd (ensure emptyGroup (d ++ x) T)) q =
      if q = d ++ x then some nd.kind else kindAt T q) ∧
      ∀ q k, attrAt (aput (d ++ x) nd (ensure emptyGroup (d ++ x) T)) q k =
        if q = d ++ x then aget k nd.attrs else attrAt T q k := by
    intro nd
    refine ⟨fun q => ?_, fun q k => by rw [attrAt_aput, attrAt_ensure]⟩
    rw [kindAt_aput, kindAt_ensure]
    by_cases hq : q = d ++ x
    · simp [hq]
    · simp only [hq, ↓reduceIte]
      cases hk : kindAt T q with
      | some kd' => rfl
      | none =>
        have : q ∉ properPrefixes (d ++ x) := fun hm => (hpp q hm).1 hk
        simp [this]
  obtain ⟨T1, hc, hk1, ha1⟩ : ∃ T1, specCreate T (d ++ x) kd = .ok T1 ∧
      (∀ q, kindAt T1 q = if q = d ++ x then some kd else kindAt T q) ∧
      ∀ q k, attrAt T1 q k = if q = d ++ x then none else attrAt T q k := by
    cases kd with
    | group =>
      refine ⟨_, by simp [specCreate, Spec.createGroup, hcf, bind, Except.bind, pure, Except.pure],
        (hT1 emptyGroup).1, fun q k => ?_⟩
      rw [(hT1 emptyGroup).2]; simp [emptyGroup, aget]
    | data v =>
      refine ⟨_, by simp [specCreate, Spec.createDataset, hcf, bind, Except.bind, pure, Except.pure],
        (hT1 ⟨.data v, []⟩).1, fun q k => ?_⟩
      rw [(hT1 ⟨.data v, []⟩).2]; simp [aget]
  obtain ⟨T2, hc2, hk2, ha2⟩ := specCopyAttrs_ok as T1 (d ++ x) (by rw [hk1]; simp) hnd
  refine ⟨T2, by rw [hc]; exact hc2, ?_, ?_, ?_⟩
  · intro x1
    rw [hk2, hk1]
    by_cases h1 : x1 = x
    · subst h1; simp [hkd]
    · have : d ++ x1 ≠ d ++ x := by simpa using h1
      simp only [this, ↓reduceIte, hinv.kind x1, List.mem_append, List.mem_singleton,
        List.append_cancel_left_eq, h1, or_false]
  · intro x1 k
    by_cases h1 : x1 = x
    · subst h1
      rw [ha2]
      simp only [↓reduceIte, List.mem_append, List.mem_singleton, or_true, has k]
      cases attrAt t (s ++ x1) k with
      | some v => rfl
      | none => simp only []; rw [ha1]; simp
    · have : d ++ x1 ≠ d ++ x := by simpa using h1
      rw [ha2]
      simp only [this, ↓reduceIte]
      rw [ha1]
      simp only [this, ↓reduceIte, hinv.attr x1 k, List.mem_append, List.mem_singleton,
        List.append_cancel_left_eq, h1, or_false]
  · intro q hq
    have : q ≠ d ++ x := by rintro rfl; rw [isPre_append] at hq; cases hq
    refine ⟨by rw [hk2, hk1]; simp only [this, ↓reduceIte]; exact (hinv.other q hq).1, fun k => ?_⟩
    rw [ha2]
    simp only [this, ↓reduceIte]
    rw [ha1]
    simp only [this, ↓reduceIte]
    exact (hinv.other q hq).2 k

/-- the whole loop -/
theorem replay_res (t : Tree V) (s d : Path) (ctx : CopyCtx t s d)
    (kids : List (Path × NKind V × List (Key × V))) (hk : KidsOk t s kids) :
    ∀ (todo l1 : List (Path × NKind V × List (Key × V))) (T : Tree V), kids = l1 ++ todo →
      RInv t s d (l1.map (·.1)) T →
      ∃ T', specReplay s d T todo = .ok T' ∧ RInv t s d (kids.map (·.1)) T' := by
  intro todo
  induction todo with
  | nil =>
    intro l1 T hl hinv
    simp only [List.append_nil] at hl
    subst hl
    exact ⟨T, rfl, hinv⟩
  | cons e more ih =>
    intro l1 T hl hinv
    obtain ⟨q, kd, as⟩ := e
    have hmem : (q, kd, as) ∈ kids := by rw [hl]; simp
    obtain ⟨x, hx, hq, hkd, has, hnd⟩ := hk.mem _ hmem
    simp only at hq hkd has hnd
    subst hq
    have hnew : s ++ x ∉ l1.map (·.1) := by
      have := hk.nodup
      rw [hl, List.map_append, List.map_cons] at this
      have h2 := (List.nodup_append.1 this).2.2
      intro hin
      exact h2 _ hin _ (by simp) rfl
    obtain ⟨T2, h2, hinv2⟩ := replay_step t s d ctx (l1.map (·.1)) T hinv x kd as hx hnew hkd has hnd
      (fun x' y hxy hx' hy => hk.order l1 _ more hl x' y (by simp [hxy]) hx' hy)
    obtain ⟨T', h3, hinv3⟩ := ih (l1 ++ [(s ++ x, kd, as)]) T2 (by rw [hl]; simp) (by simpa using hinv2)
    refine ⟨T', ?_, hinv3⟩
    simp only [specReplay, List.drop_left]
    simp only [bind, Except.bind] at h2 ⊢
    cases hc : specCreate T (d ++ x) kd with
    | error e => rw [hc] at h2; cases h2
    | ok T1 =>
      rw [hc] at h2
      simp only at h2 ⊢
      rw [h2]
      exact h3

end MetadorModel.Overlay
