import MetadorModel.Gen.PluginGroupFns
import MetadorModel.Bridge.PluginGroupFnsCmp
/-!
Bridge, part 3 (C16): the query methods of `PluginGroup` as translated on every run
(`Gen/PluginGroupFns.lean`: `versions`, `resolve`, `__contains__`, `keys`, `_get_unsafe`, `get`,
`__getitem__`) are the model's `versions`, `resolve`, `contains`, `Table.keys`, `getPlugin`, `getItem`
(`Model/Plugin.lean`), which the C16 theorems are about. `IndexError` from `refs[-1]` is unreachable,
`get` never raises, `[]` raises `KeyError` exactly where the model says so.
-/
namespace MetadorModel.Bridge.PluginGroupFns
open MetadorModel MetadorModel.Plugin MetadorModel.PluginPy

-- (`pyDictGet_getD` is for the spelling `d.get(k, [])`, `pyOrList_get` for `d.get(k) or []`)
set_option linter.unusedSimpArgs false in
theorem gen_versions (grp : String) (b : Bool) (t : Table) (n : String) (v : Option Ver) :
    Gen.PluginGroupFns.versions grp b t n v = Plugin.versions grp t n v := by
  cases v <;> simp [Gen.PluginGroupFns.versions, Plugin.versions, pyOrList_get, pyDictGet_getD, truthy_gen_supports]

theorem gen_resolve (grp : String) (b : Bool) (t : Table) (n : String) (v : Option Ver) :
    Gen.PluginGroupFns.resolve grp b t n v = .ok (Plugin.resolve grp t n v) := by
  simp only [Gen.PluginGroupFns.resolve, Plugin.resolve, gen_versions, pyLast]
  cases h : (Plugin.versions grp t n v).getLast? with
  | none =>
    have : Plugin.versions grp t n v = [] := List.getLast?_eq_none_iff.mp h
    simp [this]
  | some r =>
    have : Plugin.versions grp t n v ≠ [] := by
      intro h0; rw [h0] at h; simp at h
    simp [this]

theorem gen_contains (grp : String) (b : Bool) (t : Table) (key : PyKey) :
    Gen.PluginGroupFns.contains grp b t key = Plugin.contains grp t key.name key.version := by
  simp only [Gen.PluginGroupFns.contains, Plugin.contains, ← pyDictGet_getD]
  cases h : pyDictGet t key.name with
  | none => simp
  | some l =>
    cases l with
    | nil => simp
    | cons r l =>
      cases hv : key.version with
      | none => simp
      | some v =>
        simp only [pyIn, truthy_gen_eq]
        simp [eq_comm' _ ⟨grp, key.name, v⟩]

theorem gen_keys (grp : String) (b : Bool) (t : Table) : Gen.PluginGroupFns.keys grp b t = t.keys := by
  simp only [Gen.PluginGroupFns.keys, pyDictValues]
  induction t with
  | nil => rfl
  | cons e t ih => obtain ⟨k, l⟩ := e; simp [Table.keys, ← ih]

theorem gen_get_unsafe (grp : String) (b : Bool) (t : Table) (n : String) (v : Option Ver) :
    Gen.PluginGroupFns.get_unsafe grp b t n v =
      match Plugin.resolve grp t n v with
      | some r => .ok r
      | none => .error .keyError := by
  simp only [Gen.PluginGroupFns.get_unsafe, gen_resolve]
  cases Plugin.resolve grp t n v <;> rfl

theorem gen_get (grp : String) (b : Bool) (t : Table) (key : PyKey) (v : Option Ver) :
    Gen.PluginGroupFns.get grp b t key v =
      .ok (getPlugin grp t (pyPluginArgs key v).1 (pyPluginArgs key v).2) := by
  simp only [Gen.PluginGroupFns.get, gen_get_unsafe, getPlugin]
  cases Plugin.resolve grp t (pyPluginArgs key v).1 (pyPluginArgs key v).2 <;> simp
  cases (pyPluginArgs key v).2 <;> simp

theorem gen_getitem (grp : String) (b : Bool) (t : Table) (key : PyKey) :
    Gen.PluginGroupFns.getitem grp b t key =
      match getItem grp t key.name key.version with
      | some r => .ok r
      | none => .error .keyError := by
  simp only [Gen.PluginGroupFns.getitem, gen_contains, gen_get, getItem, pyPluginArgs]
  cases Plugin.contains grp t key.name key.version <;> simp

end MetadorModel.Bridge.PluginGroupFns
