import MetadorModel.Gen.FindFilesFns
import MetadorModel.Bridge.FindFilesFnsDict
/-!
Bridge (file-name functions): the class constants, `_infer_name` and `_next_patch_filepath` of
`Gen/FindFilesFns.lean` (regenerated from /repo on every run by `harness/translate_c03.py`) equal the
model's `ext`/`infix_`, `inferName`, and the name `createPatch` gives the next container.
-/
namespace MetadorModel.Bridge.FindFilesFns
open MetadorModel MetadorModel.FindFiles MetadorModel.Record MetadorModel.RecordPy

theorem gen_constants :
    Gen.FindFilesFns.FILE_EXT = ext ∧ Gen.FindFilesFns.PATCH_INFIX = infix_ ∧
    Gen.FindFilesFns.OPEN_MODES = [modeStr .r, modeStr .rp, modeStr .a, modeStr .w, modeStr .wm, modeStr .x] := by
  decide

/-- `_infer_name` -/
theorem gen_infer_name (f : Name) : Gen.FindFilesFns.infer_name f = inferName f := by
  simp [Gen.FindFilesFns.infer_name, inferName, pyHead_pySplit, gen_constants.1, gen_constants.2.1]

/-- `_next_patch_filepath`: name inferred from the oldest container, index of the newest + 1;
`IndexError` on a record without files -/
theorem gen_next_patch_filepath (files : List (Name × UB)) :
    Gen.FindFilesFns.next_patch_filepath files =
      (match files, lastFile files with
       | (f0, _) :: _, some (_, ul) => .ok (patchFile (inferName f0) (ul.idx + 1))
       | _, _ => .error .indexError) := by
  unfold Gen.FindFilesFns.next_patch_filepath
  rw [pyIdx_zero, pyIdx_last]
  cases files with
  | nil => rfl
  | cons a r =>
    cases h : lastFile (a :: r) with
    | none => simp
    | some x =>
      simp [patchFile, gen_infer_name, pyStrNat_eq, gen_constants.1, gen_constants.2.1]

/-- `create_patch` of the model takes its file name from (the translation of)
`_next_patch_filepath` -/
theorem gen_createPatch_path (s : State) (hc : s.h.closed = false) (ha : s.h.allow = true)
    (hw : hasWritable s.h = false) :
    createPatch s =
      (match Gen.FindFilesFns.next_patch_filepath s.h.files, lastFile s.h.files with
       | .ok path, some (_, ul) =>
         (match newContainer s.disk (fileNames s.h) path (newPatchUB ul s.next) with
          | .error e => fail { s with next := s.next + 1 } e
          | .ok d =>
            { st := { disk := d, next := s.next + 1,
                      h := { s.h with files := s.h.files ++ [(path, newPatchUB ul s.next)], lastRW := true } },
              out := .ok, created := [path] })
       | _, _ => fail s .indexError) := by
  rw [gen_next_patch_filepath]
  unfold createPatch
  simp only [hc, ha, hw, Bool.false_eq_true, if_false, Bool.not_true]
  cases hf : s.h.files with
  | nil => simp
  | cons a r =>
    cases hl : lastFile (a :: r) with
    | none => simp
    | some x => simp; rfl


end MetadorModel.Bridge.FindFilesFns
