import MetadorModel.Gen.SubtypeFns
import MetadorModel.Props.C13
import Mathlib.Tactic.Tauto
import Mathlib.Tactic.SplitIfs
/-!
Bridge between the Lean text generated from the override-check code of /repo (`Gen/SubtypeFns.lean`, regenerated on
every `./check C13` run by `harness/translate_c13.py` from util/typing.py, util/__init__.py, schema/partial.py,
schema/core.py and schema/decorators.py) and the hand-written model `Model/Subtype.lean` the C13 theorems are about.
A change of one of the translated functions changes the generated definitions and these equalities have to be
re-proved. The value dictionary is `Py/SubtypePy.lean`.

  this file            `_has_literal`, `is_subtype` = `hasLit`, `isSubtype`; `_check_type_mergeable` = `mergeable`;
                       `traverse_unfold` (the dictionary entry `traverseTypehint` is `make_tree_traversal(get_args)`);
                       general facts about the dictionary operations          gen_has_literal, gen_is_subtype, gen_check_type_mergeable
  `SubtypeFnsChecks`   `check_allowed_types`, `detect_field_overrides`, `check_overrides`
                       = `checkAllowed`, `detectOverrides`, `checkOverrides` (any iteration order of the set)
                                                                              gen_check_allowed_types, gen_check_overrides
  `SubtypeFnsDeco`     tail of `SchemaMagic.__new__`, `make_mandatory`, `add_const_fields`, `override`
                       = the three groups of refusals of `defineOk` (`defineOk_eq`)
                                                                              gen_new_policy, gen_make_mandatory, gen_add_const_fields, gen_defineOk
  `SubtypeFnsWalk`     `check_types` = `checkTypesF` / `loadPlugin`           gen_check_types_inner, gen_check_types_loadPlugin
-/
namespace MetadorModel.Bridge.SubtypeFns
open MetadorModel MetadorModel.Codec MetadorModel.Subtype MetadorModel.SubtypePy

@[simp] theorem origin_beq (a b : Origin) : (a == b) = decide (a = b) := rfl
@[simp] theorem extra_beq (a b : Extra) : (a == b) = decide (a = b) := rfl
@[simp] theorem shape_beq (a b : Shape) : (a == b) = decide (a = b) := rfl

/-! ## the dictionary entry `traverseTypehint` is `make_tree_traversal(get_args)` -/

theorem travTys_eq (ts : List Ty) : travTys ts = (ts.map Hint.ty).flatMap traverseTypehint := by
  induction ts with
  | nil => rfl
  | cons t ts ih => simp [travTys, ih, traverseTypehint]

theorem traverse_unfold (h : Hint) : traverseTypehint h = h :: (getArgs h).flatMap traverseTypehint := by
  cases h with
  | ty t =>
    cases t with
    | opt t =>
      cases t <;> simp [traverseTypehint, travTy, getArgs, tyArgs, isUnionTy, travTys_eq]
    | union ts => simp [traverseTypehint, travTy, getArgs, travTys_eq]
    | lit vs =>
      have : ∀ vs : List Lit, (vs.map Hint.val).flatMap traverseTypehint = vs.map Hint.val := by
        intro vs
        induction vs with
        | nil => rfl
        | cons v vs ih => simp only [List.map_cons, List.flatMap_cons, ih]; rfl
      simp only [traverseTypehint, travTy, getArgs, this]
    | _ => simp [traverseTypehint, travTy, getArgs]
  | _ => simp [traverseTypehint, getArgs]

/-! ## util/typing.py -/

@[simp] theorem gen_is_list (h : Hint) : Gen.SubtypeFns.is_list h = (getOrigin h == .List) := rfl
@[simp] theorem gen_is_set (h : Hint) : Gen.SubtypeFns.is_set h = (getOrigin h == .Set) := rfl
@[simp] theorem gen_is_union (h : Hint) : Gen.SubtypeFns.is_union h = (getOrigin h == .Union) := rfl
@[simp] theorem gen_is_classvar (h : Hint) : Gen.SubtypeFns.is_classvar h = false := by
  cases h <;> try rfl
  rename_i t; cases t <;> rfl
@[simp] theorem gen_is_annotated (t : Ty) : Gen.SubtypeFns.is_annotated (.ty t) = isAnn t := by
  cases t <;> rfl
@[simp] theorem gen_is_literal (t : Ty) : Gen.SubtypeFns.is_literal (.ty t) = isLit t := by
  cases t <;> rfl
@[simp] theorem gen_is_nonetype (h : Hint) : Gen.SubtypeFns.is_nonetype h = h.isNoneType := rfl

def isLitH (h : Hint) : Bool := getOrigin h == .Literal

theorem gen_is_literal' (h : Hint) : Gen.SubtypeFns.is_literal h = isLitH h := rfl

mutual
theorem trav_any_lit : ∀ t : Ty, (travTy t).any isLitH = hasLit t
  | .opt t => by
    have ih := trav_any_lit t
    cases t <;> simp_all +decide [travTy, isUnionTy, hasLit, isLitH, getOrigin]
  | .union ts => by simp +decide [travTy, hasLit, isLitH, getOrigin, travs_any_lit ts]
  | .list t => by simp +decide [travTy, hasLit, isLitH, getOrigin, trav_any_lit t]
  | .set t => by simp +decide [travTy, hasLit, isLitH, getOrigin, trav_any_lit t]
  | .ann t => by simp +decide [travTy, hasLit, isLitH, getOrigin, trav_any_lit t]
  | .lit vs => by simp +decide [travTy, hasLit, isLitH, getOrigin]
  | .bool => rfl
  | .int => rfl
  | .float => rfl
  | .str => rfl
  | .cstr _ => rfl
  | .opq _ => rfl
  | .model _ _ _ _ => rfl
theorem travs_any_lit : ∀ ts : List Ty, (travTys ts).any isLitH = hasLitAny ts
  | [] => rfl
  | t :: ts => by simp [travTys, hasLitAny, trav_any_lit t, travs_any_lit ts]
end

/-- `_has_literal` is the model's `hasLit` -/
theorem gen_has_literal (t : Ty) : Gen.SubtypeFns._has_literal (.ty t) = hasLit t := by
  simp only [Gen.SubtypeFns._has_literal, traverseTypehint, List.any_map]
  exact trav_any_lit t


def annDepth : Ty → Nat
  | .ann t => annDepth t + 1
  | _ => 0

theorem isSubtype_ann (T : Table) (a b : Ty) : isSubtype T (.ann a) (.ann b) = isSubtype T a b := by
  rw [isSubtype]

theorem isSubtype_plain (T : Table) (a b : Ty) (h : isAnn a = false ∨ isAnn b = false) :
    isSubtype T a b = (if isAnn a != isAnn b || isLit a != isLit b then false
      else if !isLit a && hasLit a && !hasLit b then false else le T (canon a) (canon b)) := by
  unfold isSubtype
  split
  · simp [isAnn] at h
  · rfl

@[simp] theorem listIdx_zero {α : Type} (x : α) (xs : List α) : listIdx (x :: xs) 0 = pure x := rfl

/-- `is_subtype` is the model's `isSubtype` (with enough interpreter stack for the `Annotated` nesting) -/
theorem gen_is_subtype (T : Table) : ∀ (fuel : Nat) (a b : Ty), annDepth a < fuel →
    Gen.SubtypeFns.is_subtype T fuel (.ty a) (.ty b) = pure (isSubtype T a b) := by
  intro fuel
  induction fuel with
  | zero => intro a b h; omega
  | succ fuel ih =>
    intro a b h
    simp only [Gen.SubtypeFns.is_subtype, gen_is_annotated, gen_is_literal, gen_has_literal]
    by_cases ha : isAnn a = true
    · by_cases hb : isAnn b = true
      · obtain ⟨a', rfl⟩ : ∃ a', a = .ann a' := by cases a <;> simp_all [isAnn]
        obtain ⟨b', rfl⟩ : ∃ b', b = .ann b' := by cases b <;> simp_all [isAnn]
        have := ih a' b' (by simp [annDepth] at h; omega)
        simp [isAnn, isLit, getArgs, this, isSubtype_ann]
      · rw [isSubtype_plain T a b (Or.inr (by simpa using hb))]
        simp_all
    · rw [isSubtype_plain T a b (Or.inl (by simpa using ha))]
      have ha' : isAnn a = false := by simpa using ha
      by_cases hb : isAnn b = true
      · simp_all
      · have hb' : isAnn b = false := by simpa using hb
        cases h1 : isLit a <;> cases h2 : isLit b <;> cases h3 : hasLit a <;> cases h4 : hasLit b <;>
          simp [rvIsSubtype, ha', hb']


/-! ## schema/partial.py -/

mutual
def tyDepth : Ty → Nat
  | .opt t => tyDepth t + 1
  | .union ts => tysDepth ts + 1
  | .list t => tyDepth t + 1
  | .set t => tyDepth t + 1
  | .ann t => tyDepth t + 1
  | _ => 0
def tysDepth : List Ty → Nat
  | [] => 0
  | t :: ts => max (tyDepth t) (tysDepth ts)
end

@[simp] theorem gen_is_list_or_set (t : Ty) : Gen.SubtypeFns._is_list_or_set (.ty t) = isListOrSet t := by
  cases t <;> rfl

theorem allM_append {α : Type} (f : α → E Bool) (xs ys : List α) :
    allM f (xs ++ ys) = (allM f xs >>= fun b => if b then allM f ys else pure false) := by
  induction xs with
  | nil => simp [allM]
  | cons x xs ih =>
    simp only [List.cons_append, allM, ih, bind_assoc]
    congr 1; funext b; cases b <;> simp

theorem allM_pure_map (g : Hint → E Bool) (p : Ty → Bool) (ts : List Ty)
    (h : ∀ t ∈ ts, g (.ty t) = pure (p t)) : allM g (ts.map .ty) = pure (ts.all p) := by
  induction ts with
  | nil => rfl
  | cons t ts ih =>
    have h1 := h t (by simp)
    have h2 := ih (fun t' ht' => h t' (by simp [ht']))
    simp only [List.map_cons, allM, h1, pure_bind, h2, List.all_cons]
    cases p t <;> simp

theorem mergeableAll_eq (ts : List Ty) : mergeableAll ts = ts.all (mergeable false) := by
  induction ts with
  | nil => rfl
  | cons t ts ih => simp [mergeableAll, ih]

theorem tysDepth_mem (ts : List Ty) (t : Ty) (h : t ∈ ts) : tyDepth t ≤ tysDepth ts := by
  induction ts with
  | nil => simp at h
  | cons x xs ih =>
    simp only [List.mem_cons] at h
    rcases h with rfl | h
    · simp only [tysDepth]; omega
    · have := ih h; simp only [tysDepth]; omega

theorem any_isListOrSet_map (ts : List Ty) :
    (List.map (fun a => Gen.SubtypeFns._is_list_or_set a) (ts.map Hint.ty)).any id = ts.any isListOrSet := by
  simp [List.any_map, Function.comp_def]

theorem mergeable_opt_false (t : Ty) : mergeable false (.opt t) = false := by
  cases t <;> simp [mergeable]
theorem mergeable_opt_true (t : Ty) : mergeable true (.opt t) =
    (if !(!((tyArgs (.opt t)).any isListOrSet) || unionArity (.opt t) == 2) then false
      else mergeableAll (tyArgs (.opt t))) := by
  cases t <;> simp [mergeable, tyArgs, mergeableAll, mergeable_opt_false]

/-- `_check_type_mergeable` is the model's `mergeable` (with enough interpreter stack for the nesting of the hint) -/
theorem gen_check_type_mergeable : ∀ (fuel : Nat) (t : Ty) (an : Bool), tyDepth t < fuel →
    Gen.SubtypeFns._check_type_mergeable fuel (.ty t) an = pure (mergeable an t) := by
  intro fuel
  induction fuel with
  | zero => intro t an h; omega
  | succ fuel ih =>
    intro t an h
    have hall : ∀ ts : List Ty, tysDepth ts < fuel →
        allM (fun a => Gen.SubtypeFns._check_type_mergeable fuel a false) (ts.map .ty) = pure (mergeableAll ts) := by
      intro ts hts
      rw [mergeableAll_eq]
      exact allM_pure_map _ _ ts (fun t' ht' => ih t' false (by have := tysDepth_mem ts t' ht'; omega))
    have hnone : 0 < fuel → Gen.SubtypeFns._check_type_mergeable fuel .noneType false = pure true := by
      intro hf
      obtain ⟨f, rfl⟩ : ∃ f, fuel = f + 1 := ⟨fuel - 1, by omega⟩
      simp [Gen.SubtypeFns._check_type_mergeable, Gen.SubtypeFns._is_list_or_set, Gen.SubtypeFns.is_list,
        Gen.SubtypeFns.is_set, Gen.SubtypeFns.is_union, getOrigin]
    cases t with
    | list t =>
      have := hall [t] (by simp [tysDepth, tyDepth] at h ⊢; omega)
      simp [Gen.SubtypeFns._check_type_mergeable, isListOrSet, getArgs, mergeable] at this ⊢
      simpa [mergeableAll] using this
    | set t =>
      have := hall [t] (by simp [tysDepth, tyDepth] at h ⊢; omega)
      simp [Gen.SubtypeFns._check_type_mergeable, isListOrSet, getArgs, mergeable] at this ⊢
      simpa [mergeableAll] using this
    | union ts =>
      have := hall ts (by simp [tyDepth] at h; omega)
      simp only [Gen.SubtypeFns._check_type_mergeable, gen_is_list_or_set, isListOrSet, gen_is_union, getOrigin,
        Gen.SubtypeFns.is_optional, getArgs, any_isListOrSet_map, mergeable, this]
      cases an <;> cases ts.any isListOrSet <;> simp [List.any_map, Function.comp_def, Hint.isNoneType]
    | opt t =>
      have hf : 0 < fuel := by simp [tyDepth] at h; omega
      simp only [Gen.SubtypeFns._check_type_mergeable, gen_is_list_or_set, isListOrSet, gen_is_union, getOrigin,
        Gen.SubtypeFns.is_optional, getArgs]
      cases an
      · simp [Hint.isNoneType, mergeable_opt_false]
      · have hargs : tysDepth (tyArgs (.opt t)) < fuel := by
          cases t <;> simp_all [tyArgs, tysDepth, tyDepth] <;> omega
        have h1 := hall (tyArgs (.opt t)) hargs
        have hlen : ((tyArgs (.opt t)).map Hint.ty ++ [Hint.noneType]).length = unionArity (.opt t) := by
          cases t <;> simp [tyArgs, unionArity]
        have hany : (List.map (fun a => Gen.SubtypeFns._is_list_or_set a) ((tyArgs (.opt t)).map Hint.ty ++ [Hint.noneType])).any id
            = (tyArgs (.opt t)).any isListOrSet := by
          have hn : Gen.SubtypeFns._is_list_or_set Hint.noneType = false := rfl
          simp only [List.map_append, List.any_append, List.map_map, List.any_map, Function.comp_def,
            gen_is_list_or_set, List.map_cons, List.map_nil, List.any_cons, List.any_nil, hn, id, Bool.or_false]
        simp only [hlen, hany, allM_append, h1, pure_bind, allM, hnone hf]
        rw [mergeable_opt_true]
        generalize (tyArgs (.opt t)).any isListOrSet = p
        generalize (unionArity (.opt t) == 2) = q
        generalize mergeableAll (tyArgs (.opt t)) = m
        cases p <;> cases q <;> cases m <;> simp [Hint.isNoneType]
    | _ =>
      simp [Gen.SubtypeFns._check_type_mergeable, Gen.SubtypeFns._is_list_or_set, Gen.SubtypeFns.is_list,
        Gen.SubtypeFns.is_set, Gen.SubtypeFns.is_union, getOrigin, mergeable]


/-! ## general facts about the dictionary operations -/

/-- a public name: not empty, does not start with an underscore -/
def PubName (n : Str) : Prop := ∃ c r, n = c :: r ∧ c ≠ '_'

theorem gen_is_public_name (n : Str) (h : PubName n) : Gen.SubtypeFns.is_public_name n = pure true := by
  obtain ⟨c, r, rfl, hc⟩ := h
  have : (c == '_') = false := by simpa using hc
  simp [Gen.SubtypeFns.is_public_name, strIdx, this]

theorem foldlM_check {α : Type} (f : α → E Unit) (g : α → Bool) (e : PyErr) :
    ∀ (l : List α), (∀ a ∈ l, f a = if g a then pure () else throw e) →
      List.foldlM (fun (_ : Unit) a => f a) () l = if l.all g then pure () else throw e := by
  intro l
  induction l with
  | nil => intro _; rfl
  | cons a l ih =>
    intro h
    have ha := h a (by simp)
    have hl := ih (fun b hb => h b (by simp [hb]))
    rw [List.foldlM_cons, ha]
    cases hg : g a
    · simp only [Bool.false_eq_true, if_false, List.all_cons, hg, Bool.false_and]; rfl
    · simp only [if_true, List.all_cons, hg, Bool.true_and, pure_bind, hl]

theorem filterM_pure {α : Type} (f : α → E Bool) (g : α → Bool) :
    ∀ (l : List α), (∀ a ∈ l, f a = pure (g a)) → filterM f l = pure (l.filter g) := by
  intro l
  induction l with
  | nil => intro _; rfl
  | cons a l ih =>
    intro h
    have ha := h a (by simp)
    have hl := ih (fun b hb => h b (by simp [hb]))
    simp only [filterM, ha, hl, pure_bind, List.filter_cons]

def isOkB : Except Refusal Unit → Bool
  | .ok _ => true
  | .error _ => false

theorem firstErr_all (l : List (Except Refusal Unit)) (e : Refusal)
    (h : ∀ r ∈ l, r = .ok () ∨ r = .error e) :
    firstErr l = if l.all isOkB then .ok () else .error e := by
  induction l with
  | nil => rfl
  | cons r l ih =>
    have hr := h r (by simp)
    have hl := ih (fun b hb => h b (by simp [hb]))
    rcases hr with rfl | rfl
    · simp [firstErr, hl, isOkB]
    · simp [firstErr, isOkB]

theorem mem_dictKeys {α : Type} (x : Str) (d : List (Str × α)) : x ∈ dictKeys d ↔ ∃ v, (x, v) ∈ d := by
  simp [dictKeys]

theorem dictGet?_isSome {α : Type} (x : Str) (d : List (Str × α)) : (dictGet? x d).isSome = true ↔ x ∈ dictKeys d := by
  induction d with
  | nil => simp [dictGet?, dictKeys]
  | cons p d ih =>
    obtain ⟨k, v⟩ := p
    simp only [dictGet?, dictKeys, List.map_cons, List.mem_cons]
    by_cases hk : x = k
    · simp [hk]
    · have : (x == k) = false := by simpa using hk
      simp only [this, Bool.false_eq_true, if_false, hk, false_or]
      simpa [dictKeys] using ih

theorem getHint_eq_dictGet? (x : Str) (l : List (Str × Ty)) : getHint x l = dictGet? x l := by
  induction l with
  | nil => rfl
  | cons p l ih => obtain ⟨k, v⟩ := p; simp [getHint, dictGet?, ih]

theorem dictGet?_hintsOf (x : Str) (l : List (Str × Ty)) : dictGet? x (hintsOf l) = (getHint x l).map Hint.ty := by
  induction l with
  | nil => rfl
  | cons p l ih =>
    obtain ⟨k, v⟩ := p
    simp only [hintsOf, List.map_cons, dictGet?, getHint]
    split
    · rfl
    · simpa [hintsOf] using ih

theorem dictGet?_append {α : Type} (x : Str) (a b : List (Str × α)) :
    dictGet? x (a ++ b) = (dictGet? x a).orElse (fun _ => dictGet? x b) := by
  induction a with
  | nil => simp [dictGet?]
  | cons p a ih =>
    obtain ⟨k, v⟩ := p
    simp only [List.cons_append, dictGet?]
    split
    · rfl
    · exact ih

theorem hasKey_iff (x : Str) (l : List (Str × Json)) : hasKey x l = true ↔ x ∈ dictKeys l := by
  simp only [hasKey, dictKeys, List.any_eq_true, beq_iff_eq, List.mem_map]


theorem dictHas_eq_hasKey (x : Str) (l : List (Str × Json)) : dictHas l x = hasKey x l := by
  rw [Bool.eq_iff_iff, hasKey_iff, dictHas, dictGet?_isSome]

theorem dictKeys_hintsOf (l : List (Str × Ty)) : dictKeys (hintsOf l) = l.map (·.1) := by
  simp [dictKeys, hintsOf]

theorem dictKeys_anyOf (l : List (Str × Json)) : dictKeys (anyOf l) = dictKeys l := by
  simp [dictKeys, anyOf]

theorem mem_keys_getHint (x : Str) (l : List (Str × Ty)) : x ∈ l.map (·.1) ↔ (getHint x l).isSome = true := by
  rw [getHint_eq_dictGet?, dictGet?_isSome]; rfl

theorem mem_dictKeys_dictSet {α : Type} (x k : Str) (v : α) (d : List (Str × α)) :
    x ∈ dictKeys (dictSet k v d) ↔ x = k ∨ x ∈ dictKeys d := by
  induction d with
  | nil => simp [dictSet, dictKeys]
  | cons p d ih =>
    obtain ⟨k', v'⟩ := p
    simp only [dictSet]
    by_cases hk : k = k'
    · subst hk; simp [dictKeys]
    · have : (k == k') = false := by simpa using hk
      simp only [this, Bool.false_eq_true, if_false]
      simp only [dictKeys, List.map_cons, List.mem_cons] at ih ⊢
      rw [ih]; tauto

theorem mem_dictKeys_dictUpdate {α : Type} (x : Str) (e d : List (Str × α)) :
    x ∈ dictKeys (dictUpdate d e) ↔ x ∈ dictKeys d ∨ x ∈ dictKeys e := by
  unfold dictUpdate
  induction e generalizing d with
  | nil => simp [dictKeys]
  | cons p e ih =>
    rw [List.foldl_cons, ih, mem_dictKeys_dictSet]
    have : x ∈ dictKeys (p :: e) ↔ x = p.1 ∨ x ∈ dictKeys e := by simp [dictKeys]
    rw [this]; tauto

theorem hasKey_setKey (x k : Str) (v : Json) (d : List (Str × Json)) :
    hasKey x (setKey k v d) = true ↔ x = k ∨ hasKey x d = true := by
  induction d with
  | nil => simp [setKey, hasKey]; exact eq_comm
  | cons p d ih =>
    obtain ⟨k', v'⟩ := p
    simp only [setKey]
    by_cases hk : k = k'
    · subst hk; simp [hasKey]; tauto
    · have : (k == k') = false := by simpa using hk
      simp only [this, Bool.false_eq_true, if_false]
      simp only [hasKey, List.any_cons, Bool.or_eq_true, beq_iff_eq] at ih ⊢
      rw [ih]; tauto

theorem hasKey_foldl_setKey (x : Str) (l b : List (Str × Json)) :
    hasKey x (l.foldl (fun acc (p : Str × Json) => setKey p.1 p.2 acc) b) = true ↔ hasKey x b = true ∨ hasKey x l = true := by
  induction l generalizing b with
  | nil => simp [hasKey]
  | cons p l ih =>
    simp only [List.foldl_cons, ih, hasKey_setKey]
    simp only [hasKey, List.any_cons, Bool.or_eq_true, beq_iff_eq]
    tauto

theorem getHint_setHint (x k : Str) (v : Ty) (d : List (Str × Ty)) :
    getHint x (setHint k v d) = if x = k then some v else getHint x d := by
  induction d with
  | nil => by_cases h : x = k <;> simp [setHint, getHint, h]
  | cons p d ih =>
    obtain ⟨k', v'⟩ := p
    simp only [setHint]
    by_cases hk : k = k'
    · subst hk
      by_cases h : x = k <;> simp [getHint, h]
    · have : (k == k') = false := by simpa using hk
      simp only [this, Bool.false_eq_true, if_false, getHint, ih]
      by_cases h : x = k
      · subst h; simp [hk]
      · simp [h]

theorem getHint_filter_key (x : Str) (p : Str → Bool) (d : List (Str × Ty)) :
    getHint x (d.filter (fun q => p q.1)) = if p x then getHint x d else none := by
  induction d with
  | nil => simp [getHint]
  | cons q d ih =>
    obtain ⟨k, v⟩ := q
    simp only [List.filter_cons]
    by_cases hk : x = k
    · subst hk
      cases hp : p x <;> simp [getHint, hp, ih]
    · have : (x == k) = false := by simpa using hk
      cases hp : p k <;> simp [getHint, this, ih]

theorem getHint_foldl_setHint_isSome (x : Str) (l b : List (Str × Ty)) :
    (getHint x (l.foldl (fun acc (p : Str × Ty) => setHint p.1 p.2 acc) b)).isSome = true ↔
      (getHint x b).isSome = true ∨ x ∈ l.map (·.1) := by
  induction l generalizing b with
  | nil => simp
  | cons p l ih =>
    simp only [List.foldl_cons, ih, getHint_setHint, List.map_cons, List.mem_cons]
    by_cases h : x = p.1 <;> simp [h]


theorem foldlM_check' {α : Type} (F : Unit → α → E Unit) (g : α → Bool) (e : PyErr) (l : List α)
    (h : ∀ a ∈ l, F () a = if g a then pure () else throw e) :
    List.foldlM F () l = if l.all g then pure () else throw e :=
  foldlM_check (fun a => F () a) g e l h

end MetadorModel.Bridge.SubtypeFns
