import MetadorModel.Gen.Paths
import MetadorModel.Model.Paths
/-!
Bridge between the Lean text generated from `container/utils.py` in /repo (`Gen/Paths.lean`,
regenerated on every run) and the hand-written model the C08 theorems are about. A change of
`is_internal_path`, `is_meta_base_path`, `to_meta_base_path`, `to_data_node_path` or of the two
prefix constants changes the generated definitions and these equalities have to be re-proved.
-/
namespace MetadorModel.Bridge.Paths
open MetadorModel MetadorModel.Paths

theorem gen_constants :
    Gen.Paths.METADOR_PREF = Paths.METADOR_PREF ∧
    Gen.Paths.METADOR_META_PREF = Paths.METADOR_META_PREF := by decide

theorem gen_is_internal_path (p pref : Str) :
    Gen.Paths.is_internal_path p pref = isInternalPathP p pref ∧
    Gen.Paths.is_internal_path_d p = isInternalPath p := by
  simp [Gen.Paths.is_internal_path, Gen.Paths.is_internal_path_d, isInternalPathP, isInternalPath,
    gen_constants.1]

theorem gen_is_meta_base_path (p : Str) : Gen.Paths.is_meta_base_path p = isMetaBasePath p := by
  simp [Gen.Paths.is_meta_base_path, isMetaBasePath, gen_constants.2]

theorem gen_to_meta_base_path (p : Str) (ds : Bool) :
    Gen.Paths.to_meta_base_path p ds = toMetaBasePath p ds := by
  simp only [Gen.Paths.to_meta_base_path, toMetaBasePath, gen_constants.2]

theorem gen_to_data_node_path (p : Str) : Gen.Paths.to_data_node_path p = toDataNodePath p := by
  simp only [Gen.Paths.to_data_node_path, toDataNodePath, gen_constants.2]

end MetadorModel.Bridge.Paths
