import MetadorModel.Bridge.FindFilesFnsValid
/-!
Bridge between the Lean text generated from `ih5/record.py` in /repo (`Gen/FindFilesFns.lean`,
regenerated on every run by `harness/translate_c03.py`) and the hand-written model the C03 (and
C02) theorems are about (`Model/FindFiles.lean`, `openRec` / `createPatch` of `Model/Record.lean`).

A change of `_is_valid_record_name`, `_infer_name`, `find_files`, `_next_patch_filepath`, of the
mode dispatch of `IH5Record.__init__`, of the three class constants or of `OpenMode` changes the
generated definitions and these equalities have to be re-proved.

This module: `find_files`. The other translated functions are bridged in
`Bridge/FindFilesFnsValid.lean` (`_is_valid_record_name`),
`Bridge/FindFilesFnsName.lean` (constants, `_infer_name`, `_next_patch_filepath`) and
`Bridge/FindFilesFnsInit.lean` (`__init__`), so that a broken obligation is attributed; the lemmas
about the dictionary alone are in `Bridge/FindFilesFnsDict.lean`.
-/
namespace MetadorModel.Bridge.FindFilesFns
open MetadorModel MetadorModel.FindFiles MetadorModel.Record MetadorModel.RecordPy

/-- `find_files`: the glob, the false-positive filter and the `ValueError` for an invalid name -/
theorem gen_find_files (dir : List Name) (n : Name) :
    Gen.FindFilesFns.find_files dir n =
      (match findFiles dir n with
       | none => .error .valueError
       | some l => .ok l) := by
  unfold Gen.FindFilesFns.find_files findFiles
  simp only [gen_is_valid_record_name]
  cases hv : isValidName n
  · simp
  · simp only [Bool.not_true, Bool.false_eq_true, if_false, if_true, pyGlob]
    rw [List.filter_filter]
    congr 1
    apply List.filter_congr
    intro f _
    have hg : pyReMatch (globToRe (pyGlobInterp n ++
        [.star, .chr '.', .chr 'i', .chr 'h', .chr '5'])) f = _ := glob_prefix_star_suffix n ext f
    have hr : pyReMatch ([.bos] ++ pyReInterp n ++ [.atom (.cls true
        [.range 'A' 'Z', .range 'a' 'z', .range '0' '9', .chr '-'])]) f = _ :=
      re_prefix_then_atom n f (Atom.cls true nameClass)
    rw [hg, hr, Bool.and_comm]
    unfold belongs globMatch regexGuard
    congr 2
    cases f.drop n.length with
    | nil => rfl
    | cons c _ => exact nameClass_neg_ok c

/-- the strings `find_files` pastes into its glob pattern and its regular expression mean
themselves there (proviso of `pyReInterp` / `pyGlobInterp`) -/
theorem gen_find_files_interp_plain (n : Name)
    (h : Gen.FindFilesFns.is_valid_record_name n = true) : pyPlain n = true := by
  rw [gen_is_valid_record_name] at h
  have hchars : ∀ s : Str, (∀ c ∈ s, isNameChar c = true ∨ c = '\n') → pyPlain s = true := by
    intro s hs
    unfold pyPlain
    rw [List.all_eq_true]
    intro c hc
    rcases hs c hc with h1 | rfl
    · simp only [isNameChar, Bool.or_eq_true, Bool.and_eq_true, decide_eq_true_eq, beq_iff_eq] at h1
      simp only [reMeta, globMeta, List.contains_cons, List.contains_nil, Bool.or_false,
        Bool.and_eq_true, Bool.not_eq_true', Bool.or_eq_false_iff, beq_eq_false_iff_ne, ne_eq]
      have hne : ∀ d : Char, c.toNat ≠ d.toNat → ¬ c = d := fun d hd he => hd (he ▸ rfl)
      refine ⟨⟨?_, ?_, ?_, ?_, ?_, ?_, ?_, ?_, ?_, ?_, ?_, ?_, ?_, ?_⟩, ?_, ?_, ?_, ?_, ?_⟩ <;>
        (apply hne; simp only [Char.reduceToNat]; omega)
    · decide
  apply hchars
  unfold isValidName at h
  rw [Bool.or_eq_true] at h
  rcases h with h | h
  · intro c hc
    exact Or.inl (((strictName_iff n).mp h).2 c hc)
  · split at h
    · rename_i r hr
      rw [List.reverse_eq_cons_iff] at hr
      intro c hc
      rw [hr] at hc
      rcases List.mem_append.mp hc with h1 | h1
      · exact Or.inl (((strictName_iff _).mp h).2 c h1)
      · exact Or.inr (by simpa using h1)
    · cases h


end MetadorModel.Bridge.FindFilesFns
