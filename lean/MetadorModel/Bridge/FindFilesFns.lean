import MetadorModel.Gen.FindFilesFns
import MetadorModel.Proofs.FindFiles
/-!
Bridge between the Lean text generated from `ih5/record.py` in /repo (`Gen/FindFilesFns.lean`,
regenerated on every run by `harness/translate_c03.py`) and the hand-written model the C03 (and
C02) theorems are about (`Model/FindFiles.lean`, `openRec` / `createPatch` of `Model/Record.lean`).

A change of `_is_valid_record_name`, `_infer_name`, `find_files`, `_next_patch_filepath`, of the
mode dispatch of `IH5Record.__init__`, of the three class constants or of `OpenMode` changes the
generated definitions and these equalities have to be re-proved.

The first part is about the dictionary only (`Py/RecordPy.lean`): what the generic regular
expression / glob / `split` / `str(int)` / index operations compute on the shapes that occur.
-/
namespace MetadorModel.Bridge.FindFilesFns
open MetadorModel MetadorModel.FindFiles MetadorModel.Record MetadorModel.RecordPy

/-! ## dictionary lemmas -/

theorem pyStartswith_eq : ∀ (s p : Str), pyStartswith s p = startsWith s p
  | _, [] => by simp [pyStartswith, startsWith]
  | [], _ :: _ => by simp [pyStartswith, startsWith]
  | c :: s, d :: p => by simp [pyStartswith, startsWith, pyStartswith_eq s p]

theorem char_eq_iff_toNat (c d : Char) : c = d ↔ c.toNat = d.toNat := by
  constructor
  · rintro rfl; rfl
  · intro h
    apply Char.ext
    apply UInt32.toNat_inj.mp
    exact h

/-- the character class `[A-Za-z0-9\-]` as parsed by `re` -/
def nameClass : List ClassItem := [.range 'A' 'Z', .range 'a' 'z', .range '0' '9', .chr '-']

theorem nameClass_ok (c : Char) : (Atom.cls false nameClass).ok c = isNameChar c := by
  have h45 : (c == '-') = (c.toNat == 45) := by
    rw [Bool.eq_iff_iff]; simp only [beq_iff_eq]
    exact char_eq_iff_toNat c '-'
  simp [Atom.ok, nameClass, ClassItem.ok, isNameChar, h45, Bool.or_assoc]

theorem nameClass_neg_ok (c : Char) : (Atom.cls true nameClass).ok c = !isNameChar c := by
  rw [← nameClass_ok]
  simp [Atom.ok]

/-- pasted literal text: a prefix test, then the rest of the pattern on the rest of the text -/
theorem matchItems_interp (r : List Item) : ∀ (n : Str) (st : Bool) (f : Str),
    matchItems (pyReInterp n ++ r) st f =
      (startsWith f n && matchItems r (st && n.isEmpty) (f.drop n.length))
  | [], st, f => by simp [pyReInterp, startsWith]
  | d :: n, st, [] => by simp [pyReInterp, matchItems, startsWith]
  | d :: n, st, c :: f => by
    have ih := matchItems_interp r n false f
    simp only [pyReInterp] at ih
    simp [pyReInterp, matchItems, startsWith, Atom.ok, ih, Bool.and_assoc]

theorem matchItems_interp_eosZ : ∀ (e : Str) (st : Bool) (s : Str),
    matchItems (pyReInterp e ++ [.eosZ]) st s = (s == e)
  | [], st, s => by cases s <;> simp [pyReInterp, matchItems]
  | d :: e, st, [] => by simp [pyReInterp, matchItems]
  | d :: e, st, c :: s => by
    have ih := matchItems_interp_eosZ e false s
    simp only [pyReInterp] at ih
    simp [pyReInterp, matchItems, Atom.ok, ih]

theorem starK_any_suffix (e : Str) : ∀ (st : Bool) (s : Str),
    starK .any (matchItems (pyReInterp e ++ [.eosZ])) st s = endsWith s e
  | st, [] => by
    rw [starK, matchItems_interp_eosZ, Bool.eq_iff_iff, endsWith_iff]
    simp only [beq_iff_eq]
    constructor
    · intro h; exact ⟨[], by simp [← h]⟩
    · rintro ⟨t, h⟩
      have := congrArg List.length h
      simp at this
      exact (List.eq_nil_of_length_eq_zero (by omega)).symm
  | st, c :: s => by
    rw [starK, matchItems_interp_eosZ, starK_any_suffix e false s, Bool.eq_iff_iff]
    simp only [Atom.ok, Bool.true_and, Bool.or_eq_true, beq_iff_eq, endsWith_iff]
    constructor
    · rintro (h | ⟨t, h⟩)
      · exact ⟨[], by simp [h]⟩
      · exact ⟨c :: t, by simp [h]⟩
    · rintro ⟨t, h⟩
      cases t with
      | nil => left; simpa using h
      | cons x t =>
        right
        simp only [List.cons_append, List.cons.injEq] at h
        exact ⟨t, h.2⟩

theorem globToRe_interp (g : List GItem) : ∀ (n : Str),
    globToRe (pyGlobInterp n ++ g) = pyReInterp n ++ globToRe g
  | [] => rfl
  | c :: n => by
    have ih := globToRe_interp g n
    simp only [pyGlobInterp, pyReInterp] at ih
    simp [pyGlobInterp, pyReInterp, globToRe, ih]

/-- `fnmatch` of `<n>*<e>` -/
theorem glob_prefix_star_suffix (n e f : Str) :
    pyReMatch (globToRe (pyGlobInterp n ++ .star :: pyGlobInterp e)) f =
      (startsWith f n && endsWith (f.drop n.length) e) := by
  have h2 : globToRe (.star :: pyGlobInterp e) = .star .any :: (pyReInterp e ++ [.eosZ]) := by
    have := globToRe_interp [] e
    simp only [List.append_nil] at this
    simp [globToRe, this]
  rw [pyReMatch, globToRe_interp, h2, matchItems_interp]
  simp only [matchItems]
  rw [starK_any_suffix]

/-- `^<n>[^class]` -/
theorem re_prefix_then_atom (n f : Str) (a : Atom) :
    pyReMatch ([.bos] ++ pyReInterp n ++ [.atom a]) f =
      (startsWith f n &&
        (match f.drop n.length with
         | c :: _ => a.ok c
         | [] => false)) := by
  have := matchItems_interp [.atom a] n true f
  rw [pyReMatch]
  change (true && matchItems (pyReInterp n ++ [.atom a]) true f) = _
  rw [Bool.true_and, this]
  congr 1
  cases f.drop n.length <;> first | rfl | simp [matchItems]

/-- `[class]+$` on what follows the first character -/
theorem starK_class_eos (a : Atom) (nc : Char → Bool) (ha : ∀ c, a.ok c = nc c) (hnl : nc '\n' = false) :
    ∀ (st : Bool) (s : Str),
      starK a (matchItems [.eos]) st s = true ↔
        ((∀ c ∈ s, nc c = true) ∨ ∃ init, s = init ++ ['\n'] ∧ ∀ c ∈ init, nc c = true)
  | st, [] => by simp [starK, matchItems]
  | st, c :: s => by
    rw [starK, Bool.or_eq_true, Bool.and_eq_true, starK_class_eos a nc ha hnl false s, ha]
    simp only [matchItems, Bool.and_true, Bool.or_eq_true, beq_iff_eq, reduceCtorEq, false_or,
      List.cons.injEq, List.mem_cons, forall_eq_or_imp]
    constructor
    · rintro (⟨rfl, rfl⟩ | ⟨hc, h | ⟨init, rfl, hi⟩⟩)
      · exact Or.inr ⟨[], rfl, by simp⟩
      · exact Or.inl ⟨hc, h⟩
      · exact Or.inr ⟨c :: init, rfl, by simpa [hc] using hi⟩
    · rintro (⟨hc, h⟩ | ⟨init, h, hi⟩)
      · exact Or.inr ⟨hc, Or.inl h⟩
      · cases init with
        | nil =>
          simp only [List.nil_append, List.cons.injEq] at h
          exact Or.inl h
        | cons d init =>
          simp only [List.cons_append, List.cons.injEq] at h
          obtain ⟨rfl, rfl⟩ := h
          exact Or.inr ⟨hi c (by simp), Or.inr ⟨init, rfl, fun x hx => hi x (by simp [hx])⟩⟩

theorem pyHead_splitGo (sep : Str) : ∀ (s cur : Str),
    pyHead (pySplitGo sep 0 s cur) = cur.reverse ++ splitFirst sep s
  | [], cur => by simp [pySplitGo, pyHead, splitFirst]
  | c :: r, cur => by
    rw [pySplitGo, splitFirst, pyStartswith_eq]
    split
    · simp [pyHead]
    · rw [pyHead_splitGo sep r (c :: cur)]; simp

/-- `s.split(sep)[0]` -/
theorem pyHead_pySplit (s sep : Str) : pyHead (pySplit s sep) = splitFirst sep s := by
  simp [pySplit, pyHead_splitGo]

theorem digitChar_eq (d : Nat) (h : d < 10) : Nat.digitChar d = digitChar d := by
  have : d = 0 ∨ d = 1 ∨ d = 2 ∨ d = 3 ∨ d = 4 ∨ d = 5 ∨ d = 6 ∨ d = 7 ∨ d = 8 ∨ d = 9 := by omega
  rcases this with rfl | rfl | rfl | rfl | rfl | rfl | rfl | rfl | rfl | rfl <;> rfl

theorem toDigitsCore_eq : ∀ (fuel n : Nat) (acc : List Char),
    Nat.toDigitsCore 10 (fuel + 1) n acc = decimalAux (fuel + 1) n acc
  | 0, n, acc => by
    simp only [Nat.toDigitsCore, decimalAux]
    by_cases h : n < 10
    · have h0 : n / 10 = 0 := by omega
      have h1 : n % 10 = n := by omega
      simp [h, h0, h1, digitChar_eq n h]
    · have h0 : n / 10 ≠ 0 := by omega
      simp [h, h0, digitChar_eq (n % 10) (by omega)]
  | fuel + 1, n, acc => by
    rw [Nat.toDigitsCore, decimalAux]
    by_cases h : n < 10
    · have h0 : n / 10 = 0 := by omega
      have h1 : n % 10 = n := by omega
      simp [h, h0, h1, digitChar_eq n h]
    · have h0 : n / 10 ≠ 0 := by omega
      simp only [h, h0, if_false]
      rw [toDigitsCore_eq fuel, digitChar_eq (n % 10) (by omega)]

/-- `str(n)` -/
theorem pyStrNat_eq (n : Nat) : pyStrNat n = decimal n := by
  simp [pyStrNat, Nat.toDigits, decimal, toDigitsCore_eq]

theorem pyIdx_zero {α : Type} (l : List α) :
    pyIdx l 0 = match l with | [] => .error .indexError | x :: _ => .ok x := by
  cases l <;> simp [pyIdx]

theorem lastFile_eq_getLast? : ∀ (l : List (Name × UB)), lastFile l = l.getLast?
  | [] => rfl
  | [_] => rfl
  | _ :: y :: r => by rw [lastFile, lastFile_eq_getLast? (y :: r)]; simp [List.getLast?_cons_cons]

theorem pyIdx_last (l : List (Name × UB)) :
    pyIdx l (-1) = match lastFile l with | none => .error .indexError | some x => .ok x := by
  rw [lastFile_eq_getLast?]
  cases l with
  | nil => simp [pyIdx]
  | cons a r =>
    have h1 : ((-1 : Int) + ((a :: r).length : Int)) = (r.length : Int) := by
      simp only [List.length_cons]; omega
    have h2 : ¬ ((r.length : Int) < 0) := by omega
    simp only [pyIdx, h1, h2, if_false, Int.toNat_natCast, show ((-1 : Int) < 0) from by decide, if_true]
    rw [List.getLast?_eq_getElem?]
    simp

/-! ## the generated functions -/

theorem gen_constants :
    Gen.FindFilesFns.FILE_EXT = ext ∧ Gen.FindFilesFns.PATCH_INFIX = infix_ ∧
    Gen.FindFilesFns.OPEN_MODES = [modeStr .r, modeStr .rp, modeStr .a, modeStr .w, modeStr .wm, modeStr .x] := by
  decide

/-- `_is_valid_record_name` (including the `$`-before-a-final-newline trap) -/
theorem gen_is_valid_record_name (n : Name) :
    Gen.FindFilesFns.is_valid_record_name n = isValidName n := by
  rw [Bool.eq_iff_iff]
  unfold Gen.FindFilesFns.is_valid_record_name pyReMatch
  have hmodel : isValidName n = true ↔
      (ValidName n ∨ ∃ init, n = init ++ ['\n'] ∧ ValidName init) := by
    unfold isValidName
    rw [Bool.or_eq_true, strictName_iff]
    apply or_congr Iff.rfl
    constructor
    · intro h
      split at h
      · rename_i r hr
        rw [List.reverse_eq_cons_iff] at hr
        exact ⟨r.reverse, hr, (strictName_iff _).mp h⟩
      · cases h
    · rintro ⟨init, rfl, hv⟩
      simp [(strictName_iff _).mpr hv]
  rw [hmodel]
  cases n with
  | nil =>
    simp [matchItems, ValidName]
  | cons c s =>
    change (true && ((Atom.cls false nameClass).ok c &&
      starK (Atom.cls false nameClass) (matchItems [.eos]) false s)) = true ↔ _
    rw [Bool.true_and, Bool.and_eq_true, nameClass_ok,
      starK_class_eos (Atom.cls false nameClass) isNameChar nameClass_ok (by decide)]
    unfold ValidName
    constructor
    · rintro ⟨hc, h | ⟨init, rfl, hi⟩⟩
      · exact Or.inl ⟨by simp, by simpa [hc] using h⟩
      · exact Or.inr ⟨c :: init, rfl, by simp, by simpa [hc] using hi⟩
    · rintro (⟨_, h⟩ | ⟨init, h, hne, hi⟩)
      · exact ⟨h c (by simp), Or.inl (fun x hx => h x (by simp [hx]))⟩
      · cases init with
        | nil => exact absurd rfl hne
        | cons d init =>
          simp only [List.cons_append, List.cons.injEq] at h
          obtain ⟨rfl, rfl⟩ := h
          exact ⟨hi c (by simp), Or.inr ⟨init, rfl, fun x hx => hi x (by simp [hx])⟩⟩

/-- `_infer_name` -/
theorem gen_infer_name (f : Name) : Gen.FindFilesFns.infer_name f = inferName f := by
  simp [Gen.FindFilesFns.infer_name, inferName, pyHead_pySplit, gen_constants.1, gen_constants.2.1]

/-- `find_files`: the glob, the false-positive filter and the `ValueError` for an invalid name -/
theorem gen_find_files (dir : List Name) (n : Name) :
    Gen.FindFilesFns.find_files dir n =
      (match findFiles dir n with
       | none => .error .valueError
       | some l => .ok l) := by
  unfold Gen.FindFilesFns.find_files findFiles
  simp only [gen_is_valid_record_name]
  cases hv : isValidName n
  · simp
  · simp only [Bool.not_true, Bool.false_eq_true, if_false, if_true, pyGlob]
    rw [List.filter_filter]
    congr 1
    apply List.filter_congr
    intro f _
    have hg : pyReMatch (globToRe (pyGlobInterp n ++
        [.star, .chr '.', .chr 'i', .chr 'h', .chr '5'])) f = _ := glob_prefix_star_suffix n ext f
    have hr : pyReMatch ([.bos] ++ pyReInterp n ++ [.atom (.cls true
        [.range 'A' 'Z', .range 'a' 'z', .range '0' '9', .chr '-'])]) f = _ :=
      re_prefix_then_atom n f (Atom.cls true nameClass)
    rw [hg, hr, Bool.and_comm]
    unfold belongs globMatch regexGuard
    congr 2
    cases f.drop n.length with
    | nil => rfl
    | cons c _ => exact nameClass_neg_ok c

/-- the strings `find_files` pastes into its glob pattern and its regular expression mean
themselves there (proviso of `pyReInterp` / `pyGlobInterp`) -/
theorem gen_find_files_interp_plain (n : Name)
    (h : Gen.FindFilesFns.is_valid_record_name n = true) : pyPlain n = true := by
  rw [gen_is_valid_record_name] at h
  have hchars : ∀ s : Str, (∀ c ∈ s, isNameChar c = true ∨ c = '\n') → pyPlain s = true := by
    intro s hs
    unfold pyPlain
    rw [List.all_eq_true]
    intro c hc
    rcases hs c hc with h1 | rfl
    · simp only [isNameChar, Bool.or_eq_true, Bool.and_eq_true, decide_eq_true_eq, beq_iff_eq] at h1
      simp only [reMeta, globMeta, List.contains_cons, List.contains_nil, Bool.or_false,
        Bool.and_eq_true, Bool.not_eq_true', Bool.or_eq_false_iff, beq_eq_false_iff_ne, ne_eq]
      have hne : ∀ d : Char, c.toNat ≠ d.toNat → ¬ c = d := fun d hd he => hd (he ▸ rfl)
      refine ⟨⟨?_, ?_, ?_, ?_, ?_, ?_, ?_, ?_, ?_, ?_, ?_, ?_, ?_, ?_⟩, ?_, ?_, ?_, ?_, ?_⟩ <;>
        (apply hne; simp only [Char.reduceToNat]; omega)
    · decide
  apply hchars
  unfold isValidName at h
  rw [Bool.or_eq_true] at h
  rcases h with h | h
  · intro c hc
    exact Or.inl (((strictName_iff n).mp h).2 c hc)
  · split at h
    · rename_i r hr
      rw [List.reverse_eq_cons_iff] at hr
      intro c hc
      rw [hr] at hc
      rcases List.mem_append.mp hc with h1 | h1
      · exact Or.inl (((strictName_iff _).mp h).2 c h1)
      · exact Or.inr (by simpa using h1)
    · cases h

/-- `_next_patch_filepath`: name inferred from the oldest container, index of the newest + 1;
`IndexError` on a record without files -/
theorem gen_next_patch_filepath (files : List (Name × UB)) :
    Gen.FindFilesFns.next_patch_filepath files =
      (match files, lastFile files with
       | (f0, _) :: _, some (_, ul) => .ok (patchFile (inferName f0) (ul.idx + 1))
       | _, _ => .error .indexError) := by
  unfold Gen.FindFilesFns.next_patch_filepath
  rw [pyIdx_zero, pyIdx_last]
  cases files with
  | nil => rfl
  | cons a r =>
    cases h : lastFile (a :: r) with
    | none => simp
    | some x =>
      simp [patchFile, gen_infer_name, pyStrNat_eq, gen_constants.1, gen_constants.2.1]

/-- `create_patch` of the model takes its file name from (the translation of)
`_next_patch_filepath` -/
theorem gen_createPatch_path (s : State) (hc : s.h.closed = false) (ha : s.h.allow = true)
    (hw : hasWritable s.h = false) :
    createPatch s =
      (match Gen.FindFilesFns.next_patch_filepath s.h.files, lastFile s.h.files with
       | .ok path, some (_, ul) =>
         (match newContainer s.disk (fileNames s.h) path (newPatchUB ul s.next) with
          | .error e => fail { s with next := s.next + 1 } e
          | .ok d =>
            { st := { disk := d, next := s.next + 1,
                      h := { s.h with files := s.h.files ++ [(path, newPatchUB ul s.next)], lastRW := true } },
              out := .ok, created := [path] })
       | _, _ => fail s .indexError) := by
  rw [gen_next_patch_filepath]
  unfold createPatch
  simp only [hc, ha, hw, Bool.false_eq_true, if_false, Bool.not_true]
  cases hf : s.h.files with
  | nil => simp
  | cons a r =>
    cases hl : lastFile (a :: r) with
    | none => simp
    | some x => simp; rfl

/-! ## `__init__` -/

theorem loadAll_err (d : Disk) : ∀ (l : List Name) (e : Out), loadAll d l = .error e → e ≠ .ok
  | [], e, h => by simp [loadAll] at h
  | f :: r, e, h => by
    unfold loadAll at h
    split at h
    · cases h; decide
    · cases h; decide
    · split at h
      · rename_i e' he
        cases h
        exact loadAll_err d r _ he
      · cases h

theorem openFiles_err (d : Disk) (paths : List Name) (rw : Bool) (e : Out)
    (h : openFiles d paths rw = .error e) : e ≠ .ok := by
  unfold openFiles at h
  split at h
  · cases h; decide
  · split at h
    · rename_i e' he
      cases h
      exact loadAll_err d paths _ he
    · split at h
      · cases h; decide
      · repeat' split at h
        all_goals first | (cases h; decide) | cases h

theorem openFiles_nonempty (d : Disk) (paths : List Name) (rw : Bool) (files : List (Name × UB))
    (l : Bool) (h : openFiles d paths rw = .ok (files, l)) : files ≠ [] := by
  unfold openFiles at h
  repeat' split at h
  all_goals first | (cases h; simp) | cases h

theorem loadManifest_err (d : Disk) (files : List (Name × UB)) (e : Out)
    (h : loadManifest d files = .error e) : e ≠ .ok := by
  unfold loadManifest at h
  repeat' split at h
  all_goals first | (cases h; decide) | cases h

/-- a failing `create_patch` leaves disk and handle alone and reports no touched files -/
theorem createPatch_fail (s : State) (h : (createPatch s).out ≠ .ok) :
    (createPatch s).st.disk = s.disk ∧ (createPatch s).st.h = s.h ∧ (createPatch s).created = [] ∧
      (createPatch s).removed = [] ∧ (createPatch s).written = [] := by
  revert h
  unfold createPatch
  simp only []
  repeat' split
  all_goals simp [fail]

/-- the first effectful step of a constructor -/
theorem pyStep_start (s : State) (op : State → Res) (k : Res → Res) :
    pyStep (pyStart s) op k = (match (op s).out with | .ok => k (op s) | _ => op s) := by
  unfold pyStep pyStart
  generalize op s = r
  rcases r with ⟨st, out, c, rm, w⟩
  simp only [List.nil_append]
  cases out <;> rfl

/-- a last step after steps that touched nothing -/
theorem pyStep_last (s' : State) (op : State → Res) :
    pyStep { st := s', out := .ok } op (fun r => r) = op s' := by
  unfold pyStep
  simp only [List.nil_append]
  split <;> rfl

/-- what `__init__` does after the paths are known (second half of the `a`/`r*` branch) -/
def openTail (w : Bool) (r1 : Res) : Res :=
  let r2 := pySetAllow r1 w
  if (w && !(pyHasWritable r2)) then pyStep r2 pyCreatePatch fun r3 => r3 else r2

theorem open_chain (s : State) (mfcls : Bool) (paths : List Name) (m : Mode) :
    pyCtor s (pyStep (pyStart s) (pyOpen mfcls (some paths) (m != .r)) (openTail (m != .r))) =
      openExisting s mfcls paths m := by
  rw [pyStep_start]
  unfold openExisting
  dsimp only
  generalize (m != Mode.r) = w
  cases ho : openFiles s.disk paths w with
  | error e =>
    have hop : pyOpen mfcls (some paths) w s = fail s e := by simp [pyOpen, ho]
    have := openFiles_err _ _ _ _ ho
    rw [hop]
    cases e <;> simp_all [pyCtor, fail]
  | ok fl =>
    obtain ⟨files, lastRW⟩ := fl
    have hne := openFiles_nonempty _ _ _ _ _ ho
    have hfe : files.isEmpty = false := by cases files <;> simp_all
    dsimp only
    cases hm : (if mfcls then loadManifest s.disk files else .ok none) with
    | error e =>
      have hop : pyOpen mfcls (some paths) w s = fail s e := by
        simp only [pyOpen, Option.getD_some, ho, hm]
      have : e ≠ .ok := by
        cases mfcls
        · simp at hm
        · exact loadManifest_err _ _ _ (by simpa using hm)
      rw [hop]
      cases e <;> simp_all [pyCtor, fail]
    | ok man =>
      have hop : pyOpen mfcls (some paths) w s = openedRes s mfcls files lastRW man := by
        simp only [pyOpen, Option.getD_some, ho, hm]
      rw [hop]
      simp only [openedRes, openTail, pySetAllow, pyHasWritable, hasWritable, hfe, Bool.not_false,
        Bool.true_and]
      cases w <;> cases lastRW
      · simp [pyCtor]
      · simp [pyCtor]; rfl
      · -- writable wanted, newest container committed → `create_patch`
        simp only [Bool.true_and, Bool.not_false, if_true, Bool.false_eq_true, if_false]
        rw [pyStep_last]
        unfold pyCreatePatch
        generalize hs' : ({ disk := s.disk, h := _, next := s.next } : State) = s'
        have hd : s'.disk = s.disk := by rw [← hs']
        by_cases hok : (createPatch s').out = .ok
        · simp [hok, pyCtor]
        · obtain ⟨h1, h2, h3, h4, h5⟩ := createPatch_fail s' hok
          rcases hcp : createPatch s' with ⟨st, out, c, r, w⟩
          rw [hcp] at h1 h2 h3 h4 h5 hok
          cases out <;> simp_all [pyCtor, fail]
      · simp [pyCtor]; rfl

/-- `open_chain` for a tail given as any function that agrees with `openTail` -/
theorem open_chain' (s : State) (mfcls : Bool) (paths : List Name) (m : Mode) (w : Bool)
    (k : Res → Res) (hk : ∀ r1, k r1 = openTail w r1) (hw : w = (m != .r)) :
    pyCtor s (pyStep { st := s, out := .ok } (pyOpen mfcls (some paths) w) k) =
      openExisting s mfcls paths m := by
  have hk' : k = openTail w := funext hk
  subst hk' hw
  exact open_chain s mfcls paths m

/-- a constructor that consists of one model operation which, when it fails, leaves the handle alone -/
theorem pyCtor_single (s : State) (op : State → Res)
    (hh : (op s).out ≠ .ok → (op s).st.h = s.h) :
    pyCtor s (pyStep (pyStart s) op fun r => r) = op s := by
  rw [pyStep_start]
  rcases hop : op s with ⟨st, out, c, rm, w⟩
  rw [hop] at hh
  rcases st with ⟨d, h, nx⟩
  cases out <;> simp_all [pyCtor]

theorem create_chain (s : State) (mfcls : Bool) (n : Name) (t : Bool) :
    pyCtor s (pyStep (pyStart s) (pyCreate mfcls n t) fun r => r) = createRec s mfcls n t [] := by
  apply pyCtor_single
  unfold pyCreate createRec
  dsimp only
  split
  · simp [fail]
  · cases newContainer _ _ _ _ <;> simp

/-- **the mode dispatch of `IH5Record.__init__`**: for every record argument (prefix path or
file list), every mode and every on-disk situation, the translated constructor is the model's
`openRec` (on a free handle slot; the model answers `busy` otherwise) -/
theorem gen_init (s : State) (mfcls : Bool) (t : Target) (m : Mode) (hc : s.h.closed = true) :
    Gen.FindFilesFns.init s mfcls t m = openRec s mfcls t m := by
  unfold Gen.FindFilesFns.init openRec
  simp only [hc, Bool.not_true, Bool.false_eq_true, if_false]
  cases t with
  | list fs =>
    cases m <;> simp [modeStr, Gen.FindFilesFns.OPEN_MODES, pyTruthy, pyStart]
    case r | rp | a =>
      by_cases hfs : fs = []
      · simp [hfs, pyCtor, pyRaise, fail]
      · simp only [hfs, if_false]
        refine open_chain' s mfcls fs _ _ _ (fun r1 => ?_) (by decide)
        simp [openTail]
    all_goals simp [pyCtor, pyRaise, fail]
  | name n =>
    cases m <;> simp [modeStr, Gen.FindFilesFns.OPEN_MODES, pyTruthy, pyStart]
    case w | wm | x => exact create_chain s mfcls n _
    all_goals
      rw [gen_find_files]
      cases hf : findFiles (names s.disk) n with
      | none => simp [pyCall, pyCtor, pyRaise, fail]
      | some l =>
        cases l with
        | nil =>
          simp only [pyCall, if_true]
          first
            | exact create_chain s mfcls n false
            | simp [pyCtor, pyRaise, fail]
        | cons f fs =>
          simp only [pyCall, reduceCtorEq, if_false]
          refine open_chain' s mfcls (f :: fs) _ _ _ (fun r1 => ?_) (by decide)
          simp [openTail]

end MetadorModel.Bridge.FindFilesFns
