import MetadorModel.Bridge.TocFnsPkg
import MetadorModel.Bridge.TocFnsLinks
import MetadorModel.Bridge.TocFnsMeta
import MetadorModel.Proofs.ContainerInv
/-!
# The hypotheses of the load-loop bridges follow from the container invariant `Inv`

(`PkgTreeOK` for `TOCPackages.__init__`, `LinkTreeOK` for `TOCLinks.__init__`, `MetaDirOK` for
`MetadorMeta.__init__`; `PClosed`, the hypothesis of the two `_unregister` bridges, is a field of `Inv`.)
-/
namespace MetadorModel.Bridge.TocFns
open MetadorModel.Container MetadorModel.CtrPy MetadorModel.Gen.TocFns


/-! ### the hypotheses of the load-loop bridges follow from the container invariant -/

theorem holds_cases {o : Option Node} {P : Prop} {n : Node} (h : Holds o P n) : o = none ∨ o = some n := by
  by_cases hp : P
  · exact Or.inr (h.1 hp)
  · exact Or.inl (h.2 hp)

theorem PkgTreeOK.of_inv {e : Env} {s : St} (hi : Inv e s) : PkgTreeOK s.raw where
  keys := hi.keys
  closed := hi.pclosed
  dir := holds_cases hi.toc.packages
  pkg := by
    intro k n hg
    have hsh := hi.toc.shape [.packages, k] (by
      have : (Key.toc :: [Key.packages, k]) = packagesP ++ [k] := rfl
      rw [this, hg]; simp)
    cases hsh with
    | pkg p =>
      refine ⟨p, p, e.pkgPlugins p, rfl, ?_⟩
      have hg' : get? s.raw (pkgPath p) = some n := hg
      rcases holds_cases (hi.toc.pkg p) with h | h
      · rw [h] at hg'; cases hg'
      · rw [h] at hg'; cases hg'; rfl

theorem LinkTreeOK.of_inv {e : Env} {s : St} (hi : Inv e s) : LinkTreeOK s.raw where
  keys := hi.keys
  closed := hi.pclosed
  dir := holds_cases hi.toc.links
  ep := by
    intro k n hg
    have hsh := hi.toc.shape [.links, k] (by
      have : (Key.toc :: [Key.links, k]) = linksP ++ [k] := rfl
      rw [this, hg]; simp)
    cases hsh with
    | linkDir r =>
      refine ⟨r, rfl, ?_⟩
      have hg' : get? s.raw (linkDir r) = some n := hg
      rcases holds_cases (hi.toc.ldir r) with h | h
      · rw [h] at hg'; cases hg'
      · rw [h] at hg'; cases hg'; rfl
  link := by
    intro r k n hg
    have hsh := hi.toc.shape [.links, .ep r, k] (by
      have : (Key.toc :: [Key.links, Key.ep r, k]) = linkDir r ++ [k] := rfl
      rw [this, hg]; simp)
    cases hsh with
    | link r u =>
      have hg' : get? s.raw (linkPath r u) = some n := hg
      by_cases hex : ∃ p, ObjAt s.raw p r u
      · obtain ⟨p, hp⟩ := hex
        rw [hi.toc.link_some p r u hp] at hg'
        cases hg'
        exact ⟨u, _, rfl, rfl⟩
      · rw [hi.toc.link_none r u hex] at hg'; cases hg'

theorem MetaDirOK.of_inv {e : Env} {s : St} (hi : Inv e s) (b : Path) (m : String) (hb : isInternal b = false) :
    MetaDirOK s.raw (b ++ [.metaDir m]) where
  keys := hi.keys
  closed := hi.pclosed
  objs := by
    intro k n hg
    have hne : get? s.raw (b ++ Key.metaDir m :: k :: []) ≠ none := by
      have : b ++ Key.metaDir m :: k :: [] = b ++ [Key.metaDir m] ++ [k] := by simp
      rw [this, hg]; simp
    obtain ⟨_, r, u, rfl⟩ := below_metaDir hi.mok hb hne
    have hq : b ++ [Key.metaDir m] ++ [Key.obj r u] = b ++ [Key.metaDir m, Key.obj r u] := by simp
    have hsh := hi.mok.ushape (b ++ [Key.metaDir m, Key.obj r u]) n (by simp) (objPath_head hb) (by rw [← hq]; exact hg)
    generalize hqq : b ++ [Key.metaDir m, Key.obj r u] = q at hsh
    cases hsh with
    | user q n hi' _ =>
      rw [← hqq, isInternal_append] at hi'
      simp [isInternal, Key.internal] at hi'
    | metaDir base m' hb' =>
      have : b ++ [Key.metaDir m, Key.obj r u] = (b ++ [Key.metaDir m]) ++ [Key.obj r u] := by simp
      rw [this] at hqq
      have := List.append_inj_right' hqq (by simp)
      simp at this
    | obj base m' r' u' tok hb' => exact ⟨r, u, _, rfl, rfl⟩

end MetadorModel.Bridge.TocFns
