import MetadorModel.Bridge.PluginGroupFnsDict
import MetadorModel.Bridge.PluginRef
/-!
Bridge (C16), comparisons: what the dictionary entries that go through the translated `PluginRef`
methods (`Gen/PluginRef.lean`: `a.supports(b)`, `x in l`, `l.sort()`) mean in terms of the model, by
the bridge theorems of `Bridge/PluginRef.lean`. Imports nothing of `Gen/PluginGroupFns.lean`.
-/
namespace MetadorModel.Bridge.PluginGroupFns
open MetadorModel MetadorModel.Plugin MetadorModel.PluginPy

theorem truthy_gen_supports (a b : Ref) : truthy (Gen.PluginRef.supports a b) = supports a b := by
  rw [Bridge.PluginRef.gen_supports]; rfl

theorem truthy_gen_eq (a b : Ref) : truthy (Gen.PluginRef.eq a b) = Plugin.eq a b := by
  rw [Bridge.PluginRef.gen_eq]; rfl

theorem eq_comm' (a b : Ref) : Plugin.eq a b = Plugin.eq b a := by
  rw [Bool.eq_iff_iff, Plugin.eq_iff, Plugin.eq_iff]; exact eq_comm

theorem pySort_gen (l : List Ref) : pySort Gen.PluginRef.ge l = sortRefs l := by
  have : Gen.PluginRef.ge = geO := by
    funext a b; rw [Bridge.PluginRef.gen_ge]; rfl
  simp only [pySort, this]; rfl

end MetadorModel.Bridge.PluginGroupFns
