import MetadorModel.Gen.HashsumsFns
import MetadorModel.Proofs.HashsumsDict
/-!
Bridge between the Lean text generated from `util/hashsums.py` in /repo (`Gen/HashsumsFns.lean`,
regenerated on every run by `harness/translate_c19.py`) and the hand-written model
`Model/Hashsums.lean` that the C19 theorems are about.

* `gen_rel_symlink`   : generated `rel_symlink`            = `relSymlink`
* `gen_loop_body`     : generated body of the `rglob` loop = `step`     (on canonical dicts)
* `gen_dir_hashsums`  : generated `dir_hashsums`           = `dirHashsums`
* `gen_default_alg`   : `DEF_HASH_ALG`                     = `"sha256"`

The generated text walks the result dict through an alias (`curr = ret … curr = curr[seg] …
curr[fname] = val`, value dictionary: `Model/HashsumsPy.lean`), the model descends recursively
(`put`) and writes every dict on the way back. The two agree on dicts in canonical form
(`HTOk`: re-storing a value that is already there changes nothing — true for the sorted
association lists that `dset` builds from `{}`), which is an invariant of the loop.

A change of the order of the `is_symlink` / `is_file` tests, of what is stored where, of the
`"."` skip, of the exceptions raised, of the `relative_to` containment test or of the default
algorithm changes the generated definitions and these equalities have to be re-proved.
-/
-- simp sets below name more lemmas than today's text needs, so that harmless rewrites still pass
set_option linter.unusedSimpArgs false

namespace MetadorModel.Bridge.HashsumsFns
open MetadorModel MetadorModel.Bytes MetadorModel.Hashsums MetadorModel.HashsumsPy

/-! ## Canonical dicts -/

/-- storing what is already stored changes nothing -/
def DOk (d : List (Name × HT)) : Prop := ∀ s x, dget s d = some x → dset s x d = d

theorem DOk_nil : DOk [] := by intro s x h; simp [dget] at h

theorem DOk_dset (k : Name) (v : HT) (d : List (Name × HT)) (h : DOk d) : DOk (dset k v d) := by
  intro s x hs
  by_cases e : s = k
  · subst e
    rw [dget_dset_same] at hs
    cases hs
    exact dset_dset_same s v v d
  · rw [dget_dset_ne k s v (Ne.symm e)] at hs
    rw [dset_comm s k x v e, h s x hs]

/-- every dict of the tree is canonical (children = what `dget` can reach) -/
inductive HTOk : HT → Prop
  | leaf (s : Str) : HTOk (.leaf s)
  | node (d : List (Name × HT)) : DOk d → (∀ k v, dget k d = some v → HTOk v) → HTOk (.node d)

theorem HTOk_empty : HTOk (.node []) := .node [] DOk_nil (by intro k v h; simp [dget] at h)

theorem HTOk.child {d : List (Name × HT)} (h : HTOk (.node d)) {k : Name} {v : HT}
    (hk : dget k d = some v) : HTOk v := by
  cases h with
  | node _ _ hc => exact hc k v hk

theorem HTOk.dok {d : List (Name × HT)} (h : HTOk (.node d)) : DOk d := by
  cases h with
  | node _ hd _ => exact hd

theorem HTOk.dset {d : List (Name × HT)} (h : HTOk (.node d)) (k : Name) {v : HT} (hv : HTOk v) :
    HTOk (.node (dset k v d)) := by
  refine .node _ (DOk_dset k v d h.dok) ?_
  intro k' v' hk'
  by_cases e : k' = k
  · subst e; rw [dget_dset_same] at hk'; cases hk'; exact hv
  · rw [dget_dset_ne k k' v (Ne.symm e)] at hk'; exact h.child hk'

theorem put_ok : ∀ (segs : List Name) (t t' : HT) (lf : Option (Name × Str)),
    HTOk t → put t segs lf = .ok t' → HTOk t'
  | [], t, t', none, h, hp => by rw [put_nil_none] at hp; cases hp; exact h
  | [], .leaf _, t', some _, _, hp => by simp [put] at hp
  | [], .node d, t', some (k, v), h, hp => by
    simp only [put] at hp; cases hp; exact h.dset k (.leaf v)
  | _ :: _, .leaf _, t', lf, _, hp => by simp [put] at hp
  | s :: r, .node d, t', lf, h, hp => by
    rw [put_cons_node] at hp
    cases hc : put ((dget s d).getD (.node [])) r lf with
    | error e => rw [hc] at hp; simp [bindE] at hp
    | ok c =>
      rw [hc] at hp; simp only [bindE] at hp; cases hp
      refine h.dset s (put_ok r _ c lf ?_ hc)
      cases hd : dget s d with
      | none => exact HTOk_empty
      | some x => exact h.child hd

/-! ## An alias into the result dict = a key path -/

/-- the tree with the object under `c` replaced (every dict on the way re-stored, as `put` does) -/
def replaceAt : HT → Cursor → HT → HT
  | _, [], n => n
  | .leaf s, _ :: _, _ => .leaf s
  | .node d, s :: c, n =>
    match dget s d with
    | none => .node d
    | some sub => .node (dset s (replaceAt sub c n) d)

theorem get_cons_node (d : List (Name × HT)) (s : Name) (c : Cursor) :
    (HT.node d).get (s :: c) = (dget s d).bind (fun x => x.get c) := by
  simp only [HT.get]; cases dget s d <;> rfl

theorem setItem_node (k : Name) (v : HT) : ∀ (c : Cursor) (t : HT) (d : List (Name × HT)),
    t.get c = some (.node d) → pySetItem t c k v = .ok (replaceAt t c (.node (dset k v d)))
  | [], t, d, h => by simp only [HT.get] at h; cases h; rfl
  | s :: c, .leaf _, d, h => by simp [HT.get] at h
  | s :: c, .node d', d, h => by
    rw [get_cons_node] at h
    cases hs : dget s d' with
    | none => rw [hs] at h; simp at h
    | some x =>
      rw [hs] at h; simp only [Option.bind] at h
      simp only [pySetItem, replaceAt, hs, setItem_node k v c x d h]

theorem setItem_leaf (k : Name) (v : HT) : ∀ (c : Cursor) (t : HT) (x : Str),
    t.get c = some (.leaf x) → pySetItem t c k v = .error .typeError
  | [], t, x, h => by simp only [HT.get] at h; cases h; rfl
  | s :: c, .leaf _, x, h => by simp [HT.get] at h
  | s :: c, .node d', x, h => by
    rw [get_cons_node] at h
    cases hs : dget s d' with
    | none => rw [hs] at h; simp at h
    | some y =>
      rw [hs] at h; simp only [Option.bind] at h
      simp only [pySetItem, hs, setItem_leaf k v c y x h]

theorem get_replaceAt (n : HT) : ∀ (c : Cursor) (t sub : HT),
    t.get c = some sub → (replaceAt t c n).get c = some n
  | [], t, sub, _ => by simp [replaceAt, HT.get]
  | s :: c, .leaf _, sub, h => by simp [HT.get] at h
  | s :: c, .node d, sub, h => by
    rw [get_cons_node] at h
    cases hs : dget s d with
    | none => rw [hs] at h; simp at h
    | some x =>
      rw [hs] at h; simp only [Option.bind] at h
      simp only [replaceAt, hs, get_cons_node, dget_dset_same, Option.bind]
      exact get_replaceAt n c x sub h

theorem replaceAt_replaceAt (n m : HT) : ∀ (c : Cursor) (t sub : HT),
    t.get c = some sub → replaceAt (replaceAt t c n) c m = replaceAt t c m
  | [], t, sub, _ => by simp [replaceAt]
  | s :: c, .leaf _, sub, h => by simp [HT.get] at h
  | s :: c, .node d, sub, h => by
    rw [get_cons_node] at h
    cases hs : dget s d with
    | none => rw [hs] at h; simp at h
    | some x =>
      rw [hs] at h; simp only [Option.bind] at h
      simp only [replaceAt, hs, dget_dset_same, dset_dset_same, replaceAt_replaceAt n m c x sub h]

theorem get_snoc (s : Name) : ∀ (c : Cursor) (t : HT) (d : List (Name × HT)),
    t.get c = some (.node d) → t.get (c ++ [s]) = dget s d
  | [], t, d, h => by
    simp only [HT.get] at h; cases h
    simp only [List.nil_append, get_cons_node]
    cases dget s d <;> simp [HT.get]
  | s' :: c, .leaf _, d, h => by simp [HT.get] at h
  | s' :: c, .node d', d, h => by
    rw [get_cons_node] at h
    cases hs : dget s' d' with
    | none => rw [hs] at h; simp at h
    | some x =>
      rw [hs] at h; simp only [Option.bind] at h
      simp only [List.cons_append, get_cons_node, hs, Option.bind]
      exact get_snoc s c x d h

theorem replaceAt_snoc (s : Name) (m : HT) : ∀ (c : Cursor) (t : HT) (d : List (Name × HT)) (x : HT),
    t.get c = some (.node d) → dget s d = some x →
    replaceAt t (c ++ [s]) m = replaceAt t c (.node (dset s m d))
  | [], t, d, x, h, hx => by
    simp only [HT.get] at h; cases h
    simp [replaceAt, hx]
  | s' :: c, .leaf _, d, x, h, _ => by simp [HT.get] at h
  | s' :: c, .node d', d, x, h, hx => by
    rw [get_cons_node] at h
    cases hs : dget s' d' with
    | none => rw [hs] at h; simp at h
    | some y =>
      rw [hs] at h; simp only [Option.bind] at h
      simp only [List.cons_append, replaceAt, hs, replaceAt_snoc s m c y d x h hx]

theorem replaceAt_self : ∀ (c : Cursor) (t sub : HT), HTOk t → t.get c = some sub → replaceAt t c sub = t
  | [], t, sub, _, h => by simp only [HT.get] at h; cases h; rfl
  | s :: c, .leaf _, sub, _, h => by simp [HT.get] at h
  | s :: c, .node d, sub, ok, h => by
    rw [get_cons_node] at h
    cases hs : dget s d with
    | none => rw [hs] at h; simp at h
    | some x =>
      rw [hs] at h; simp only [Option.bind] at h
      simp only [replaceAt, hs, replaceAt_self c x sub (ok.child hs) h, ok.dok s x hs]

theorem HTOk_replaceAt (n : HT) (hn : HTOk n) : ∀ (c : Cursor) (t : HT), HTOk t → HTOk (replaceAt t c n)
  | [], t, _ => by simpa [replaceAt] using hn
  | s :: c, .leaf x, ok => by simpa [replaceAt] using ok
  | s :: c, .node d, ok => by
    cases hs : dget s d with
    | none => simpa [replaceAt, hs] using ok
    | some x =>
      simp only [replaceAt, hs]
      exact ok.dset s (HTOk_replaceAt n hn c x (ok.child hs))

theorem HTOk_get : ∀ (c : Cursor) (t sub : HT), HTOk t → t.get c = some sub → HTOk sub
  | [], t, sub, ok, h => by simp only [HT.get] at h; cases h; exact ok
  | s :: c, .leaf _, sub, _, h => by simp [HT.get] at h
  | s :: c, .node d, sub, ok, h => by
    rw [get_cons_node] at h
    cases hs : dget s d with
    | none => rw [hs] at h; simp at h
    | some x =>
      rw [hs] at h; simp only [Option.bind] at h
      exact HTOk_get c x sub (ok.child hs) h

/-! ## The translated functions -/

theorem gen_default_alg : Gen.HashsumsFns.DEF_HASH_ALG = sha256 := rfl

/-- `rel_symlink(base, link)` of the source is the model's `relSymlink` -/
theorem gen_rel_symlink (t : FsTree) (e : Entry) (h : e.node.isSymlink = true) :
    Gen.HashsumsFns.rel_symlink t e = .ok (relSymlink t.base e.node) := by
  obtain ⟨p, n⟩ := e
  cases n with
  | file c => simp [Node.isSymlink] at h
  | dir => simp [Node.isSymlink] at h
  | sym r tg =>
    simp only [Gen.HashsumsFns.rel_symlink, osReadlink, parentJoin, Unresolved.resolve, FsTree.resolve,
      pyRelativeTo, relSymlink, Py.bind_ok]
    cases relativeTo r t.base <;> rfl

/-- … and raises `OSError` (from `os.readlink`) on anything that is not a symlink; the loop body
never calls it there (`gen_loop_body` holds without such a case) -/
theorem gen_rel_symlink_not_link (t : FsTree) (e : Entry) (h : e.node.isSymlink = false) :
    Gen.HashsumsFns.rel_symlink t e = .error .osError := by
  obtain ⟨p, n⟩ := e
  cases n with
  | sym r tg => simp [Node.isSymlink] at h
  | file c => rfl
  | dir => rfl

/-- what the loop body does after the segment loop: `if is_file or is_sym: curr[fname] = val` -/
def fin (lf : Option (Name × Str)) (r : HT) (c : Cursor) : Py HT :=
  match lf with
  | none => .ok r
  | some (k, v) => pySetItem r c k (.leaf v)

theorem liftE_bindE (x : Except Err HT) (f : HT → Except Err HT) :
    liftE (bindE x f) = Py.bind (liftE x) (fun c => liftE (f c)) := by
  cases x <;> rfl

theorem Py.bind_pure {α : Type} (x : Py α) : Py.bind x (fun a => .ok a) = x := by
  cases x <;> rfl

theorem Py.bind_pure_pair {α β : Type} (x : Py (α × β)) : Py.bind x (fun p => .ok (p.1, p.2)) = x := by
  cases x <;> rfl

/-! What one pass of the segment loop does, case by case (the only place where the text of
`dir_hashsums_body1` is looked at). -/

/-- `if seg == ".": continue` -/
theorem body1_dot (ret : HT) (cur : Cursor) :
    Gen.HashsumsFns.dir_hashsums_body1 ret cur ['.'] = .ok (ret, cur) := by
  simp [Gen.HashsumsFns.dir_hashsums_body1, Py.bind_pure_pair]

/-- `curr` rests on a `str` value: `TypeError` (from the store or from the subscript) -/
theorem body1_leaf (ret : HT) (cur : Cursor) (seg x : Str) (hd : seg ≠ ['.'])
    (h : ret.get cur = some (.leaf x)) :
    Gen.HashsumsFns.dir_hashsums_body1 ret cur seg = .error .typeError := by
  have h1 := setItem_leaf seg (.node []) cur ret x h
  cases hc : strContains x seg <;>
    simp [Gen.HashsumsFns.dir_hashsums_body1, hd, pyContains, pyGetItem, h, hc, h1]

/-- the key is new: an empty dict is stored, `curr` moves into it -/
theorem body1_new (ret : HT) (cur : Cursor) (seg : Str) (d : List (Name × HT)) (hd : seg ≠ ['.'])
    (h : ret.get cur = some (.node d)) (hs : dget seg d = none) :
    Gen.HashsumsFns.dir_hashsums_body1 ret cur seg =
      .ok (replaceAt ret cur (.node (dset seg (.node []) d)), cur ++ [seg]) := by
  have h1 := setItem_node seg (.node []) cur ret d h
  have g1 := get_replaceAt (.node (dset seg (.node []) d)) cur ret _ h
  simp [Gen.HashsumsFns.dir_hashsums_body1, hd, pyContains, pyGetItem, h, hs, h1, g1, dget_dset_same]

/-- the key exists: nothing is stored, `curr` moves to the value (dict or `str`) -/
theorem body1_old (ret : HT) (cur : Cursor) (seg : Str) (d : List (Name × HT)) (x : HT) (hd : seg ≠ ['.'])
    (h : ret.get cur = some (.node d)) (hs : dget seg d = some x) :
    Gen.HashsumsFns.dir_hashsums_body1 ret cur seg = .ok (ret, cur ++ [seg]) := by
  simp [Gen.HashsumsFns.dir_hashsums_body1, hd, pyContains, pyGetItem, h, hs]

/-- The segment loop of the source (walk / create the nested dicts through the alias `curr`,
skipping `"."`), followed by the final store, is the model's recursive `put` below the object
`curr` refers to. -/
theorem gen_seg_loop (lf : Option (Name × Str)) : ∀ (segs : List Str) (ret : HT) (cur : Cursor) (sub : HT),
    HTOk ret → ret.get cur = some sub →
    Py.bind (Gen.HashsumsFns.dir_hashsums_loop1 ret cur segs) (fun p => fin lf p.1 p.2) =
      Py.bind (liftE (put sub (segs.filter (· ≠ ['.'])) lf)) (fun s' => .ok (replaceAt ret cur s'))
  | [], ret, cur, sub, ok, h => by
    simp only [Gen.HashsumsFns.dir_hashsums_loop1, Py.bind_ok, List.filter_nil]
    cases lf with
    | none => simp [fin, put_nil_none, liftE, replaceAt_self cur ret sub ok h]
    | some kv =>
      obtain ⟨k, v⟩ := kv
      cases sub with
      | leaf x => simp [fin, put, liftE, liftErr, setItem_leaf k (.leaf v) cur ret x h]
      | node d => simp [fin, put, liftE, setItem_node k (.leaf v) cur ret d h]
  | seg :: rest, ret, cur, sub, ok, h => by
    simp only [Gen.HashsumsFns.dir_hashsums_loop1]
    by_cases hd : seg = ['.']
    · subst hd
      rw [body1_dot]
      have := gen_seg_loop lf rest ret cur sub ok h
      simpa using this
    · have hf : (seg :: rest).filter (· ≠ ['.']) = seg :: rest.filter (· ≠ ['.']) := by
        simp [List.filter, hd]
      rw [hf]
      cases sub with
      | leaf x =>
        rw [body1_leaf ret cur seg x hd h]
        simp only [put_cons_leaf, liftE, liftErr, Py.bind_error]
      | node d =>
        simp only [put_cons_node, liftE_bindE]
        have okd : HTOk (.node d) := HTOk_get cur ret _ ok h
        cases hs : dget seg d with
        | none =>
          have g1 := get_replaceAt (.node (dset seg (.node []) d)) cur ret _ h
          have ok1 : HTOk (replaceAt ret cur (.node (dset seg (.node []) d))) :=
            HTOk_replaceAt _ (okd.dset seg HTOk_empty) cur ret ok
          have g2 := get_snoc seg cur _ _ g1
          rw [dget_dset_same] at g2
          rw [body1_new ret cur seg d hd h hs]
          simp only [Py.bind_ok, Option.getD_none]
          rw [gen_seg_loop lf rest _ (cur ++ [seg]) (.node []) ok1 g2]
          cases put (.node []) (rest.filter (· ≠ ['.'])) lf with
          | error e => rfl
          | ok c =>
            simp only [liftE, Py.bind_ok]
            rw [replaceAt_snoc seg c cur _ _ (.node []) g1 (dget_dset_same _ _ _), dset_dset_same,
              replaceAt_replaceAt _ _ cur ret _ h]
        | some x =>
          have g2 := get_snoc seg cur ret d h
          rw [hs] at g2
          rw [body1_old ret cur seg d x hd h hs]
          simp only [Py.bind_ok, Option.getD_some]
          rw [gen_seg_loop lf rest ret (cur ++ [seg]) x ok g2]
          cases put x (rest.filter (· ≠ ['.'])) lf with
          | error e => rfl
          | ok c =>
            simp only [liftE, Py.bind_ok]
            rw [replaceAt_snoc seg c cur ret d x h hs]

/-- the tail of the loop body, started at the root (`curr = ret`) -/
theorem gen_put (ret : HT) (ok : HTOk ret) (relpath : Path) (lf : Option (Name × Str)) :
    Py.bind (Gen.HashsumsFns.dir_hashsums_loop1 ret [] (splitSlash (pathStr relpath)))
      (fun p => fin lf p.1 p.2) = liftE (put ret (dictSegs relpath) lf) := by
  rw [gen_seg_loop lf _ ret [] ret ok rfl]
  simp only [dictSegs, replaceAt]
  exact Py.bind_pure _

/-- One iteration of `for path in dir.rglob("*")` as the source has it = the model's `step`. -/
theorem gen_loop_body {σ : Type} (hl : HashLib σ) (t : FsTree) (alg : Str) (ret : HT) (ok : HTOk ret)
    (e : Entry) :
    Gen.HashsumsFns.dir_hashsums_body0 hl t alg ret e = liftE (step ⟨hl, alg, t.base⟩ ret e) := by
  have key : ∀ (relpath : Path) (lf : Option (Name × Str)) (k : HT × Cursor → Py HT),
      k = (fun p => fin lf p.1 p.2) →
      Py.bind (Gen.HashsumsFns.dir_hashsums_loop1 ret [] (splitSlash (pathStr relpath))) k =
        liftE (put ret (dictSegs relpath) lf) := by
    intro relpath lf k hk; subst hk; exact gen_put ret ok relpath lf
  -- the text of `dir_hashsums_body0` is only looked at by the `simp` calls below, one per kind
  -- of entry; each leaves (at most) the segment loop with the final store as continuation
  cases hs : e.node.isSymlink
  · cases hf : e.node.isFile
    · -- a directory
      simp [Gen.HashsumsFns.dir_hashsums_body0, step, entryVal, entryItem, hs, hf]
      apply key; funext p; simp [fin, Py.bind_pure]
    · -- a regular file
      cases hq : qualifiedHashsum hl e.node.readBytes alg with
      | error x =>
        simp [Gen.HashsumsFns.dir_hashsums_body0, step, entryVal, entryItem, hs, hf, pyFileHashsum, hq, liftE]
      | ok val =>
        simp [Gen.HashsumsFns.dir_hashsums_body0, step, entryVal, entryItem, hs, hf, pyFileHashsum, hq, liftE]
        apply key; funext p; simp [fin, Py.bind_pure]
  · -- a symlink (tested first, whatever `is_file` says)
    cases hr : relSymlink t.base e.node with
    | none =>
      simp [Gen.HashsumsFns.dir_hashsums_body0, step, entryVal, entryItem, hs, gen_rel_symlink t e hs, hr,
        liftE, liftErr]
    | some trg =>
      simp [Gen.HashsumsFns.dir_hashsums_body0, step, entryVal, entryItem, hs, gen_rel_symlink t e hs, hr,
        symlinkPrefix]
      apply key; funext p; simp [fin, Py.bind_pure]

/-- the `rglob` loop = the model's `build` -/
theorem gen_loop {σ : Type} (hl : HashLib σ) (t : FsTree) (alg : Str) : ∀ (l : List Entry) (ret : HT),
    HTOk ret →
    Gen.HashsumsFns.dir_hashsums_loop0 hl t alg ret l = liftE (build ⟨hl, alg, t.base⟩ ret l)
  | [], ret, _ => rfl
  | e :: l, ret, ok => by
    simp only [Gen.HashsumsFns.dir_hashsums_loop0, build, gen_loop_body hl t alg ret ok e]
    cases hst : step ⟨hl, alg, t.base⟩ ret e with
    | error x => rfl
    | ok ret' =>
      have ok' : HTOk ret' := by
        simp only [step] at hst
        cases hv : entryVal ⟨hl, alg, t.base⟩ e.node with
        | error x => rw [hv] at hst; simp at hst
        | ok val => rw [hv] at hst; exact put_ok _ ret ret' _ ok hst
      simp only [liftE, Py.bind_ok]
      exact gen_loop hl t alg l ret' ok'

/-- `dir_hashsums(dir, alg)` as the source has it = the model's `dirHashsums` — every theorem of
`Props/C19.lean` about `dirHashsums` is a theorem about the translated text. -/
theorem gen_dir_hashsums {σ : Type} (hl : HashLib σ) (t : FsTree) (alg : Str) :
    Gen.HashsumsFns.dir_hashsums hl t alg = liftE (dirHashsums hl alg t) := by
  simp only [Gen.HashsumsFns.dir_hashsums, dirHashsums, gen_loop hl t alg t.entries _ HTOk_empty]
  exact Py.bind_pure _

/-- the default `alg=DEF_HASH_ALG` -/
theorem gen_dir_hashsums_default {σ : Type} (hl : HashLib σ) (t : FsTree) :
    Gen.HashsumsFns.dir_hashsums_d hl t = liftE (dirHashsums hl sha256 t) := by
  simp only [Gen.HashsumsFns.dir_hashsums_d, gen_dir_hashsums, gen_default_alg]

/-- consequently the translated text raises nothing but `ValueError` / `TypeError`: the `assert`
never fails, `os.readlink` is only called on symlinks, no `KeyError`, no stale alias -/
theorem gen_errors {σ : Type} (hl : HashLib σ) (t : FsTree) (alg : Str) (x : PyErr)
    (h : Gen.HashsumsFns.dir_hashsums hl t alg = .error x) : x = .valueError ∨ x = .typeError := by
  rw [gen_dir_hashsums] at h
  cases hd : dirHashsums hl alg t with
  | ok r => rw [hd] at h; simp [liftE] at h
  | error y =>
    rw [hd] at h; simp only [liftE, Except.error.injEq] at h; subst h
    cases y <;> simp [liftErr]

end MetadorModel.Bridge.HashsumsFns
