import MetadorModel.Py.PatchPy
import MetadorModel.Proofs.RecordSpec
/-!
# Lemmas about the value dictionary `Py/PatchPy.lean` alone (C11 translation tie)

Nothing generated is imported here: these are facts about Python lists / dicts as modelled, about the
passage `World.ofState` / `World.state` between the record model's state and the Python object, and about
the effect summary `resOf`. They are used by the bridge modules `Bridge/PatchSteps*.lean`.
-/
set_option linter.unusedSimpArgs false
set_option linter.unusedVariables false
namespace MetadorModel.Bridge.PatchSteps
open MetadorModel.FindFiles MetadorModel.Record MetadorModel.RecordPy MetadorModel.PatchPy

variable {α : Type}

theorem nil_or_snoc (l : List α) : l = [] ∨ ∃ init x, l = init ++ [x] := by
  rcases List.eq_nil_or_concat l with h | ⟨a, b, h⟩
  · exact Or.inl h
  · exact Or.inr ⟨a, b, by rw [h, List.concat_eq_append]⟩

/-! ## Python list indexing at the ends -/

theorem pyIdx_last_snoc (init : List α) (x : α) : pyIdx (init ++ [x]) (-1 : Int) = .ok x := by
  simp only [pyIdx, List.length_append, List.length_cons, List.length_nil]
  have h1 : ((-1 : Int) < 0) := by omega
  simp only [h1, if_true]
  have h2 : ¬ ((-1 : Int) + ((init.length + (0 + 1) : Nat) : Int) < 0) := by omega
  simp only [h2, if_false]
  have h3 : ((-1 : Int) + ((init.length + (0 + 1) : Nat) : Int)).toNat = init.length := by omega
  rw [h3]
  simp

theorem pyIdx_last_nil : pyIdx ([] : List α) (-1 : Int) = .error .indexError := by
  simp [pyIdx]

theorem pyIdx_last (l : List α) : pyIdx l (-1 : Int) = match l.getLast? with
    | some x => .ok x | none => .error .indexError := by
  rcases nil_or_snoc l with rfl | ⟨init, x, rfl⟩
  · simp [pyIdx]
  · rw [pyIdx_last_snoc]; simp

theorem pyIdx_zero_cons (x : α) (r : List α) : pyIdx (x :: r) (0 : Int) = .ok x := by
  simp [pyIdx]

theorem pyIdx_zero_nil : pyIdx ([] : List α) (0 : Int) = .error .indexError := by
  simp [pyIdx]

theorem pySetIdx_last_snoc (init : List α) (x y : α) : pySetIdx (init ++ [x]) (-1 : Int) y = .ok (init ++ [y]) := by
  simp only [pySetIdx, List.length_append, List.length_cons, List.length_nil]
  have h1 : ((-1 : Int) < 0) := by omega
  simp only [h1, if_true]
  have h2 : ¬ ((-1 : Int) + ((init.length + (0 + 1) : Nat) : Int) < 0) := by omega
  simp only [h2, if_false]
  have h3 : ((-1 : Int) + ((init.length + (0 + 1) : Nat) : Int)).toNat = init.length := by omega
  rw [h3]
  simp

theorem pyIdx_nat_lt (l : List α) (i : Nat) (h : i < l.length) : pyIdx l (Int.ofNat i) = .ok (l[i]'h) := by
  simp only [pyIdx]
  have h1 : ¬ ((Int.ofNat i) < 0) := by simp
  simp only [h1, if_false]
  simp [h]

theorem pySetIdx_nat_lt (l : List α) (i : Nat) (v : α) (h : i < l.length) :
    pySetIdx l (Int.ofNat i) v = .ok (l.set i v) := by
  simp only [pySetIdx]
  have h1 : ¬ ((Int.ofNat i) < 0) := by simp
  simp only [h1, if_false]
  simp [h]

theorem pyPop_snoc (init : List α) (x : α) : pyPop (init ++ [x]) = .ok (x, init) := by
  simp [pyPop]

theorem pyPop_nil : pyPop ([] : List α) = .error .indexError := by
  simp [pyPop]

/-! ## dicts -/

theorem pyDictGet_snoc_new (l : List (Name × UB)) (f : Name) (u : UB) (h : f ∉ l.map Prod.fst) :
    pyDictGet (l ++ [(f, u)]) f = .ok u := by
  induction l with
  | nil => simp [pyDictGet]
  | cons a r ih =>
    obtain ⟨k, v⟩ := a
    simp only [List.map_cons, List.mem_cons, not_or] at h
    have hk : k ≠ f := fun e => h.1 e.symm
    simp only [List.cons_append, pyDictGet, hk, if_false]
    exact ih h.2

theorem pyDictGet_snoc_old (l : List (Name × UB)) (f g : Name) (u : UB) (h : g ≠ f) :
    pyDictGet (l ++ [(f, u)]) g = pyDictGet l g := by
  induction l with
  | nil => simp [pyDictGet, Ne.symm h]
  | cons a r ih =>
    obtain ⟨k, v⟩ := a
    simp only [List.cons_append, pyDictGet]
    by_cases hk : k = g
    · simp [hk]
    · simp only [hk, if_false]; exact ih

theorem pyDictGet_mem (l : List (Name × UB)) (f : Name) (u : UB) (hn : (l.map Prod.fst).Nodup) (hm : (f, u) ∈ l) :
    pyDictGet l f = .ok u := by
  induction l with
  | nil => cases hm
  | cons a r ih =>
    obtain ⟨k, v⟩ := a
    simp only [List.map_cons, List.nodup_cons] at hn
    rcases List.mem_cons.mp hm with e | hm'
    · cases e; simp [pyDictGet]
    · have hk : k ≠ f := by
        intro e; subst e
        exact hn.1 (List.mem_map.mpr ⟨(k, u), hm', rfl⟩)
      simp only [pyDictGet, hk, if_false]
      exact ih hn.2 hm'

theorem pyDictSet_new (l : List (Name × UB)) (f : Name) (v : UB) (h : f ∉ l.map Prod.fst) :
    pyDictSet l f v = l ++ [(f, v)] := by
  induction l with
  | nil => simp [pyDictSet]
  | cons a r ih =>
    obtain ⟨k, w⟩ := a
    simp only [List.map_cons, List.mem_cons, not_or] at h
    have hk : k ≠ f := fun e => h.1 e.symm
    simp only [pyDictSet, hk, if_false, List.cons_append]
    rw [ih h.2]

theorem pyDictSet_snoc (l : List (Name × UB)) (f : Name) (u v : UB) (h : f ∉ l.map Prod.fst) :
    pyDictSet (l ++ [(f, u)]) f v = l ++ [(f, v)] := by
  induction l with
  | nil => simp [pyDictSet]
  | cons a r ih =>
    obtain ⟨k, w⟩ := a
    simp only [List.map_cons, List.mem_cons, not_or] at h
    have hk : k ≠ f := fun e => h.1 e.symm
    simp only [List.cons_append, pyDictSet, hk, if_false]
    rw [ih h.2]

theorem pyDictDel_snoc (l : List (Name × UB)) (f : Name) (u : UB) (h : f ∉ l.map Prod.fst) :
    pyDictDel (l ++ [(f, u)]) f = .ok l := by
  induction l with
  | nil => simp [pyDictDel]
  | cons a r ih =>
    obtain ⟨k, w⟩ := a
    simp only [List.map_cons, List.mem_cons, not_or] at h
    have hk : k ≠ f := fun e => h.1 e.symm
    simp only [List.cons_append, pyDictDel, hk, if_false]
    rw [ih h.2]

/-- the entry of a dict under a name, `default` when there is none (as `Obj.handle` reads it) -/
def lookD (d : List (Name × UB)) (n : Name) : UB :=
  match pyDictGet d n with | .ok u => u | .error _ => default

/-- the model's file list of an object: the names of the handles with their entries -/
def pairUp (d : List (Name × UB)) (ns : List Name) : List (Name × UB) := ns.map (fun n => (n, lookD d n))

theorem handle_files (o : Obj) : o.handle.files = pairUp o.ublocks (o.files.map H5.name) := by
  simp [Obj.handle, pairUp, lookD, List.map_map, Function.comp_def]
  intro a _; rfl

theorem pairUp_congr (d d' : List (Name × UB)) (ns : List Name) (h : ∀ n ∈ ns, pyDictGet d' n = pyDictGet d n) :
    pairUp d' ns = pairUp d ns := by
  unfold pairUp
  apply List.map_congr_left
  intro n hn
  simp [lookD, h n hn]

theorem pairUp_self (l : List (Name × UB)) (hn : (l.map Prod.fst).Nodup) : pairUp l (l.map Prod.fst) = l := by
  unfold pairUp
  rw [List.map_map]
  conv => rhs; rw [← List.map_id l]
  apply List.map_congr_left
  intro x hx
  obtain ⟨k, v⟩ := x
  simp [lookD, pyDictGet_mem l k v hn hx]

theorem pairUp_append (d : List (Name × UB)) (a b : List Name) : pairUp d (a ++ b) = pairUp d a ++ pairUp d b := by
  simp [pairUp]

/-! ## the handles of a model state -/

def ro (x : Name × UB) : H5 := ⟨x.1, false, true⟩

theorem mkHandles_snoc (init : List (Name × UB)) (f : Name) (u : UB) (rw : Bool) :
    mkHandles (init ++ [(f, u)]) rw = init.map ro ++ [⟨f, rw, true⟩] := by
  induction init with
  | nil => simp [mkHandles]
  | cons a r ih =>
    obtain ⟨k, v⟩ := a
    rcases nil_or_snoc r with rfl | ⟨r', y, rfl⟩
    · simp [mkHandles, ro]
    · have : (k, v) :: (r' ++ [y]) ++ [(f, u)] = (k, v) :: ((r' ++ [y]) ++ [(f, u)]) := rfl
      rw [this]
      cases hr : (r' ++ [y]) ++ [(f, u)] with
      | nil => simp at hr
      | cons z t =>
        rw [mkHandles, ← hr, ih]
        simp [ro]

theorem mkHandles_names (l : List (Name × UB)) (rw : Bool) : (mkHandles l rw).map H5.name = l.map Prod.fst := by
  rcases nil_or_snoc l with rfl | ⟨init, ⟨f, u⟩, rfl⟩
  · simp [mkHandles]
  · rw [mkHandles_snoc]; simp [ro, Function.comp_def]

theorem mkHandles_length (l : List (Name × UB)) (rw : Bool) : (mkHandles l rw).length = l.length := by
  have := congrArg List.length (mkHandles_names l rw)
  simpa using this

theorem lastIsRW_mkHandles (l : List (Name × UB)) (rw : Bool) : lastIsRW (mkHandles l rw) = (!l.isEmpty && rw) := by
  rcases nil_or_snoc l with rfl | ⟨init, ⟨f, u⟩, rfl⟩
  · simp [mkHandles, lastIsRW]
  · rw [mkHandles_snoc]; simp [lastIsRW]

theorem any_live_mkHandles (l : List (Name × UB)) (rw : Bool) (p : Name) :
    (mkHandles l rw).any (fun h => h.live && h.name == p) = (l.map Prod.fst).contains p := by
  rcases nil_or_snoc l with rfl | ⟨init, ⟨f, u⟩, rfl⟩
  · simp [mkHandles]
  · rw [mkHandles_snoc]
    simp only [List.any_append, List.any_map, List.any_cons, List.any_nil, Bool.or_false, Bool.true_and,
      List.map_append, List.map_cons, List.map_nil, List.contains_eq_any_beq, Function.comp_def, ro]
    rw [Bool.beq_comm (a := p) (b := f)]
    congr 1
    induction init with
    | nil => rfl
    | cons a r ih => simp [List.any_cons, ih, Bool.beq_comm (a := p)]

theorem hasWritable_eq (h : Handle) : hasWritable h = lastIsRW (Obj.ofHandle h).files := by
  simp [Obj.ofHandle, lastIsRW_mkHandles, hasWritable]

/-- going to the Python object and back is the identity when no two files of the handle share a name
(`_ublocks` is a dict keyed by file name) -/
theorem handle_ofHandle (h : Handle) (hn : (fileNames h).Nodup) (hrw : h.lastRW = true → h.files ≠ []) :
    (Obj.ofHandle h).handle = h := by
  have hf : (Obj.ofHandle h).handle.files = h.files := by
    rw [handle_files]
    simp only [Obj.ofHandle, mkHandles_names]
    exact pairUp_self _ hn
  have hl : (Obj.ofHandle h).handle.lastRW = h.lastRW := by
    simp only [Obj.handle, Obj.ofHandle, lastIsRW_mkHandles]
    cases hr : h.lastRW
    · simp
    · have := hrw hr
      cases hfs : h.files with
      | nil => exact absurd hfs this
      | cons a r => simp
  cases h
  simp only [Obj.handle, Obj.ofHandle] at hf hl ⊢
  simp only [hf, hl]

/-! ## projections of `World.ofState` (simp normal form: everything in terms of `s`) -/

theorem ofState_disk (s : State) : (World.ofState s).disk = s.disk := rfl
theorem ofState_next (s : State) : (World.ofState s).next = s.next := rfl
theorem ofState_trace (s : State) : (World.ofState s).trace = [] := rfl
theorem ofState_self (s : State) : (World.ofState s).self = Obj.ofHandle s.h := rfl
theorem ofHandle_files (h : Handle) : (Obj.ofHandle h).files = mkHandles h.files h.lastRW := rfl
theorem ofHandle_ublocks (h : Handle) : (Obj.ofHandle h).ublocks = h.files := rfl
theorem ofHandle_closed (h : Handle) : (Obj.ofHandle h).closed = h.closed := rfl
theorem ofHandle_allow (h : Handle) : (Obj.ofHandle h).allow = h.allow := rfl
theorem ofHandle_mfcls (h : Handle) : (Obj.ofHandle h).mfcls = h.mfcls := rfl
theorem ofHandle_manifest (h : Handle) : (Obj.ofHandle h).manifest = h.manifest := rfl

/-! ## the disk -/

theorem setF_setF (d : Disk) (f : Name) (a b : File) : setF (setF d f a) f b = setF d f b := by
  induction d with
  | nil => simp [setF]
  | cons x r ih =>
    obtain ⟨k, w⟩ := x
    by_cases hk : k = f
    · simp [setF, hk]
    · simp [setF, hk, ih]

theorem uniq_single (f : Name) : uniq [f] = [f] := by simp [uniq]

theorem uniq_pair (f : Name) : uniq [f, f] = [f] := by simp [uniq]

end MetadorModel.Bridge.PatchSteps
