import MetadorModel.Bridge.SubtypeFnsChecks
/-! Bridge (continued): the field policy of `SchemaMagic.__new__` (schema/core.py) and the decorators `make_mandatory`,
`add_const_fields`, `override` (schema/decorators.py), translated on every `./check C13` run (`Gen/SubtypeFns.lean`),
refuse a class definition exactly when the model's `defineOk` does, with the same kind of exception. -/
namespace MetadorModel.Bridge.SubtypeFns
open MetadorModel MetadorModel.Codec MetadorModel.Subtype MetadorModel.SubtypePy

/-! ## schema/core.py: the field policy of `SchemaMagic.__new__` -/

/-- the refusals of `defineOk` that come from the metaclass -/
def policyOk (T : Table) (c : ClassDef) : Except Refusal Unit :=
  let own := c.fields.map (fun f => f.1)
  let parentForbids := parentExtraOf T c == .forbid
  if own.any (fun n => hasKey n (baseConsts T c)) then .error .typeError
  else if parentForbids && effExtra T c != .forbid then .error .typeError
  else if parentForbids && own.any (fun n => (getHint n (baseHints T c)).isNone) then .error .typeError
  else .ok ()

/-- the refusals of `defineOk` that come from `make_mandatory` -/
def mandatoryOk (T : Table) (c : ClassDef) : Except Refusal Unit :=
  if c.mandatory.any (fun n => ((getHint n (baseHints T c)).isNone && !hasKey n (baseConsts T c)) ||
      (c.fields.map (fun f => f.1)).contains n)
  then .error .valueError else .ok ()

def constsOk (T : Table) (c : ClassDef) : Except Refusal Unit :=
  firstErr (c.consts.map (constOk T c (C13.decoratorHints T c) (baseConsts T c) (parentExtraOf T c == .forbid)))

/-- `defineOk` is the sequence metaclass, `make_mandatory`, `add_const_fields` -/
theorem defineOk_eq (T : Table) (c : ClassDef) :
    defineOk T c = (policyOk T c).bind fun _ => (mandatoryOk T c).bind fun _ => constsOk T c := by
  unfold defineOk policyOk mandatoryOk constsOk C13.decoratorHints parentExtraOf
  simp only []
  split_ifs <;> first | rfl | contradiction

theorem dictKeys_fieldsOf (hints : List (Str × Ty)) (bc : List (Str × Json)) :
    dictKeys (fieldsOf hints bc) = hints.map (·.1) ++ dictKeys bc := by
  simp [fieldsOf, dictKeys, Function.comp_def]

theorem mem_keys_declHints (T : Table) (c : ClassDef) (x : Str) :
    x ∈ (declHints T c).map (·.1) ↔ (getHint x (baseHints T c)).isSome = true ∨ x ∈ c.fields.map (fun f => f.1) := by
  rw [mem_keys_getHint, declHints, getHint_foldl_setHint_isSome]
  simp [List.map_map, Function.comp_def]

/-- the checks of `SchemaMagic.__new__` after the class is built are the metaclass refusals of the model -/
theorem gen_new_policy (T : Table) (c : ClassDef) :
    (Gen.SubtypeFns.new_policy (viewBase T c) (viewNew T c)).map (fun _ => ()) = ofRefusal (policyOk T c) := by
  have hI : (setInter (dictKeys (viewNew T c).annotations) (dictKeys (viewBase T c).constants)).isEmpty =
      !(c.fields.map (fun f => f.1)).any (fun n => hasKey n (baseConsts T c)) := by
    simp only [setInter, isEmpty_filter, viewNew, viewBase, dictKeys_hintsOf, List.map_map, Function.comp_def]
    congr 2; funext m
    rw [Bool.eq_iff_iff, hasKey_iff]; simp
  have hD : ∀ (_ : (c.fields.map (fun f => f.1)).any (fun n => hasKey n (baseConsts T c)) = false),
      (setDiff (dictKeys (viewNew T c).fields) (dictKeys (viewBase T c).fields)).isEmpty =
      !(c.fields.map (fun f => f.1)).any (fun n => (getHint n (baseHints T c)).isNone) := by
    intro hno
    rw [Bool.eq_iff_iff]
    simp only [List.isEmpty_iff, List.eq_nil_iff_forall_not_mem, mem_setDiff, viewNew, viewBase, dictKeys_fieldsOf,
      List.mem_append, mem_keys_declHints, Bool.not_eq_true', List.any_eq_false, Option.isNone_iff_eq_none]
    constructor
    · intro h x hx hnone
      have := h x
      simp only [mem_keys_getHint, hnone] at this
      simp only [List.any_eq_false] at hno
      have h2 := hno x hx
      rw [← hasKey_iff] at this
      simp_all
    · intro h x
      rintro ⟨h1, h2⟩
      rw [mem_keys_getHint] at h2
      rcases h1 with (h1 | h1) | h1
      · exact h2 (Or.inl h1)
      · have := h x h1
        cases hg : getHint x (baseHints T c) <;> simp_all
      · exact h2 (Or.inr h1)
  have hE : (viewBase T c).extra = parentExtraOf T c := rfl
  have hE2 : (viewNew T c).extra = effExtra T c := rfl
  have hC : (dictKeys (viewBase T c).constants).isEmpty = true →
      (c.fields.map (fun f => f.1)).any (fun n => hasKey n (baseConsts T c)) = false := by
    intro h
    simp only [viewBase, List.isEmpty_iff, dictKeys, List.map_eq_nil_iff] at h
    simp [h, hasKey]
  unfold policyOk
  simp only [Gen.SubtypeFns.new_policy, hE, hE2, hI]
  by_cases h0 : (dictKeys (viewBase T c).constants).isEmpty = true
  · have hno := hC h0
    simp only [h0, Bool.not_true, Bool.false_eq_true, if_false, hno, hD hno, extra_beq]
    by_cases hp : parentExtraOf T c = .forbid
    · by_cases he : effExtra T c = .forbid
      · cases hq : (c.fields.map (fun f => f.1)).any (fun n => (getHint n (baseHints T c)).isNone) <;>
          simp [hp, he, hq, ofRefusal] <;> rfl
      · simp [hp, he, ofRefusal]; rfl
    · simp [hp, ofRefusal]; rfl
  · have h0' : (dictKeys (viewBase T c).constants).isEmpty = false := by simpa using h0
    simp only [h0', Bool.not_false, if_true]
    cases hno : (c.fields.map (fun f => f.1)).any (fun n => hasKey n (baseConsts T c))
    · simp only [Bool.not_false, Bool.not_true, Bool.false_eq_true, if_false, hD hno, extra_beq]
      by_cases hp : parentExtraOf T c = .forbid
      · by_cases he : effExtra T c = .forbid
        · cases hq : (c.fields.map (fun f => f.1)).any (fun n => (getHint n (baseHints T c)).isNone) <;>
            simp [hp, he, hq, ofRefusal] <;> rfl
        · simp [hp, he, ofRefusal]; rfl
      · simp [hp, ofRefusal]; rfl
    · simp [ofRefusal]; rfl


/-! ## schema/decorators.py -/

/-- first failure of a sequence of checks -/
def firstE : List (E Unit) → E Unit
  | [] => pure ()
  | .ok _ :: r => firstE r
  | .error e :: _ => throw e

theorem ofRefusal_firstErr (l : List (Except Refusal Unit)) : ofRefusal (firstErr l) = firstE (l.map ofRefusal) := by
  induction l with
  | nil => rfl
  | cons r l ih =>
    cases r with
    | ok u => cases u; simpa [firstErr, firstE, ofRefusal] using ih
    | error e => cases e <;> rfl

/-- a loop whose body either refuses an element (whatever the loop state is) or goes on with a new state -/
theorem foldlM_outcome {σ α : Type} (F : σ → α → E σ) (I : List α → σ → Prop) (r : α → E Unit) :
    ∀ (l : List α) (s : σ), I l s →
      (∀ a rest s, I (a :: rest) s →
        match r a with
        | .ok _ => ∃ s', F s a = pure s' ∧ I rest s'
        | .error e => F s a = throw e) →
      (List.foldlM F s l).map (fun _ => ()) = firstE (l.map r) := by
  intro l
  induction l with
  | nil => intro s _ _; rfl
  | cons a l ih =>
    intro s hI hstep
    have h := hstep a l s hI
    rw [List.foldlM_cons, List.map_cons]
    cases hr : r a with
    | ok u =>
      rw [hr] at h
      obtain ⟨s', hF, hI'⟩ := h
      rw [hF]
      simp only [pure_bind, firstE]
      exact ih s' hI' hstep
    | error e =>
      rw [hr] at h
      rw [h]
      rfl

theorem gen_check_names_public (names : List Str) (h : ∀ x ∈ names, PubName x) :
    Gen.SubtypeFns._check_names_public names = pure () := by
  simp only [Gen.SubtypeFns._check_names_public]
  rw [filterM_pure _ (fun _ => false)]
  · simp
  · intro a ha
    simp [gen_is_public_name a (h a ha)]

@[simp] theorem gen_expect_schema_class (v : ClsView) : Gen.SubtypeFns._expect_schema_class v = pure () := rfl

/-- `override` only records the names -/
theorem gen_override (names : List Str) (v : ClsView) (h : ∀ x ∈ names, PubName x) :
    Gen.SubtypeFns.override names v = pure { v with overrides := v.overrides ++ names } := by
  simp [Gen.SubtypeFns.override, gen_check_names_public names h]

theorem dictHas_dictSet {α : Type} (x k : Str) (v : α) (d : List (Str × α)) :
    dictHas (dictSet k v d) x = (x == k || dictHas d x) := by
  rw [Bool.eq_iff_iff]
  simp only [dictHas, dictGet?_isSome, mem_dictKeys_dictSet, Bool.or_eq_true, beq_iff_eq]

theorem dictGet?_dictSet_ne {α : Type} (x k : Str) (v : α) (d : List (Str × α)) (h : x ≠ k) :
    dictGet? x (dictSet k v d) = dictGet? x d := by
  induction d with
  | nil =>
    have : (x == k) = false := by simpa using h
    simp [dictSet, dictGet?, this]
  | cons p d ih =>
    obtain ⟨k', v'⟩ := p
    simp only [dictSet]
    by_cases hk : k = k'
    · subst hk
      have : (x == k) = false := by simpa using h
      simp [dictGet?, this]
    · have : (k == k') = false := by simpa using hk
      simp only [this, Bool.false_eq_true, if_false, dictGet?, ih]

/-- what `make_mandatory` requires of a name, on the class before the decorator ran -/
def mandOk (v : ClsView) (a : Str) : Bool := dictHas v.fields a && !dictHas v.annotations a

theorem gen_make_mandatory_view (names : List Str) (v0 : ClsView) (hpub : ∀ x ∈ names, PubName x) (hnd : names.Nodup)
    (hpar : ∀ k, dictHas v0.fields k = true → dictHas v0.annotations k = false → dictHas v0.parentHints k = true) :
    (Gen.SubtypeFns.make_mandatory names v0).map (fun _ => ()) =
      if names.all (mandOk v0) then pure () else throw .valueError := by
  simp only [Gen.SubtypeFns.make_mandatory, gen_check_names_public names hpub, pure_bind, gen_expect_schema_class]
  simp only [bind_pure]
  have hfin : ∀ l : List Str, firstE (l.map (fun a => if mandOk v0 a then (pure () : E Unit) else throw .valueError)) =
      if l.all (mandOk v0) then pure () else throw .valueError := by
    intro l
    induction l with
    | nil => rfl
    | cons a l ih =>
      cases h : mandOk v0 a
      · simp only [List.map_cons, h, Bool.false_eq_true, if_false, List.all_cons, Bool.false_and]; rfl
      · simp only [List.map_cons, h, if_true, List.all_cons, Bool.true_and, ← ih]; rfl
  rw [← hfin]
  refine foldlM_outcome _
    (fun rest v => rest.Nodup ∧ v.parentHints = v0.parentHints ∧
      ∀ k ∈ rest, dictHas v.fields k = dictHas v0.fields k ∧ dictHas v.annotations k = dictHas v0.annotations k)
    (fun a => if mandOk v0 a then pure () else throw .valueError)
    names v0 ⟨hnd, rfl, fun _ _ => ⟨rfl, rfl⟩⟩ ?_
  · intro a rest s ⟨hnd', hph, hinv⟩
    obtain ⟨hf, ha⟩ := hinv a (by simp)
    have hnd'' := List.nodup_cons.mp hnd'
    cases hm : mandOk v0 a
    · simp only [hm, Bool.false_eq_true, if_false]
      simp only [mandOk, Bool.and_eq_false_iff, Bool.not_eq_false'] at hm
      rcases hm with hm | hm
      · simp [hf, hm]; rfl
      · cases hf0 : dictHas v0.fields a <;> simp [hf, ha, hm, hf0] <;> rfl
    · simp only [hm, if_true]
      simp only [mandOk, Bool.and_eq_true, Bool.not_eq_true'] at hm
      obtain ⟨hm1, hm2⟩ := hm
      have hp := hpar a hm1 hm2
      obtain ⟨ph, hph'⟩ := Option.isSome_iff_exists.mp (show (dictGet? a v0.parentHints).isSome = true from hp)
      obtain ⟨fd, hfd⟩ := Option.isSome_iff_exists.mp (show (dictGet? a s.fields).isSome = true by
        have := hf; simp only [dictHas] at this; rw [this]; exact hm1)
      refine ⟨{ s with fields := dictSet a { fd with required := true } s.fields,
                       annotations := dictSet a (unoptional ph) s.annotations }, ?_, ?_⟩
      · simp only [hf, ha, hm1, hm2, Bool.not_true, Bool.false_eq_true, if_false, fieldParentType, hph, hph', dictGet, hfd,
          pure_bind]
      · refine ⟨hnd''.2, hph, ?_⟩
        intro k hk
        have hne : k ≠ a := fun h => hnd''.1 (h ▸ hk)
        have hne' : (k == a) = false := by simpa using hne
        obtain ⟨h1, h2⟩ := hinv k (by simp [hk])
        simp [dictHas_dictSet, hne', h1, h2]


theorem dictHas_iff {α : Type} (d : List (Str × α)) (x : Str) : dictHas d x = true ↔ x ∈ dictKeys d := by
  simp only [dictHas, dictGet?_isSome]

theorem viewNew_fields_has (T : Table) (c : ClassDef) (a : Str) :
    dictHas (viewNew T c).fields a = true ↔
      ((getHint a (baseHints T c)).isSome = true ∨ a ∈ c.fields.map (fun f => f.1)) ∨ hasKey a (baseConsts T c) = true := by
  rw [dictHas_iff, viewNew, dictKeys_fieldsOf, List.mem_append, mem_keys_declHints, hasKey_iff]

theorem viewNew_ann_has (T : Table) (c : ClassDef) (a : Str) :
    dictHas (viewNew T c).annotations a = true ↔ a ∈ c.fields.map (fun f => f.1) := by
  rw [dictHas_iff, viewNew, dictKeys_hintsOf]; simp [List.map_map, Function.comp_def]

theorem viewNew_parent_has (T : Table) (c : ClassDef) (a : Str) :
    dictHas (viewNew T c).parentHints a = true ↔ (getHint a (baseHints T c)).isSome = true ∨ hasKey a (baseConsts T c) = true := by
  rw [dictHas_iff, viewNew]
  simp only [dictKeys, List.map_append, List.mem_append]
  rw [← mem_keys_getHint, hasKey_iff]
  simp [hintsOf, anyOf, dictKeys]

/-- `make_mandatory` on the class the metaclass has built refuses exactly what the model's `defineOk` refuses for
the decorator (public names, no name twice) -/
theorem gen_make_mandatory (T : Table) (c : ClassDef) (hpub : ∀ x ∈ c.mandatory, PubName x) (hnd : c.mandatory.Nodup) :
    (Gen.SubtypeFns.make_mandatory c.mandatory (viewNew T c)).map (fun _ => ()) = ofRefusal (mandatoryOk T c) := by
  rw [gen_make_mandatory_view c.mandatory (viewNew T c) hpub hnd]
  · have : c.mandatory.all (mandOk (viewNew T c)) =
        !c.mandatory.any (fun n => ((getHint n (baseHints T c)).isNone && !hasKey n (baseConsts T c)) ||
          (c.fields.map (fun f => f.1)).contains n) := by
      rw [Bool.eq_iff_iff]
      simp only [List.all_eq_true, Bool.not_eq_true', List.any_eq_false, mandOk, Bool.and_eq_true, viewNew_fields_has]
      constructor
      · intro h x hx
        obtain ⟨h1, h2⟩ := h x hx
        have h2' : ¬ x ∈ c.fields.map (fun f => f.1) := by
          rw [← viewNew_ann_has T c x]; simpa using h2
        cases hg : getHint x (baseHints T c) <;> cases hk : hasKey x (baseConsts T c) <;> simp_all
      · intro h x hx
        have := h x hx
        have hx' : ¬ x ∈ c.fields.map (fun f => f.1) := by
          intro hmem; simp [hmem] at this
        refine ⟨?_, ?_⟩
        · cases hg : getHint x (baseHints T c) <;> cases hk : hasKey x (baseConsts T c) <;> simp_all
        · cases hh : dictHas (viewNew T c).annotations x
          · rfl
          · exact absurd ((viewNew_ann_has T c x).mp hh) hx'
    rw [this, mandatoryOk]
    cases c.mandatory.any (fun n => ((getHint n (baseHints T c)).isNone && !hasKey n (baseConsts T c)) ||
          (c.fields.map (fun f => f.1)).contains n) <;> rfl
  · intro k h1 h2
    rw [viewNew_parent_has]
    have h1' := (viewNew_fields_has T c k).mp h1
    have h2' : ¬ k ∈ c.fields.map (fun f => f.1) := by
      rw [← viewNew_ann_has T c k]; simp [h2]
    tauto


theorem dictGet?_map_val {α β : Type} (k : Str) (f : α → β) (l : List (Str × α)) :
    dictGet? k (l.map (fun p => (p.1, f p.2))) = (dictGet? k l).map f := by
  induction l with
  | nil => rfl
  | cons p l ih =>
    obtain ⟨k', v⟩ := p
    simp only [List.map_cons, dictGet?]
    split
    · rfl
    · exact ih

theorem dictGet?_fieldsOf (k : Str) (hints : List (Str × Ty)) (bc : List (Str × Json)) :
    dictGet? k (fieldsOf hints bc) =
      match getHint k hints with
      | some t => some (fieldOfHint (.ty t))
      | none => if hasKey k bc then some (fieldOfHint .optAny) else none := by
  have h1 : dictGet? k (hints.map (fun p => (p.1, fieldOfHint (.ty p.2)))) = (getHint k hints).map (fun t => fieldOfHint (.ty t)) := by
    rw [getHint_eq_dictGet?]; exact dictGet?_map_val k (fun t => fieldOfHint (.ty t)) hints
  have h2 : dictGet? k (bc.map (fun p => (p.1, fieldOfHint .optAny))) = if hasKey k bc then some (fieldOfHint .optAny) else none := by
    rw [dictGet?_map_val k (fun _ => fieldOfHint .optAny) bc]
    have := dictHas_eq_hasKey k bc
    simp only [dictHas] at this
    cases hg : dictGet? k bc <;> simp_all
  rw [fieldsOf, dictGet?_append, h1, h2]
  cases getHint k hints <;> simp

theorem singletonTy_inner : ∀ (t t' : Ty), singletonTy t = some t' → innerTy t = t'
  | .opt t, t', h => by simp only [singletonTy] at h; simpa [innerTy] using singletonTy_inner t t' h
  | .ann t, t', h => by simp only [singletonTy] at h; simpa [innerTy] using singletonTy_inner t t' h
  | .list _, _, h => by simp [singletonTy] at h
  | .set _, _, h => by simp [singletonTy] at h
  | .bool, _, h => by simp [singletonTy] at h; simp [innerTy, ← h]
  | .int, _, h => by simp [singletonTy] at h; simp [innerTy, ← h]
  | .float, _, h => by simp [singletonTy] at h; simp [innerTy, ← h]
  | .str, _, h => by simp [singletonTy] at h; simp [innerTy, ← h]
  | .cstr _, _, h => by simp [singletonTy] at h; simp [innerTy, ← h]
  | .opq _, _, h => by simp [singletonTy] at h; simp [innerTy, ← h]
  | .lit _, _, h => by simp [singletonTy] at h; simp [innerTy, ← h]
  | .union _, _, h => by simp [singletonTy] at h; simp [innerTy, ← h]
  | .model _ _ _ _, _, h => by simp [singletonTy] at h; simp [innerTy, ← h]

theorem gen_is_subtype_litOf (T : Table) (fuel : Nat) (j : Json) (vs : List Lit) :
    Gen.SubtypeFns.is_subtype T (fuel + 1) (.litOf j) (.ty (.lit vs)) = pure false := by
  simp [Gen.SubtypeFns.is_subtype, Gen.SubtypeFns.is_annotated, Gen.SubtypeFns.is_literal, getOrigin, rvIsSubtype]

theorem isSubtype_lit (T : Table) (l : Lit) (vs : List Lit) :
    isSubtype T (.lit [l]) (.lit vs) = le T (.oneOf [some l]) (.oneOf (vs.map some)) := by
  rw [isSubtype_plain T _ _ (Or.inl rfl)]
  simp [isAnn, isLit, canon]

theorem exists_pure {α : Type} {x : α} {P : α → Prop} (h : P x) : ∃ s', (pure x : E α) = pure s' ∧ P s' := ⟨x, rfl, h⟩

/-- one constant of `add_const_fields`, on a class whose `__fields__` still hold, for this name, what `hints` and the
inherited constants `bc` say -/
theorem gen_add_const_fields_view (T : Table) (c : ClassDef) (fuel : Nat) (hints : List (Str × Ty)) (bc consts : List (Str × Json))
    (v0 : ClsView) (hv : v0.fields = fieldsOf hints bc)
    (hpub : ∀ x ∈ dictKeys consts, PubName x) (hnd : (dictKeys consts).Nodup) (h0 : 0 < fuel) :
    (Gen.SubtypeFns.add_const_fields T fuel consts c.constOverride v0).map (fun _ => ()) =
      ofRefusal (firstErr (consts.map (constOk T c hints bc (v0.baseExtra == .forbid)))) := by
  obtain ⟨f, rfl⟩ : ∃ f, fuel = f + 1 := ⟨fuel - 1, by omega⟩
  simp only [Gen.SubtypeFns.add_const_fields, gen_check_names_public _ hpub, pure_bind, gen_expect_schema_class]
  rw [ofRefusal_firstErr, List.map_map]
  have hmap : ∀ (m : E (List Str × ClsView)),
      (m >>= fun st => pure { st.2 with constants := dictUpdate st.2.constants consts }).map (fun _ => ()) = m.map (fun _ => ()) := by
    intro m; cases m <;> rfl
  rw [hmap]
  refine foldlM_outcome _
    (fun rest (st : List Str × ClsView) => (dictKeys rest).Nodup ∧ st.2.baseExtra = v0.baseExtra ∧
      ∀ kv ∈ rest, dictGet? kv.1 st.2.fields = dictGet? kv.1 v0.fields)
    _ consts ([], v0) ⟨hnd, rfl, fun _ _ => rfl⟩ ?_
  rintro ⟨k, val⟩ rest ⟨ov, s⟩ ⟨hnd', hbe, hinv⟩
  have hk := hinv (k, val) (by simp)
  have hnd'' : k ∉ dictKeys rest ∧ (dictKeys rest).Nodup := List.nodup_cons.mp hnd'
  have hrest : ∀ (fd : PyField) (h : Hint), (dictKeys rest).Nodup ∧
      ({ s with fields := dictSet k fd s.fields, annotations := dictSet k h s.annotations } : ClsView).baseExtra = v0.baseExtra ∧
      ∀ kv ∈ rest, dictGet? kv.1 (dictSet k fd s.fields) = dictGet? kv.1 v0.fields := by
    intro fd h
    refine ⟨hnd''.2, hbe, ?_⟩
    intro kv hkv
    have hne : kv.1 ≠ k := by
      intro h'; apply hnd''.1; rw [← h']; simp only [dictKeys, List.mem_map]; exact ⟨kv, hkv, rfl⟩
    rw [dictGet?_dictSet_ne _ _ _ _ hne]
    exact hinv kv (by simp [hkv])
  simp only [Function.comp_apply]
  simp only [hv, dictGet?_fieldsOf] at hk
  simp only [hk, constOk]
  have hbe' : (s.baseExtra == Extra.forbid) = (v0.baseExtra == Extra.forbid) := by
    have : s.baseExtra = v0.baseExtra := hbe
    rw [this]
  have hrest' := hrest (fieldOfHint Hint.optAny) (fieldOfHint Hint.optAny).type_
  cases hg : getHint k hints with
  | none =>
    cases hb : hasKey k bc <;> cases ho : c.constOverride <;> by_cases hf : (v0.baseExtra == Extra.forbid) = true <;>
      simp only [hb, ho, hf, hbe', ofRefusal, if_true, if_false, Bool.false_eq_true] <;>
      first
        | exact exists_pure hrest'
        | rfl
        | (simp only [fieldOfHint, isEnum, Gen.SubtypeFns.is_literal, getOrigin, ho, shape_beq, origin_beq, decide_true,
             decide_false, Bool.and_false, Bool.and_true, Bool.or_false, Bool.false_or, Bool.true_or, Bool.or_true, Bool.not_true,
             Bool.not_false, if_true, if_false, Bool.false_eq_true, pure_bind, reduceCtorEq]
           exact exists_pure hrest')
        | (simp [fieldOfHint, isEnum, Gen.SubtypeFns.is_literal, getOrigin, ho]; done)
        | (simp [fieldOfHint, isEnum, Gen.SubtypeFns.is_literal, getOrigin, ho]; rfl)
  | some t =>
    have hlitf : ∀ t' : Ty, Gen.SubtypeFns.is_literal (.ty t') = isLit t' := gen_is_literal
    cases hs : singletonTy t with
    | none =>
      cases ho : c.constOverride <;>
        simp only [hs, ho, ofRefusal, fieldOfHint, Option.isSome_none, Bool.false_eq_true, if_false, shape_beq, isEnum,
          reduceCtorEq, decide_false, Bool.false_and, Bool.and_false, Bool.or_false, Bool.false_or, pure_bind, Bool.not_false,
          Bool.not_true, if_true, Bool.true_or, Bool.or_true] <;>
        try first | rfl | exact exists_pure hrest'
    | some t' =>
      have hin := singletonTy_inner t t' hs
      simp only [hs, fieldOfHint, Option.isSome_some, if_true, shape_beq, decide_true, Bool.true_and, isEnum, Bool.false_eq_true,
        if_false, Bool.false_or, hin, hlitf]
      by_cases hl : isLit t' = true
      · obtain ⟨vs, rfl⟩ : ∃ vs, t' = .lit vs := by cases t' <;> simp_all [isLit]
        simp only [isLit, if_true, Bool.true_and, Bool.or_true, Bool.not_true, Bool.false_eq_true, if_false]
        cases hj : jsonLit? val with
        | none =>
          simp only [mkLiteral, hj, gen_is_subtype_litOf, pure_bind, Bool.not_false, if_true, ofRefusal]
          try rfl
        | some l =>
          simp only [mkLiteral, hj, gen_is_subtype T (f + 1) (.lit [l]) (.lit vs) (by simp [annDepth]), isSubtype_lit, pure_bind]
          by_cases hle : le T (.oneOf [some l]) (.oneOf (vs.map some)) = true
          · simp only [hle, Bool.not_true, Bool.false_eq_true, if_false, if_true, ofRefusal]
            exact exists_pure hrest'
          · have hle' : le T (.oneOf [some l]) (.oneOf (vs.map some)) = false := by simpa using hle
            simp only [hle', Bool.not_false, if_true, Bool.false_eq_true, if_false, ofRefusal]
            try rfl
      · have hl' : isLit t' = false := by simpa using hl
        simp only [hl', Bool.false_eq_true, if_false, pure_bind, Bool.false_and, Bool.or_false]
        cases t' <;> first
          | (simp [isLit] at hl'; done)
          | (cases ho : c.constOverride <;>
              simp only [ofRefusal, Bool.false_eq_true, if_false, if_true, Bool.not_false, Bool.not_true, Bool.or_false] <;>
              first | rfl | exact exists_pure hrest')


/-- `add_const_fields` on the class as the decorator finds it refuses exactly what the model's `defineOk` refuses
for the constants, with the same kind of exception (public names, a dict has no key twice) -/
theorem gen_add_const_fields (T : Table) (c : ClassDef) (fuel : Nat)
    (hpub : ∀ x ∈ dictKeys c.consts, PubName x) (hnd : (dictKeys c.consts).Nodup) (h0 : 0 < fuel) :
    (Gen.SubtypeFns.add_const_fields T fuel c.consts c.constOverride (viewDeco T c)).map (fun _ => ()) =
      ofRefusal (constsOk T c) :=
  gen_add_const_fields_view T c fuel (C13.decoratorHints T c) (baseConsts T c) c.consts (viewDeco T c) rfl hpub hnd h0

/-- **Class construction**: the model's `defineOk` is the metaclass check, then `make_mandatory`, then
`add_const_fields` of the translated source, each on the class as it finds it (`viewNew`, `viewDeco`: the
dictionary's account of what pydantic has built by then), with the same kind of exception -/
theorem gen_defineOk (T : Table) (c : ClassDef) (fuel : Nat) (h0 : 0 < fuel)
    (hpm : ∀ x ∈ c.mandatory, PubName x) (hnm : c.mandatory.Nodup)
    (hpc : ∀ x ∈ dictKeys c.consts, PubName x) (hnc : (dictKeys c.consts).Nodup) :
    ofRefusal (defineOk T c) =
      ((Gen.SubtypeFns.new_policy (viewBase T c) (viewNew T c)).map (fun _ => ()) >>= fun _ =>
       (Gen.SubtypeFns.make_mandatory c.mandatory (viewNew T c)).map (fun _ => ()) >>= fun _ =>
       (Gen.SubtypeFns.add_const_fields T fuel c.consts c.constOverride (viewDeco T c)).map (fun _ => ())) := by
  rw [gen_new_policy, gen_make_mandatory T c hpm hnm, gen_add_const_fields T c fuel hpc hnc h0, defineOk_eq]
  cases policyOk T c with
  | error e => cases e <;> rfl
  | ok u =>
    cases mandatoryOk T c with
    | error e => cases e <;> rfl
    | ok u' => rfl

end MetadorModel.Bridge.SubtypeFns
