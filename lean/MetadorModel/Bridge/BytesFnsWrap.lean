import MetadorModel.Gen.BytesFns
import MetadorModel.Proofs.Bytes
/-! Bridge theorems for `_h5_wrap_bytes` (part of `Bridge/BytesFns.lean`, which explains the set-up; a separate
module so that a broken proof is attributed to the function group that changed). -/
namespace MetadorModel.Bridge.BytesFns
open MetadorModel MetadorModel.Bytes MetadorModel.BytesPy


/-! ## wrapping -/

theorem gen_h5_wrap_bytes (bs : Bytes) : Gen.BytesFns._h5_wrap_bytes bs = wrapBytes bs := by
  cases bs <;> simp [Gen.BytesFns._h5_wrap_bytes, wrapBytes]

end MetadorModel.Bridge.BytesFns
