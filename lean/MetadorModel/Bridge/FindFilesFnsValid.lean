import MetadorModel.Gen.FindFilesFns
import MetadorModel.Bridge.FindFilesFnsDict
/-!
Bridge (`IH5Record._is_valid_record_name`): the function of `Gen/FindFilesFns.lean` (regenerated from
/repo on every run by `harness/translate_c03.py`) is the model's `isValidName`.
-/
namespace MetadorModel.Bridge.FindFilesFns
open MetadorModel MetadorModel.FindFiles MetadorModel.Record MetadorModel.RecordPy

/-- the text generated for `_is_valid_record_name` is `re.match` of the parsed pattern
`^[A-Za-z0-9\-]+$` (whether the source says `… is not None` or spells it with an `if`) -/
theorem gen_is_valid_record_name_shape (n : Name) :
    Gen.FindFilesFns.is_valid_record_name n =
      pyReMatch [.bos, .plus (.cls false nameClass), .eos] n := by
  unfold Gen.FindFilesFns.is_valid_record_name
  first
    | rfl
    | (simp only [nameClass]; split <;> simp_all)
    | simp [nameClass]

/-- `_is_valid_record_name` (including the `$`-before-a-final-newline trap) -/
theorem gen_is_valid_record_name (n : Name) :
    Gen.FindFilesFns.is_valid_record_name n = isValidName n := by
  rw [gen_is_valid_record_name_shape]
  rw [Bool.eq_iff_iff]
  unfold pyReMatch
  have hmodel : isValidName n = true ↔
      (ValidName n ∨ ∃ init, n = init ++ ['\n'] ∧ ValidName init) := by
    unfold isValidName
    rw [Bool.or_eq_true, strictName_iff]
    apply or_congr Iff.rfl
    constructor
    · intro h
      split at h
      · rename_i r hr
        rw [List.reverse_eq_cons_iff] at hr
        exact ⟨r.reverse, hr, (strictName_iff _).mp h⟩
      · cases h
    · rintro ⟨init, rfl, hv⟩
      simp [(strictName_iff _).mpr hv]
  rw [hmodel]
  cases n with
  | nil =>
    simp [matchItems, ValidName]
  | cons c s =>
    change (true && ((Atom.cls false nameClass).ok c &&
      starK (Atom.cls false nameClass) (matchItems [.eos]) false s)) = true ↔ _
    rw [Bool.true_and, Bool.and_eq_true, nameClass_ok,
      starK_class_eos (Atom.cls false nameClass) isNameChar nameClass_ok (by decide)]
    unfold ValidName
    constructor
    · rintro ⟨hc, h | ⟨init, rfl, hi⟩⟩
      · exact Or.inl ⟨by simp, by simpa [hc] using h⟩
      · exact Or.inr ⟨c :: init, rfl, by simp, by simpa [hc] using hi⟩
    · rintro (⟨_, h⟩ | ⟨init, h, hne, hi⟩)
      · exact ⟨h c (by simp), Or.inl (fun x hx => h x (by simp [hx]))⟩
      · cases init with
        | nil => exact absurd rfl hne
        | cons d init =>
          simp only [List.cons_append, List.cons.injEq] at h
          obtain ⟨rfl, rfl⟩ := h
          exact ⟨hi c (by simp), Or.inr ⟨init, rfl, fun x hx => hi x (by simp [hx])⟩⟩

end MetadorModel.Bridge.FindFilesFns
