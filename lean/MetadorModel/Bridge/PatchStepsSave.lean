import MetadorModel.Gen.PatchSteps
/-!
# Bridge for C11: `IH5UserBlock.save` as regenerated from the source, byte level

`gen_save`: the regenerated `save` is `UBlock.saveUB` — the text `magic \n size \n json`, refused when it
does not fit below 1024 bytes or when the file starts with the HDF5 signature, otherwise written **in place at
offset 0** followed by one NUL byte, by two `write` calls that are contiguous from offset 0 (`gen_save_writes`),
so that every byte-wise prefix of what `save` writes is a torn block `torn k old (frame size u)` of
`Model/Crash.lean` (`gen_save_prefix`). This is what the action `writeUB` of the step sequences stands for.
-/
set_option linter.unusedSimpArgs false
set_option linter.unusedVariables false
namespace MetadorModel.Bridge.PatchSteps.Bytes
open MetadorModel.UBlock MetadorModel.RecordPy MetadorModel.UBSavePy
open MetadorModel.Gen.PatchSteps.Bytes

theorem gen_constants : FORMAT_MAGIC_STR = MAGIC ∧ USER_BLOCK_SIZE = UBSIZE ∧
    pyStrNat IH5UserBlock._userblock_size_default = SZ1024 := ⟨rfl, rfl, by decide⟩

/-- the text `save` builds, without the closing NUL -/
def body (size : List Char) (u : UBT) : Bytes := MAGIC ++ ['\n'] ++ size ++ ['\n'] ++ render u

theorem frame_eq (size : List Char) (u : UBT) : frame size u = body size u ++ ['\x00'] := rfl

theorem writeAt_zero (old data : Bytes) : writeAt old 0 data = data ++ old.drop data.length := by
  simp [writeAt]

theorem writeAt_after (a r b : Bytes) : writeAt (a ++ r) a.length b = a ++ b ++ r.drop b.length := by
  simp [writeAt, List.take_append_of_le_length, List.drop_append]

/-- **`save`** as regenerated from the source is the model's `saveUB`; an exception leaves the file as it was -/
theorem gen_save (u : UBT) (n : Nat) (old : Bytes) :
    IH5UserBlock.save u n ⟨old, []⟩ =
      match saveUB old (pyStrNat n) u with
      | .ok b => (.ok (), ⟨b, [(0, body (pyStrNat n) u), ((body (pyStrNat n) u).length, ['\x00'])]⟩)
      | .error e => (.error e, ⟨old, []⟩) := by
  unfold IH5UserBlock.save saveUB
  have hlen : (frame (pyStrNat n) u).length - 1 = (body (pyStrNat n) u).length := by
    rw [frame_eq]; simp
  have hb : FORMAT_MAGIC_STR ++ ['\n'] ++ pyStrNat n ++ ['\n'] ++ render u = body (pyStrNat n) u := rfl
  simp only [pyEncode, hb, hlen, gen_constants.2.1]
  by_cases h1 : (body (pyStrNat n) u).length ≥ UBSIZE
  · have h1' : ¬ (body (pyStrNat n) u).length < UBSIZE := by omega
    simp [h1, h1', throw, throwThe, MonadExceptOf.throw]
  · have h1' : (body (pyStrNat n) u).length < UBSIZE := by omega
    by_cases h2 : old.take 4 = ['\x89', 'H', 'D', 'F']
    · simp [h1, h1', h2, pyWithOpen, fRead, throw, throwThe, MonadExceptOf.throw, pure, Except.pure]
    · have h2' : (List.take 4 old == [Char.ofNat 137, 'H', 'D', 'F']) = false := by
        simpa using h2
      simp [h1, h1', h2, h2', pyWithOpen, fRead, fSeek, fWrite, throw, throwThe, MonadExceptOf.throw, pure, Except.pure,
        writeAt_zero, torn, frame_eq]
      rw [writeAt_after]
      have ht : List.take (1 + (body (pyStrNat n) u).length) (body (pyStrNat n) u ++ ['\x00'])
          = body (pyStrNat n) u ++ ['\x00'] := List.take_of_length_le (by simp; omega)
      have h0 : Char.ofNat 0 = '\x00' := rfl
      simp [List.drop_drop, Nat.add_comm, ht, h0]

/-- the two `write` calls of `save` are contiguous from offset 0: together they are one write of `frame` -/
theorem gen_save_writes (u : UBT) (n : Nat) (old b : Bytes) (h : saveUB old (pyStrNat n) u = .ok b) :
    (IH5UserBlock.save u n ⟨old, []⟩).2.writes =
      [(0, body (pyStrNat n) u), ((body (pyStrNat n) u).length, ['\x00'])] ∧
    body (pyStrNat n) u ++ ['\x00'] = frame (pyStrNat n) u := by
  rw [gen_save, h]
  exact ⟨rfl, rfl⟩

/-- **every byte-wise prefix of what `save` writes is a torn block of `Model/Crash.lean`**: the first `j` bytes
of the first `write`, or all of it and the first `i` bytes of the second -/
theorem gen_save_prefix (size : List Char) (u : UBT) (old : Bytes) :
    (∀ j, j ≤ (body size u).length → writeAt old 0 ((body size u).take j) = torn j old (frame size u)) ∧
    (∀ i, i ≤ 1 → writeAt (writeAt old 0 (body size u)) (body size u).length (['\x00'].take i)
        = torn ((body size u).length + i) old (frame size u)) := by
  constructor
  · intro j hj
    rw [writeAt_zero, frame_eq, torn, List.take_append_of_le_length hj]
    simp [List.length_take, Nat.min_eq_left hj]
  · intro i hi
    rw [writeAt_zero, writeAt_after, frame_eq, torn]
    have : List.take ((body size u).length + i) (body size u ++ ['\x00']) = body size u ++ (['\x00'] : Bytes).take i := by
      rw [List.take_append]
      simp [List.take_of_length_le (Nat.le_add_right (body size u).length i)]
    rw [this]
    simp [List.drop_drop, List.length_take, Nat.min_eq_left hi, Nat.add_comm]

end MetadorModel.Bridge.PatchSteps.Bytes
