import MetadorModel.Gen.OverlayScan
import MetadorModel.Proofs.OverlayPy
import MetadorModel.Proofs.OverlayWriteLook
/-!
# Bridge: the translated child resolution of `overlay.py` is the model's `scan / child / look`

`Gen/OverlayScan.lean` is regenerated from `src/metador_core/ih5/overlay.py` on every run by
`harness/translate_c01.py` (value dictionary: `Model/OverlayPy.lean`). The theorems below are
re-checked on every run; they state that what the source says *now* computes the functions of
`Model/Overlay.lean` the C01 (C05, C10, C17) theorems are about:

* `gen_node_is_virtual`, `gen_node_is_del_mark` — the two predicates are `RKind.isVirtual`,
  `RKind.isDel` on raw nodes (and `false` / "is the marker" on attribute values);
* `gen_children` — looking a child name up in the dictionary `IH5InnerNode._children` returns is
  `Overlay.child` for that child path (the loop over the container files, newest first, with the
  two dictionaries as state, is a fold; per key it is the recursion `Overlay.scan`);
* `gen_get_child`, `gen_node_seq_loop`, `gen_find` — `_find` on an absolute path is `Overlay.look`
  (`found c _ ↦ c`, `part ↦ None`, `insideValue ↦ ValueError`).

Hypotheses: every container satisfies `WF` (what every HDF5 file satisfies: entries have parents,
parents are groups, the root is a group — part of the record invariant `Inv`), and the record is
not empty (it is open).
-/
namespace MetadorModel.Bridge.OverlayScan
open MetadorModel MetadorModel.Tree MetadorModel.Overlay MetadorModel.OverlayPy
open MetadorModel.Gen.OverlayScan

variable {V : Type}

/-! ## constants and predicates -/

theorem gen_SUBST_KEY : SUBST_KEY = substKey := rfl

/-- `_node_is_virtual`: a group object without the SUBST attribute -/
theorem gen_node_is_virtual_obj (o : PyObj V) :
    _node_is_virtual o = .ok (match o with | .group _ _ s _ => !s | _ => false) := by
  cases o <;>
    simp [_node_is_virtual, pyIsInstance, pyGetAttrs, pyIn, gen_SUBST_KEY, bind, Except.bind, pure, Except.pure]

/-- `_node_is_virtual` on a raw node is the model's `RKind.isVirtual` -/
theorem gen_node_is_virtual (f : Cont V) (p : Path) (n : RNode V) :
    _node_is_virtual (PyObj.ofNode f p n) = .ok n.kind.isVirtual := by
  rw [gen_node_is_virtual_obj]
  cases h : n.kind <;> simp [PyObj.ofNode, h, RKind.isVirtual]

/-- `_node_is_del_mark`: a dataset whose content is the marker, or the marker value itself -/
theorem gen_node_is_del_mark_obj (o : PyObj V) :
    _node_is_del_mark o = .ok (match o with | .dataset none _ => true | .value none => true | _ => false) := by
  cases o with
  | dataset c a => cases c <;>
      simp [_node_is_del_mark, pyIsInstance, pyGetItemUnit, pyIsDelMark, bind, Except.bind, pure, Except.pure]
  | value v => cases v <;>
      simp [_node_is_del_mark, pyIsInstance, pyGetItemUnit, pyIsDelMark, bind, Except.bind, pure, Except.pure]
  | _ => simp [_node_is_del_mark, pyIsInstance, pyGetItemUnit, pyIsDelMark, bind, Except.bind, pure, Except.pure]

/-- `_node_is_del_mark` on a raw node is the model's `RKind.isDel` -/
theorem gen_node_is_del_mark (f : Cont V) (p : Path) (n : RNode V) :
    _node_is_del_mark (PyObj.ofNode f p n) = .ok n.kind.isDel := by
  rw [gen_node_is_del_mark_obj]
  cases h : n.kind <;> simp [PyObj.ofNode, h, RKind.isDel]

/-- on an attribute value: never virtual; deleted iff it is the marker (`none` in the model) -/
theorem gen_attr_value_preds (v : Option V) :
    _node_is_virtual (PyObj.value v) = .ok false ∧ _node_is_del_mark (PyObj.value v) = .ok v.isNone := by
  constructor
  · rw [gen_node_is_virtual_obj]
  · rw [gen_node_is_del_mark_obj]; cases v <;> rfl

/-! ## `_guard_open`, `_get_child_raw` -/

theorem gen_guard_open (self : PySelf V) (h : self.files ≠ []) : _guard_open self = .ok () := by
  cases hf : self.files with
  | nil => exact absurd hf h
  | cons a l =>
    simp [_guard_open, __bool__, hf, pyTruthyList, pyFileOpen, bind, Except.bind, pure, Except.pure]

theorem gen_guard_open_closed (self : PySelf V) (h : self.files = []) : _guard_open self = .error .keyError := by
  simp [_guard_open, __bool__, h, pyTruthyList, bind, Except.bind, pure, Except.pure]

/-- `_get_child_raw` of a group node: the raw node at `gpath/key` of container `i` -/
theorem gen_get_child_raw (self : PySelf V) (hattr : self.isAttrs = false) (k : Key) (i : Nat)
    (f : Cont V) (hf : self.files[i]? = some f) :
    _get_child_raw self k (i : Int) = pyFileGet f (self.gpath ++ [k]) := by
  simp only [_get_child_raw, hattr, pyListGet_nat, hf, pyAbsKey, bind, Except.bind, pure, Except.pure]
  cases pyFileGet f (self.gpath ++ [k]) <;> rfl

/-! ## `_children`: the inner loop -/

theorem gen_children_loop2 (self : PySelf V) (hattr : self.isAttrs = false) (i : Nat)
    (f : Cont V) (hf : self.files[i]? = some f) (st : St) (k : Key) (n : RNode V)
    (hn : aget (self.gpath ++ [k]) f = some n) (hd : Dom st) :
    ∃ st', _children.loop2 self (i : Int) st k = .ok st' ∧ Dom st' ∧
      slot k st' = stepSlot (slot k st) (i : Int) n.kind.isVirtual ∧
      ∀ k', k' ≠ k → slot k' st' = slot k' st := by
  obtain ⟨ch, iv⟩ := st
  have hraw : _get_child_raw self k (i : Int) = .ok (PyObj.ofNode f (self.gpath ++ [k]) n) := by
    rw [gen_get_child_raw self hattr k i f hf]; simp [pyFileGet, hn]
  have hsame := hd.same k
  cases hc : aget k ch with
  | none =>
    have hv : aget k iv = none := by simp_all
    refine ⟨(aput k (i : Int) ch, aput k n.kind.isVirtual iv), ?_, hd.set_both _ _ _ _ _, ?_, ?_⟩
    · simp [_children.loop2, pyDictIn, pyDictSet, hc, hraw, gen_node_is_virtual, bind, Except.bind, pure, Except.pure]
    · rw [slot_set_both]; simp [slot, hc, stepSlot]
    · intro k' hk'; rw [slot_set_both]; simp [hk']
  | some j =>
    have hv : ∃ b, aget k iv = some b := by
      cases h : aget k iv with
      | none => simp_all
      | some b => exact ⟨b, rfl⟩
    obtain ⟨b, hb⟩ := hv
    cases b with
    | false =>
      refine ⟨(ch, iv), ?_, hd, ?_, fun _ _ => rfl⟩
      · simp [_children.loop2, pyDictIn, pyDictGet, hc, hb, bind, Except.bind, pure, Except.pure]
      · simp [slot, hc, hb, stepSlot]
    | true =>
      refine ⟨(aput k (min j (i : Int)) ch, aput k n.kind.isVirtual iv), ?_, hd.set_both _ _ _ _ _, ?_, ?_⟩
      · simp [_children.loop2, pyDictIn, pyDictGet, pyDictSet, hc, hb, hraw, gen_node_is_virtual, bind, Except.bind,
          pure, Except.pure]
      · rw [slot_set_both]; simp [slot, hc, hb, stepSlot]
      · intro k' hk'; rw [slot_set_both]; simp [hk']

/-! ## `_children`: one container -/

/-- the body of the outer loop at container `i` (file `f`): per key one `stepSlot` where the file
has the child. Needs what every HDF5 file satisfies (`WF.parent`) and that `gpath` is a group
wherever it occurs. -/
theorem gen_children_loop1 (self : PySelf V) (hattr : self.isAttrs = false) (i : Nat)
    (f : Cont V) (hf : self.files[i]? = some f) (hwf : WF f)
    (hgrp : ∀ n, aget self.gpath f = some n → n.kind.isGroup = true)
    (st : St) (hd : Dom st) :
    ∃ st', _children.loop1 self st (i : Int) = .ok st' ∧ Dom st' ∧
      ∀ k, slot k st' = match aget (self.gpath ++ [k]) f with
        | none => slot k st
        | some n => stepSlot (slot k st) (i : Int) n.kind.isVirtual := by
  obtain ⟨ch, iv⟩ := st
  cases hg : aget self.gpath f with
  | none =>
    refine ⟨(ch, iv), ?_, hd, ?_⟩
    · simp [_children.loop1, pyListGet_nat, hf, pyFileIn, hg, bind, Except.bind, pure, Except.pure]
    · intro k
      cases hk : aget (self.gpath ++ [k]) f with
      | none => rfl
      | some n =>
        obtain ⟨m, hm, _⟩ := hwf.parent self.gpath k (by simp [hk])
        rw [hg] at hm; cases hm
  | some gn =>
    have hgk := hgrp gn hg
    -- the inner loop
    have hinner := pyFor_keys (_children.loop2 self (i : Int))
      (fun k s => match aget (self.gpath ++ [k]) f with
        | none => s
        | some n => stepSlot s (i : Int) n.kind.isVirtual)
      (childKeys f self.gpath) (nodup_childKeys _ _)
      (by
        intro st k hk hd
        rw [mem_childKeys] at hk
        cases hn : aget (self.gpath ++ [k]) f with
        | none => simp [hn] at hk
        | some n =>
          obtain ⟨st', h1, h2, h3, h4⟩ := gen_children_loop2 self hattr i f hf st k n hn hd
          exact ⟨st', h1, h2, by simp [h3], h4⟩)
      (ch, iv) hd
    obtain ⟨st', h1, h2, h3⟩ := hinner
    refine ⟨st', ?_, h2, ?_⟩
    · have hobj : ∃ s a, PyObj.ofNode f self.gpath gn = PyObj.group f self.gpath s a := by
        cases hk : gn.kind <;> simp_all [PyObj.ofNode, RKind.isGroup]
      obtain ⟨s, a, hobj⟩ := hobj
      obtain ⟨c1, i1⟩ := st'
      simp [_children.loop1, pyListGet_nat, hf, pyFileIn, pyFileGet, hg, hattr, hobj, pyIsInstance, pyKeys, h1,
        bind, Except.bind, pure, Except.pure]
    · intro k
      rw [h3 k]
      by_cases hk : k ∈ childKeys f self.gpath
      · simp [hk]
      · simp only [hk, ↓reduceIte]
        rw [mem_childKeys] at hk
        cases hn : aget (self.gpath ++ [k]) f with
        | none => rfl
        | some n => simp [hn] at hk

/-! ## `_children`: the dictionary it returns, looked up at one key, is `Overlay.child` -/

/-- `gpath` is a group in every container with index `≥ c` that has it (true for the node `look`
arrives at, see `grpFrom_of_scan`; the code asserts it, l. 270) -/
def GrpFrom (r : Rec V) (g : Path) (c : Nat) : Prop :=
  ∀ (i : Nat) f, c ≤ i → r.reverse[i]? = some f → ∀ n, aget g f = some n → n.kind.isGroup = true

theorem gen_children_self (self : PySelf V) (hattr : self.isAttrs = false) (r : Rec V)
    (hr : self.files = r.reverse) (hne : r ≠ []) (hwf : ∀ p ∈ r, WF p) (c : Nat) (hc : self.cidx = (c : Int))
    (hgrp : GrpFrom r self.gpath c) :
    ∃ d, _children self = .ok d ∧
      ∀ k, aget k d = (child r (self.gpath ++ [k]) c).map (fun x => (x.1 : Int)) := by
  have hfiles : self.files ≠ [] := by simp [hr, hne]
  -- the loop over the containers
  obtain ⟨st', h1, hd', hs⟩ := pyFor_range self.files (_children.loop1 self) self.gpath c
    (by
      intro st i f hf hci hd
      have hmem : f ∈ r := by
        have := List.mem_of_getElem? hf
        simpa [hr] using this
      exact gen_children_loop1 self hattr i f hf (hwf f hmem) (hgrp i f hci (hr ▸ hf)) st hd)
    self.files.length (Nat.le_refl _) ([], []) Dom.init
  have hs' : ∀ k, slot k st' = (scan (self.gpath ++ [k]) c r).map enc := by
    intro k
    rw [hs k]
    have : slot k (([], []) : St) = none := by simp [slot, aget]
    rw [this, List.take_length, hr, List.reverse_reverse, runSlot_none]
  obtain ⟨ch, iv⟩ := st'
  -- the filter on deletion markers
  let keep : Key × Int → Bool := fun kv =>
    match scan (self.gpath ++ [kv.1]) c r with
    | some (_, n) => !n.kind.isDel
    | none => false
  have hfilter : ∀ x ∈ pySortedItems ch, _children.filter1 self x = .ok (keep x) := by
    rintro ⟨k, idx⟩ hx
    rw [mem_pySortedItems] at hx
    have hget : aget k ch = some idx := (aget_eq_some_iff_mem ch hd'.nodup k idx).mpr hx
    have hsl := hs' k
    rw [← slot_fst k _ hd'] at hget
    rw [hsl] at hget
    rcases Option.eq_none_or_eq_some (scan (self.gpath ++ [k]) c r) with hsc | ⟨⟨i, n⟩, hsc⟩
    · simp [hsc] at hget
    · simp [hsc, enc] at hget
      subst hget
      obtain ⟨_, f, hf, hn⟩ := scan_get _ _ _ _ _ hsc
      have hraw := gen_get_child_raw self hattr k i f (hr ▸ hf)
      simp only [_children.filter1, keep, hsc]
      simp [hattr, hraw, pyFileGet, hn, gen_node_is_del_mark, bind, Except.bind, pure, Except.pure]
  refine ⟨(pySortedItems ch).filter keep, ?_, ?_⟩
  · simp only [_children, gen_guard_open self hfiles, bind, Except.bind, pure, Except.pure]
    rw [hc, h1]
    simp only
    rw [pyFilterM_pure _ keep _ hfilter]
  · intro k
    rw [aget_filter _ _ (nodup_pySortedItems _ hd'.nodup), aget_pySortedItems _ hd'.nodup]
    have hsl := hs' k
    have hfst := slot_fst k _ hd'
    simp only at hfst
    rw [← hfst, hsl]
    simp only [child, keep]
    rcases Option.eq_none_or_eq_some (scan (self.gpath ++ [k]) c r) with hsc | ⟨⟨i, n⟩, hsc⟩
    · simp [hsc]
    · cases hdel : n.kind.isDel <;> simp [hsc, enc, hdel]

/-- **`_children` of the group node `(g, c)` of the record `r`, looked up at a child name `k`, is
the model's `child r (g ++ [k]) c`** (the creation index; the node itself is the one container
`i` holds, `scan_get`) -/
theorem gen_children (r : Rec V) (hne : r ≠ []) (hwf : ∀ p ∈ r, WF p) (g : Path) (c : Nat)
    (hgrp : GrpFrom r g c) :
    ∃ d, _children ⟨r.reverse, g, (c : Int), false⟩ = .ok d ∧
      ∀ k, aget k d = (child r (g ++ [k]) c).map (fun x => (x.1 : Int)) :=
  gen_children_self ⟨r.reverse, g, (c : Int), false⟩ rfl r rfl hne hwf c rfl hgrp

/-! ## `_get_child`, `_node_seq`, `_find`: successive child lookup is `Overlay.lookFrom / look` -/

/-- the overlay node `_get_child` builds for the raw node `n` found at `p` in container `c` -/
def nodeOf (fs : List (Cont V)) (p : Path) (c : Nat) (n : RNode V) : PyNode V :=
  if n.kind.isGroup then .inner ⟨fs, p, (c : Int), false⟩ else .dataset fs p (c : Int)

theorem nodeOf_gpath (fs : List (Cont V)) (p : Path) (c : Nat) (n : RNode V) :
    pyNodeGpath (nodeOf fs p c n) = .ok p := by
  unfold nodeOf; split <;> rfl

theorem nodeOf_cidx (fs : List (Cont V)) (p : Path) (c : Nat) (n : RNode V) :
    pyNodeCidx (nodeOf fs p c n) = .ok (c : Int) := by
  unfold nodeOf; split <;> rfl

theorem nodeOf_isDataset (fs : List (Cont V)) (p : Path) (c : Nat) (n : RNode V) :
    pyNodeIsInstance (nodeOf fs p c n) .IH5Dataset = !n.kind.isGroup := by
  unfold nodeOf; split <;> simp_all [pyNodeIsInstance]

theorem gen_get_child (self : PySelf V) (hattr : self.isAttrs = false) (k : Key) (i : Nat)
    (f : Cont V) (hf : self.files[i]? = some f) (n : RNode V) (hn : aget (self.gpath ++ [k]) f = some n) :
    _get_child self k (i : Int) = .ok (nodeOf self.files (self.gpath ++ [k]) i n) := by
  have hraw : _get_child_raw self k (i : Int) = .ok (PyObj.ofNode f (self.gpath ++ [k]) n) := by
    rw [gen_get_child_raw self hattr k i f hf]; simp [pyFileGet, hn]
  have hi : ¬ ((i : Int) < 0) := by omega
  cases hk : n.kind <;>
    simp [_get_child, hraw, PyObj.ofNode, hk, pyIsInstance, pyAbsKey, pyMkGroup, pyMkDataset, nodeOf,
      RKind.isGroup, hi, bind, Except.bind, pure, Except.pure]

/-- the node `scan` finds is a group wherever it occurs from its creation index on -/
theorem grpFrom_of_scan (r : Rec V) (q : Path) (c i : Nat) (n : RNode V)
    (h : scan q c r = some (i, n)) (hg : n.kind.isGroup = true) : GrpFrom r q i := by
  intro j f hij hf m hm
  obtain ⟨_, f', hf', hn'⟩ := scan_get q c r i n h
  rcases Nat.lt_or_eq_of_le hij with hlt | heq
  · exact isGroup_of_isVirtual (scan_newer_virtual q c r i n h j hlt f hf m hm)
  · subst heq
    rw [hf] at hf'; cases hf'
    rw [hm] at hn'; cases hn'
    exact hg

theorem grpFrom_root (r : Rec V) (hwf : ∀ p ∈ r, WF p) : GrpFrom r [] 0 := by
  intro i f _ hf n hn
  have hmem : f ∈ r := by
    have := List.mem_of_getElem? hf
    simpa using this
  obtain ⟨a, ha⟩ := (hwf f hmem).root
  rw [ha] at hn; cases hn; rfl

/-- outcome of the loop of `_node_seq` started at segment `a` with the node of `(pre, ci, cur)`,
compared with the model's walk over the remaining segments -/
def SeqOutcome (fs : List (Cont V)) (pre rest : Path)
    (res : Except PyErr (PyStep (List (PyNode V)) (PyNode V × Int × List (PyNode V)))) : Look V → Prop
  | .found cf nf => ∃ x ret, res = .ok (.next (nodeOf fs (pre ++ rest) cf nf, x, ret)) ∧
      ret.getLast? = some (nodeOf fs (pre ++ rest) cf nf)
  | .part pre' _ => ∃ ret cp np, res = .ok (.ret ret) ∧ ret.getLast? = some (nodeOf fs pre' cp np)
  | .insideValue => res = .error .valueError

theorem gen_node_seq_loop (r : Rec V) (hne : r ≠ []) (hwf : ∀ p ∈ r, WF p) (segs : List Key) :
    ∀ (d a : Nat), segs.length - a = d → a ≤ segs.length →
    ∀ (pre : Path) (ci : Nat) (cur : RNode V) (x : Int) (ret : List (PyNode V)),
      ret.getLast? = some (nodeOf r.reverse pre ci cur) →
      (a < segs.length → cur.kind.isGroup = true ∧ GrpFrom r pre ci) →
      SeqOutcome r.reverse pre (segs.drop a)
        (pyForRet (pyRange (a : Int) (segs.length : Int)) (nodeOf r.reverse pre ci cur, x, ret) (_node_seq.loop1 segs))
        (lookFrom r pre ci cur (segs.drop a)) := by
  intro d
  induction d with
  | zero =>
    intro a hd ha pre ci cur x ret hret _
    have : a = segs.length := by omega
    subst this
    rw [pyRange_empty _ _ (Int.le_refl _)]
    simp only [List.drop_length, lookFrom, SeqOutcome, pyForRet, List.append_nil]
    exact ⟨x, ret, rfl, hret⟩
  | succ d ih =>
    intro a hd ha pre ci cur x ret hret hcur
    have hlt : a < segs.length := by omega
    obtain ⟨hgrp, hfrom⟩ := hcur hlt
    have hdrop : segs.drop a = segs[a] :: segs.drop (a + 1) := List.drop_eq_getElem_cons hlt
    have hseg : pyListGet segs (a : Int) = .ok segs[a] := by rw [pyListGet_nat]; simp [hlt]
    rw [pyRange_zero_succ _ _ hlt, hdrop]
    -- the children of the current node
    have hnode : nodeOf r.reverse pre ci cur = .inner ⟨r.reverse, pre, (ci : Int), false⟩ := by simp [nodeOf, hgrp]
    obtain ⟨dct, hch, hlook⟩ := gen_children r hne hwf pre ci hfrom
    have hlf : lookFrom r pre ci cur (segs[a] :: segs.drop (a + 1)) =
        match child r (pre ++ [segs[a]]) ci with
        | none => .part pre (segs[a] :: segs.drop (a + 1))
        | some (i, n) => lookFrom r (pre ++ [segs[a]]) i n (segs.drop (a + 1)) := by
      simp [lookFrom, hgrp]
    rw [hlf]
    have hget := hlook segs[a]
    cases hc : child r (pre ++ [segs[a]]) ci with
    | none =>
      rw [hc] at hget
      simp only [Option.map_none] at hget
      refine ⟨ret, ci, cur, ?_, hret⟩
      simp [pyForRet, _node_seq.loop1, hseg, hnode, pyAsInner, hch, pyDictGetD, hget, bind, Except.bind, pure,
        Except.pure]
    | some z =>
      obtain ⟨i, n⟩ := z
      rw [hc] at hget
      simp only [Option.map_some] at hget
      -- the node found
      have hscan : scan (pre ++ [segs[a]]) ci r = some (i, n) ∧ n.kind.isDel = false := by
        unfold child at hc
        rcases Option.eq_none_or_eq_some (scan (pre ++ [segs[a]]) ci r) with hs | ⟨⟨i', n'⟩, hs⟩
        · simp [hs] at hc
        · simp only [hs] at hc
          split at hc
          · cases hc
          · rename_i hdel
            simp only [Option.some.injEq, Prod.mk.injEq] at hc
            obtain ⟨rfl, rfl⟩ := hc
            exact ⟨hs, by simpa using hdel⟩
      obtain ⟨hscan, hdel⟩ := hscan
      obtain ⟨_, f, hf, hn⟩ := scan_get _ _ _ _ _ hscan
      have hchild := gen_get_child ⟨r.reverse, pre, (ci : Int), false⟩ rfl segs[a] i f hf n hn
      simp only at hchild
      have hne1 : ¬ ((i : Int) = -1) := by omega
      -- the body
      have hbody : ∀ x ret, _node_seq.loop1 segs (nodeOf r.reverse pre ci cur, x, ret) (a : Int) =
          if (!((a : Int) == (segs.length : Int) - 1) && !n.kind.isGroup) = true then .error .valueError
          else .ok (.next (nodeOf r.reverse (pre ++ [segs[a]]) i n, (i : Int), ret ++ [nodeOf r.reverse (pre ++ [segs[a]]) i n])) := by
        intro x ret
        simp [_node_seq.loop1, hseg, hnode, pyAsInner, hch, pyDictGetD, hget, hne1, hchild, nodeOf_isDataset, bind,
          Except.bind, pure, Except.pure]
      by_cases hlast : a + 1 < segs.length
      · -- not the last segment
        have hnl : ((a : Int) == (segs.length : Int) - 1) = false := by
          simp only [beq_eq_false_iff_ne, ne_eq]; omega
        cases hng : n.kind.isGroup with
        | false =>
          have hdrop2 : segs.drop (a + 1) = segs[a + 1] :: segs.drop (a + 2) := List.drop_eq_getElem_cons hlast
          simp only [SeqOutcome]
          rw [hdrop2]
          simp [lookFrom, hng, SeqOutcome, pyForRet, hbody, hnl]
        | true =>
          have hstep := ih (a + 1) (by omega) (by omega) (pre ++ [segs[a]]) i n (i : Int)
            (ret ++ [nodeOf r.reverse (pre ++ [segs[a]]) i n]) (by simp)
            (fun _ => ⟨hng, grpFrom_of_scan r _ ci i n hscan hng⟩)
          have happ : pre ++ [segs[a]] ++ segs.drop (a + 1) = pre ++ segs[a] :: segs.drop (a + 1) := by simp
          simp only [pyForRet, hbody, hnl, hng]
          simp only [Bool.not_false, Bool.not_true, Bool.and_false, Bool.false_eq_true, ↓reduceIte]
          revert hstep
          cases lookFrom r (pre ++ [segs[a]]) i n (segs.drop (a + 1)) <;> simp only [SeqOutcome, happ] <;> exact id
      · -- the last segment
        have hlen : segs.length = a + 1 := by omega
        have hl : ((a : Int) == (segs.length : Int) - 1) = true := by
          simp only [beq_iff_eq]; omega
        have hstep := ih (a + 1) (by omega) (by omega) (pre ++ [segs[a]]) i n (i : Int)
          (ret ++ [nodeOf r.reverse (pre ++ [segs[a]]) i n]) (by simp) (fun h => by omega)
        have happ : pre ++ [segs[a]] ++ segs.drop (a + 1) = pre ++ segs[a] :: segs.drop (a + 1) := by simp
        simp only [pyForRet, hbody, hl]
        simp only [Bool.not_true, Bool.false_and, Bool.false_eq_true, ↓reduceIte]
        revert hstep
        cases lookFrom r (pre ++ [segs[a]]) i n (segs.drop (a + 1)) <;> simp only [SeqOutcome, happ] <;> exact id

/-- **`_find` on an absolute path is the model's `look`**: the creation index when the whole path
exists, `None` when a segment is missing, `ValueError` when the path continues below a dataset -/
theorem gen_find (r : Rec V) (hne : r ≠ []) (hwf : ∀ p ∈ r, WF p) (g : Path) (c : Int) (q : Path) :
    _find ⟨r.reverse, g, c, false⟩ ⟨true, q⟩ =
      match look r q with
      | .found cf _ => .ok (some (cf : Int))
      | .part _ _ => .ok none
      | .insideValue => .error .valueError := by
  have hroot : pyMkGroup r.reverse ([] : Path) none = .ok (nodeOf r.reverse [] 0 (vnode : RNode V)) := by
    simp [pyMkGroup, nodeOf, vnode, RKind.isGroup]
  cases q with
  | nil =>
    simp [_find, _node_seq, pyPathIsAbs, hroot, pyPathIsRoot, pyListGet_neg_one, nodeOf_gpath, nodeOf_cidx, pyAbsPath,
      look, lookFrom, bind, Except.bind, pure, Except.pure]
  | cons k rest =>
    have hloop := gen_node_seq_loop r hne hwf (k :: rest) (k :: rest).length 0 rfl (Nat.zero_le _) [] 0 vnode 0
      [nodeOf r.reverse [] 0 (vnode : RNode V)] rfl (fun _ => ⟨rfl, grpFrom_root r hwf⟩)
    simp only [List.drop_zero, List.nil_append] at hloop
    have hpre : ∀ res, _find ⟨r.reverse, g, c, false⟩ ⟨true, k :: rest⟩ =
        (match (match pyForRet (pyRange ((0 : Nat) : Int) ((k :: rest).length : Int))
              (nodeOf r.reverse [] 0 (vnode : RNode V), (0 : Int), [nodeOf r.reverse [] 0 (vnode : RNode V)])
              (_node_seq.loop1 (k :: rest)) with
            | .error e => .error e
            | .ok (.ret v) => .ok v
            | .ok (.next (_, _, ret)) => .ok ret) with
          | .error e => .error e
          | .ok nodes =>
            match nodes.getLast? with
            | none => .error .indexError
            | some nd =>
              match pyNodeGpath nd with
              | .error e => .error e
              | .ok p => if p = k :: rest then (match pyNodeCidx nd with | .error e => .error e | .ok ci => .ok (some ci))
                  else .ok none) → res = res := fun _ _ => rfl
    clear hpre
    unfold look
    revert hloop
    cases hl : lookFrom r [] 0 vnode (k :: rest) with
    | found cf nf =>
      rintro ⟨x, ret, hres, hlast⟩
      simp only [Nat.cast_zero] at hres
      simp [_find, _node_seq, pyPathIsAbs, hroot, pyPathIsRoot, pyPathIsDot, pyPathSegs, hres, pyListGet_neg_one, hlast,
        nodeOf_gpath, nodeOf_cidx, pyAbsPath, bind, Except.bind, pure, Except.pure]
    | part pre' rest' =>
      rintro ⟨ret, cp, np, hres, hlast⟩
      obtain ⟨a, _, _, k', y', h1, h2, h3, _⟩ := lookFrom_part_props r _ _ _ _ _ _ hl
      have hneq : ¬ (pre' = k :: rest) := by
        intro h
        have h4 : (k :: rest).length = a.length + rest'.length := by rw [h1]; simp
        have h5 : pre'.length = a.length := by rw [h2]; simp
        rw [h] at h5
        rw [h3] at h4
        simp at h4 h5
        omega
      simp only [Nat.cast_zero] at hres
      simp [_find, _node_seq, pyPathIsAbs, hroot, pyPathIsRoot, pyPathIsDot, pyPathSegs, hres, pyListGet_neg_one, hlast,
        nodeOf_gpath, pyAbsPath, hneq, bind, Except.bind, pure, Except.pure]
    | insideValue =>
      intro hres
      simp only [SeqOutcome, Nat.cast_zero] at hres
      simp [_find, _node_seq, pyPathIsAbs, hroot, pyPathIsRoot, pyPathIsDot, pyPathSegs, hres, bind, Except.bind, pure,
        Except.pure]

end MetadorModel.Bridge.OverlayScan
