import MetadorModel.Bridge.OverlayScanChildren
import MetadorModel.Proofs.OverlayWriteLook
/-!
# Bridge: the translated child resolution of `overlay.py` is the model's `scan / child / look`

`Gen/OverlayScan.lean` is regenerated from `src/metador_core/ih5/overlay.py` on every run by
`harness/translate_c01.py` (value dictionary: `Model/OverlayPy.lean`). The theorems below are
re-checked on every run; they state that what the source says *now* computes the functions of
`Model/Overlay.lean` the C01 (C05, C10, C17) theorems are about:

* `gen_node_is_virtual`, `gen_node_is_del_mark` — the two predicates are `RKind.isVirtual`,
  `RKind.isDel` on raw nodes (and `false` / "is the marker" on attribute values);
* `gen_children` — looking a child name up in the dictionary `IH5InnerNode._children` returns is
  `Overlay.child` for that child path (the loop over the container files, newest first, with the
  two dictionaries as state, is a fold; per key it is the recursion `Overlay.scan`);
* `gen_get_child`, `gen_node_seq_loop`, `gen_find` — `_find` on an absolute path is `Overlay.look`
  (`found c _ ↦ c`, `part ↦ None`, `insideValue ↦ ValueError`); `gen_find_rel` — on a relative path,
  called on a group node, it is `Overlay.lookFrom` started there; `gen_find_inv`, `gen_find_visible` —
  the same under the record invariant `Inv` of C01.

The proofs are split over three modules so that a broken obligation names the function group that
changed: `Bridge/OverlayScanPreds.lean` (constants, predicates, `_guard_open`, `_get_child_raw`),
`Bridge/OverlayScanChildren.lean` (`_children`), this file (`_get_child`, `_node_seq`, `_find`).

Hypotheses: every container satisfies `WF` (what every HDF5 file satisfies: entries have parents,
parents are groups, the root is a group — part of the record invariant `Inv`), and the record is
not empty (it is open).
-/
set_option linter.unusedSimpArgs false
namespace MetadorModel.Bridge.OverlayScan
open MetadorModel MetadorModel.Tree MetadorModel.Overlay MetadorModel.OverlayPy
open MetadorModel.Gen.OverlayScan

variable {V : Type}

/-! ## `_get_child`, `_node_seq`, `_find`: successive child lookup is `Overlay.lookFrom / look` -/

/-- the overlay node `_get_child` builds for the raw node `n` found at `p` in container `c` -/
def nodeOf (fs : List (Cont V)) (p : Path) (c : Nat) (n : RNode V) : PyNode V :=
  if n.kind.isGroup then .inner ⟨fs, p, (c : Int), false⟩ else .dataset fs p (c : Int)

theorem nodeOf_gpath (fs : List (Cont V)) (p : Path) (c : Nat) (n : RNode V) :
    pyNodeGpath (nodeOf fs p c n) = .ok p := by
  unfold nodeOf; split <;> rfl

theorem nodeOf_cidx (fs : List (Cont V)) (p : Path) (c : Nat) (n : RNode V) :
    pyNodeCidx (nodeOf fs p c n) = .ok (c : Int) := by
  unfold nodeOf; split <;> rfl

theorem nodeOf_isDataset (fs : List (Cont V)) (p : Path) (c : Nat) (n : RNode V) :
    pyNodeIsInstance (nodeOf fs p c n) .IH5Dataset = !n.kind.isGroup := by
  unfold nodeOf; split <;> simp_all [pyNodeIsInstance]

theorem gen_get_child (self : PySelf V) (hattr : self.isAttrs = false) (k : Key) (i : Nat)
    (f : Cont V) (hf : self.files[i]? = some f) (n : RNode V) (hn : aget (self.gpath ++ [k]) f = some n) :
    _get_child self k (i : Int) = .ok (nodeOf self.files (self.gpath ++ [k]) i n) := by
  have hraw : _get_child_raw self k (i : Int) = .ok (PyObj.ofNode f (self.gpath ++ [k]) n) := by
    rw [gen_get_child_raw self hattr k i f hf]; simp [pyFileGet, hn]
  have hi : ¬ ((i : Int) < 0) := by omega
  cases hk : n.kind <;>
    simp [_get_child, hraw, PyObj.ofNode, hk, pyIsInstance, pyAbsKey, pyMkGroup, pyMkDataset, nodeOf,
      RKind.isGroup, hi, bind, Except.bind, pure, Except.pure]

/-- the node `scan` finds is a group wherever it occurs from its creation index on -/
theorem grpFrom_of_scan (r : Rec V) (q : Path) (c i : Nat) (n : RNode V)
    (h : scan q c r = some (i, n)) (hg : n.kind.isGroup = true) : GrpFrom r q i := by
  intro j f hij hf m hm
  obtain ⟨_, f', hf', hn'⟩ := scan_get q c r i n h
  rcases Nat.lt_or_eq_of_le hij with hlt | heq
  · exact isGroup_of_isVirtual (scan_newer_virtual q c r i n h j hlt f hf m hm)
  · subst heq
    rw [hf] at hf'; cases hf'
    rw [hm] at hn'; cases hn'
    exact hg

theorem grpFrom_root (r : Rec V) (hwf : ∀ p ∈ r, WF p) : GrpFrom r [] 0 := by
  intro i f _ hf n hn
  have hmem : f ∈ r := by
    have := List.mem_of_getElem? hf
    simpa using this
  obtain ⟨a, ha⟩ := (hwf f hmem).root
  rw [ha] at hn; cases hn; rfl

/-- outcome of the loop of `_node_seq` started at segment `a` with the node of `(pre, ci, cur)`,
compared with the model's walk over the remaining segments -/
def SeqOutcome (fs : List (Cont V)) (pre rest : Path)
    (res : Except PyErr (PyStep (List (PyNode V)) (PyNode V × Int × List (PyNode V)))) : Look V → Prop
  | .found cf nf => ∃ x ret, res = .ok (.next (nodeOf fs (pre ++ rest) cf nf, x, ret)) ∧
      ret.getLast? = some (nodeOf fs (pre ++ rest) cf nf)
  | .part pre' _ => ∃ ret cp np, res = .ok (.ret ret) ∧ ret.getLast? = some (nodeOf fs pre' cp np)
  | .insideValue => res = .error .valueError

theorem gen_node_seq_loop (r : Rec V) (hne : r ≠ []) (hwf : ∀ p ∈ r, WF p) (segs : List Key) :
    ∀ (d a : Nat), segs.length - a = d → a ≤ segs.length →
    ∀ (pre : Path) (ci : Nat) (cur : RNode V) (x : Int) (ret : List (PyNode V)),
      ret.getLast? = some (nodeOf r.reverse pre ci cur) →
      (a < segs.length → cur.kind.isGroup = true ∧ GrpFrom r pre ci) →
      SeqOutcome r.reverse pre (segs.drop a)
        (pyForRet (pyRange (a : Int) (segs.length : Int)) (nodeOf r.reverse pre ci cur, x, ret) (_node_seq.loop1 segs))
        (lookFrom r pre ci cur (segs.drop a)) := by
  intro d
  induction d with
  | zero =>
    intro a hd ha pre ci cur x ret hret _
    have : a = segs.length := by omega
    subst this
    rw [pyRange_empty _ _ (Int.le_refl _)]
    simp only [List.drop_length, lookFrom, SeqOutcome, pyForRet, List.append_nil]
    exact ⟨x, ret, rfl, hret⟩
  | succ d ih =>
    intro a hd ha pre ci cur x ret hret hcur
    have hlt : a < segs.length := by omega
    obtain ⟨hgrp, hfrom⟩ := hcur hlt
    have hdrop : segs.drop a = segs[a] :: segs.drop (a + 1) := List.drop_eq_getElem_cons hlt
    have hseg : pyListGet segs (a : Int) = .ok segs[a] := by rw [pyListGet_nat]; simp [hlt]
    rw [pyRange_zero_succ _ _ hlt, hdrop]
    -- the children of the current node
    have hnode : nodeOf r.reverse pre ci cur = .inner ⟨r.reverse, pre, (ci : Int), false⟩ := by simp [nodeOf, hgrp]
    obtain ⟨dct, hch, hlook⟩ := gen_children r hne hwf pre ci hfrom
    have hlf : lookFrom r pre ci cur (segs[a] :: segs.drop (a + 1)) =
        match child r (pre ++ [segs[a]]) ci with
        | none => .part pre (segs[a] :: segs.drop (a + 1))
        | some (i, n) => lookFrom r (pre ++ [segs[a]]) i n (segs.drop (a + 1)) := by
      simp only [lookFrom, hgrp, ↓reduceIte]
      cases child r (pre ++ [segs[a]]) ci with
      | none => rfl
      | some z => obtain ⟨i, n⟩ := z; rfl
    rw [hlf]
    have hget := hlook segs[a]
    cases hc : child r (pre ++ [segs[a]]) ci with
    | none =>
      rw [hc] at hget
      simp only [Option.map_none] at hget
      refine ⟨ret, ci, cur, ?_, hret⟩
      simp [pyForRet, _node_seq.loop1, hseg, hnode, pyAsInner, hch, pyDictGetD, hget, bind, Except.bind, pure,
        Except.pure]
    | some z =>
      obtain ⟨i, n⟩ := z
      rw [hc] at hget
      simp only [Option.map_some] at hget
      -- the node found
      have hscan : scan (pre ++ [segs[a]]) ci r = some (i, n) ∧ n.kind.isDel = false := by
        unfold child at hc
        rcases Option.eq_none_or_eq_some (scan (pre ++ [segs[a]]) ci r) with hs | ⟨⟨i', n'⟩, hs⟩
        · simp [hs] at hc
        · simp only [hs] at hc
          split at hc
          · cases hc
          · rename_i hdel
            simp only [Option.some.injEq, Prod.mk.injEq] at hc
            obtain ⟨rfl, rfl⟩ := hc
            exact ⟨hs, by simpa using hdel⟩
      obtain ⟨hscan, hdel⟩ := hscan
      obtain ⟨_, f, hf, hn⟩ := scan_get _ _ _ _ _ hscan
      have hchild := gen_get_child ⟨r.reverse, pre, (ci : Int), false⟩ rfl segs[a] i f hf n hn
      simp only at hchild
      have hne1 : ¬ ((i : Int) = -1) := by omega
      have hne2 : ¬ ((i : Int) < 0) := by omega
      -- the body
      have hbody : ∀ x ret, _node_seq.loop1 segs (nodeOf r.reverse pre ci cur, x, ret) (a : Int) =
          if (!((a : Int) == (segs.length : Int) - 1) && !n.kind.isGroup) = true then .error .valueError
          else .ok (.next (nodeOf r.reverse (pre ++ [segs[a]]) i n, (i : Int), ret ++ [nodeOf r.reverse (pre ++ [segs[a]]) i n])) := by
        intro x ret
        simp [_node_seq.loop1, hseg, hnode, pyAsInner, hch, pyDictGetD, hget, hne1, hne2, hchild, nodeOf_isDataset, bind,
          Except.bind, pure, Except.pure]
      by_cases hlast : a + 1 < segs.length
      · -- not the last segment
        have hnl : ((a : Int) == (segs.length : Int) - 1) = false := by
          simp only [beq_eq_false_iff_ne, ne_eq]; omega
        cases hng : n.kind.isGroup with
        | false =>
          have hdrop2 : segs.drop (a + 1) = segs[a + 1] :: segs.drop (a + 2) := List.drop_eq_getElem_cons hlast
          simp only [SeqOutcome]
          rw [hdrop2]
          simp [lookFrom, hng, SeqOutcome, pyForRet, hbody, hnl]
        | true =>
          have hstep := ih (a + 1) (by omega) (by omega) (pre ++ [segs[a]]) i n (i : Int)
            (ret ++ [nodeOf r.reverse (pre ++ [segs[a]]) i n]) (by simp)
            (fun _ => ⟨hng, grpFrom_of_scan r _ ci i n hscan hng⟩)
          have happ : pre ++ [segs[a]] ++ segs.drop (a + 1) = pre ++ segs[a] :: segs.drop (a + 1) := by simp
          simp only [pyForRet, hbody, hnl, hng]
          simp only [Bool.not_false, Bool.not_true, Bool.and_false, Bool.false_eq_true, ↓reduceIte]
          revert hstep
          cases lookFrom r (pre ++ [segs[a]]) i n (segs.drop (a + 1)) <;> simp only [SeqOutcome, happ] <;> exact id
      · -- the last segment
        have hlen : segs.length = a + 1 := by omega
        have hl : ((a : Int) == (segs.length : Int) - 1) = true := by
          simp only [beq_iff_eq]; omega
        have hstep := ih (a + 1) (by omega) (by omega) (pre ++ [segs[a]]) i n (i : Int)
          (ret ++ [nodeOf r.reverse (pre ++ [segs[a]]) i n]) (by simp) (fun h => by omega)
        have happ : pre ++ [segs[a]] ++ segs.drop (a + 1) = pre ++ segs[a] :: segs.drop (a + 1) := by simp
        simp only [pyForRet, hbody, hl]
        simp only [Bool.not_true, Bool.false_and, Bool.false_eq_true, ↓reduceIte]
        revert hstep
        cases lookFrom r (pre ++ [segs[a]]) i n (segs.drop (a + 1)) <;> simp only [SeqOutcome, happ] <;> exact id

/-- **`_find` on an absolute path is the model's `look`**: the creation index when the whole path
exists, `None` when a segment is missing, `ValueError` when the path continues below a dataset -/
theorem gen_find (r : Rec V) (hne : r ≠ []) (hwf : ∀ p ∈ r, WF p) (g : Path) (c : Int) (q : Path) :
    _find ⟨r.reverse, g, c, false⟩ ⟨true, q⟩ =
      match look r q with
      | .found cf _ => .ok (some (cf : Int))
      | .part _ _ => .ok none
      | .insideValue => .error .valueError := by
  have hroot : pyMkGroup r.reverse ([] : Path) none = .ok (nodeOf r.reverse [] 0 (vnode : RNode V)) := by
    simp [pyMkGroup, nodeOf, vnode, RKind.isGroup]
  cases q with
  | nil =>
    simp [_find, _node_seq, pyPathIsAbs, hroot, pyPathIsRoot, pyListGet_neg_one, nodeOf_gpath, nodeOf_cidx, pyAbsPath,
      look, lookFrom, bind, Except.bind, pure, Except.pure]
  | cons k rest =>
    have hloop := gen_node_seq_loop r hne hwf (k :: rest) (k :: rest).length 0 rfl (Nat.zero_le _) [] 0 vnode 0
      [nodeOf r.reverse [] 0 (vnode : RNode V)] rfl (fun _ => ⟨rfl, grpFrom_root r hwf⟩)
    simp only [List.drop_zero, List.nil_append] at hloop
    unfold look
    revert hloop
    cases hl : lookFrom r [] 0 vnode (k :: rest) with
    | found cf nf =>
      rintro ⟨x, ret, hres, hlast⟩
      simp only [Int.natCast_zero, List.length_cons, Int.natCast_add, Int.natCast_one] at hres
      simp [_find, _node_seq, pyPathIsAbs, hroot, pyPathIsRoot, pyPathIsDot, pyPathSegs, hres, pyListGet_neg_one, hlast,
        nodeOf_gpath, nodeOf_cidx, pyAbsPath, bind, Except.bind, pure, Except.pure]
    | part pre' rest' =>
      rintro ⟨ret, cp, np, hres, hlast⟩
      obtain ⟨a, _, _, k', y', h1, h2, h3, _⟩ := lookFrom_part_props r _ _ _ _ _ _ hl
      have hneq : ¬ (pre' = k :: rest) := by
        intro h
        have h4 : (k :: rest).length = a.length + rest'.length := by rw [h1]; simp
        have h5 : pre'.length = a.length := by rw [h2]; simp
        rw [h] at h5
        rw [h3] at h4
        simp at h4 h5
        omega
      simp only [Int.natCast_zero, List.length_cons, Int.natCast_add, Int.natCast_one] at hres
      simp [_find, _node_seq, pyPathIsAbs, hroot, pyPathIsRoot, pyPathIsDot, pyPathSegs, hres, pyListGet_neg_one, hlast,
        nodeOf_gpath, pyAbsPath, hneq, bind, Except.bind, pure, Except.pure]
    | insideValue =>
      intro hres
      simp only [SeqOutcome, Int.natCast_zero, List.length_cons, Int.natCast_add, Int.natCast_one] at hres
      simp [_find, _node_seq, pyPathIsAbs, hroot, pyPathIsRoot, pyPathIsDot, pyPathSegs, hres, bind, Except.bind, pure,
        Except.pure]

/-- **`_find` on a relative path, called on the group node `(g, c)`, is the model's `lookFrom`**
started at that node (`"."` and `""` are not paths of the model) -/
theorem gen_find_rel (r : Rec V) (hne : r ≠ []) (hwf : ∀ p ∈ r, WF p) (g : Path) (c : Nat) (cur : RNode V)
    (hcur : cur.kind.isGroup = true) (hfrom : GrpFrom r g c) (k : Key) (rest : Path) (hdot : k :: rest ≠ ["."]) :
    _find ⟨r.reverse, g, (c : Int), false⟩ ⟨false, k :: rest⟩ =
      match lookFrom r g c cur (k :: rest) with
      | .found cf _ => .ok (some (cf : Int))
      | .part _ _ => .ok none
      | .insideValue => .error .valueError := by
  have hself : (PyNode.inner ⟨r.reverse, g, (c : Int), false⟩ : PyNode V) = nodeOf r.reverse g c cur := by
    simp [nodeOf, hcur]
  have hloop := gen_node_seq_loop r hne hwf (k :: rest) (k :: rest).length 0 rfl (Nat.zero_le _) g c cur 0
    [nodeOf r.reverse g c cur] rfl (fun _ => ⟨hcur, hfrom⟩)
  simp only [List.drop_zero] at hloop
  have hd : pyPathIsDot ⟨false, k :: rest⟩ = false := by
    simp only [pyPathIsDot, Bool.not_false, Bool.true_and, beq_eq_false_iff_ne, ne_eq]
    exact hdot
  revert hloop
  cases hl : lookFrom r g c cur (k :: rest) with
  | found cf nf =>
    rintro ⟨x, ret, hres, hlast⟩
    simp only [Int.natCast_zero, List.length_cons, Int.natCast_add, Int.natCast_one] at hres
    simp [_find, _node_seq, pyPathIsAbs, hself, pyPathIsRoot, hd, pyPathSegs, hres, pyListGet_neg_one, hlast,
      nodeOf_gpath, nodeOf_cidx, pyAbsPath, bind, Except.bind, pure, Except.pure]
  | part pre' rest' =>
    rintro ⟨ret, cp, np, hres, hlast⟩
    obtain ⟨a, _, _, k', y', h1, h2, h3, _⟩ := lookFrom_part_props r _ _ _ _ _ _ hl
    have hneq : ¬ (pre' = g ++ k :: rest) := by
      intro h
      have h4 : (k :: rest).length = a.length + rest'.length := by rw [h1]; simp
      have h5 : pre'.length = g.length + a.length := by rw [h2]; simp
      rw [h] at h5
      rw [h3] at h4
      simp at h4 h5
      omega
    simp only [Int.natCast_zero, List.length_cons, Int.natCast_add, Int.natCast_one] at hres
    simp [_find, _node_seq, pyPathIsAbs, hself, pyPathIsRoot, hd, pyPathSegs, hres, pyListGet_neg_one, hlast,
      nodeOf_gpath, pyAbsPath, hneq, bind, Except.bind, pure, Except.pure]
  | insideValue =>
    intro hres
    simp only [SeqOutcome, Int.natCast_zero, List.length_cons, Int.natCast_add, Int.natCast_one] at hres
    simp [_find, _node_seq, pyPathIsAbs, hself, pyPathIsRoot, hd, pyPathSegs, hres, bind, Except.bind, pure,
      Except.pure]

/-! ## under the record invariant of C01 -/

theorem wf_of_inv : ∀ (r : Rec V), Inv r → ∀ p ∈ r, WF p
  | [], _, p, hp => by cases hp
  | q :: r, h, p, hp => by
    obtain ⟨h1, _, h3⟩ := h
    rcases List.mem_cons.mp hp with rfl | hp'
    · exact h1
    · exact wf_of_inv r h3 p hp'

/-- `_find` of the source is `look` of the model on every record the write paths can produce
(`Inv` is proved preserved by every operation: `MetadorModel.C01.inv_preserved`) -/
theorem gen_find_inv (r : Rec V) (hne : r ≠ []) (hinv : Inv r) (g : Path) (c : Int) (q : Path) :
    _find ⟨r.reverse, g, c, false⟩ ⟨true, q⟩ =
      match look r q with
      | .found cf _ => .ok (some (cf : Int))
      | .part _ _ => .ok none
      | .insideValue => .error .valueError :=
  gen_find r hne (wf_of_inv r hinv) g c q

/-- what `rec[path]` shows (`viewKind`) in terms of the translated `_find`: a path is visible
exactly when `_find` returns an index -/
theorem gen_find_visible (r : Rec V) (hne : r ≠ []) (hinv : Inv r) (q : Path) :
    (∃ i, _find ⟨r.reverse, [], 0, false⟩ ⟨true, q⟩ = .ok (some i)) ↔ ∃ c n, look r q = .found c n := by
  rw [gen_find_inv r hne hinv]
  cases look r q <;> simp

/-! ## non-vacuity: a three-container record with every raw kind -/

deriving instance DecidableEq for Except

private def exRec : Rec Nat :=
  [ [([], vnode), (["g"], vnode), (["g", "z"], ⟨.data 3, []⟩)],
    [([], vnode), (["g"], ⟨.sgroup, []⟩), (["g", "y"], ⟨.data 2, []⟩), (["d"], ⟨.del, []⟩)],
    [([], vnode), (["g"], vnode), (["g", "x"], ⟨.data 1, []⟩), (["d"], ⟨.data 0, []⟩)] ]

example : _find ⟨exRec.reverse, [], 0, false⟩ ⟨true, ["g", "z"]⟩ = .ok (some 2) := by decide
example : _find ⟨exRec.reverse, [], 0, false⟩ ⟨true, ["g", "y"]⟩ = .ok (some 1) := by decide
example : _find ⟨exRec.reverse, [], 0, false⟩ ⟨true, ["g", "x"]⟩ = .ok none := by decide
example : _find ⟨exRec.reverse, [], 0, false⟩ ⟨true, ["d"]⟩ = .ok none := by decide
example : _find ⟨exRec.reverse, [], 0, false⟩ ⟨true, ["g", "y", "q"]⟩ = .error .valueError := by decide
example : (_children ⟨exRec.reverse, ["g"], 1, false⟩ : Except PyErr _) = .ok [("y", 1), ("z", 2)] := by decide

end MetadorModel.Bridge.OverlayScan
