import MetadorModel.Gen.Metaclass
import MetadorModel.Model.Plugin
/-! Bridge: the loop over `bases` in `PluginMetaclassMixin.__new__` (translated on every run)
refuses a class exactly when some base is marked, whatever its position. -/
namespace MetadorModel.Bridge.Metaclass
open MetadorModel

theorem gen_newRaises (l : List Bool) : Gen.Metaclass.newRaises l = Plugin.newRaises l := by
  induction l with
  | nil => rfl
  | cons m rest ih =>
    cases m <;> simp_all [Gen.Metaclass.newRaises, Plugin.newRaises]

end MetadorModel.Bridge.Metaclass
