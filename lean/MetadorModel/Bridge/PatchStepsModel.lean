import MetadorModel.Bridge.PatchStepsDict
import MetadorModel.Proofs.RecordInv
/-!
# The patch life cycle as sequences of file-system steps (C11 translation tie; hand-written side)

`createPatchW`, `commitPlainW`, `commitMFW`, `discardW`, `closeW`: what `create_patch`, `commit_patch` (both
classes), `discard_patch` and `close` do to the Python record object, to the disk **and in which order the
file system is touched** (`World.trace`), in closed form over a state `s` of the record model. This is the
step list of `Model/Crash.lean` (header: steps 1–8) written out as data.

* `Bridge/PatchSteps*.lean` prove that the functions regenerated from the source (`Gen/PatchSteps.lean`)
  are equal to these closed forms — that is the tie to the source.
* This file proves, once and without reference to anything generated, that the closed forms are the record
  model (`resOf s (createPatchW s) = createPatch s`, … — including the sets of files created / removed /
  rewritten), for states a Python object can stand for (`PyRep`) whose writable container exists (`OnDisk`).
* `Bridge/PatchStepsCrash.lean` proves that every crash state of the step sequences is a `Crash.Reach` state.
-/
set_option linter.unusedSimpArgs false
set_option linter.unusedVariables false
namespace MetadorModel.Bridge.PatchSteps
open MetadorModel.FindFiles MetadorModel.Record MetadorModel.RecordPy MetadorModel.PatchPy

/-! ## representable states -/

/-- a handle of the model that a Python record object can stand for: `_ublocks` is a dict keyed by file
name, and "the last file is open `r+`" presupposes a last file -/
def PyRep (h : Handle) : Prop := (fileNames h).Nodup ∧ (h.lastRW = true → h.files ≠ [])

/-- the writable container of the handle (if any) is a container on disk — nobody removed it behind the
back of the process (`Inv.writable` of C02 implies this) -/
def OnDisk (s : State) : Prop :=
  hasWritable s.h = true → ∀ f ub, lastFile s.h.files = some (f, ub) → ∃ p, payloadOf s.disk f = some p

theorem onDisk_of_inv {s : State} (hi : Inv s) : OnDisk s := by
  intro hw f ub hl
  obtain ⟨f', ub', hl', u, p, hg, _⟩ := hi.writable hw
  rw [hl] at hl'; cases hl'
  exact ⟨p, by simp [payloadOf, hg]⟩

theorem ofState_files (s : State) : (World.ofState s).self.files = mkHandles s.h.files s.h.lastRW := rfl

theorem state_ofState (s : State) (hp : PyRep s.h) : (World.ofState s).state = s := by
  cases s with
  | mk d h n =>
    simp only [World.state, World.ofState]
    rw [handle_ofHandle h hp.1 hp.2]

theorem resOf_refused_next (s : State) (e : Out) (n : Nat) (hp : PyRep s.h) :
    resOf s ((.error e : Except Out Unit), { World.ofState s with next := n }) = fail { s with next := n } e := by
  simp only [resOf, fail, World.state, World.ofState, handle_ofHandle s.h hp.1 hp.2]
  simp [createdOf, removedOf, writtenOf, touchedOf, uniq]

theorem resOf_refused (s : State) (e : Out) (hp : PyRep s.h) :
    resOf s ((.error e : Except Out Unit), World.ofState s) = fail s e :=
  resOf_refused_next s e s.next hp

/-! ## the step sequences -/

/-- steps 1–3 of `Model/Crash.lean`: `_new_container` -/
def createTrace (path : Name) (ub : UB) : List (Act Name UB) :=
  [.create path 1024, .h5close path true, .writeUB path ub, .reopen path true]

/-- steps 4–7: `IH5Record.commit_patch` -/
def commitTrace (f : Name) (ub : UB) : List (Act Name UB) :=
  [.h5close f true, .hashPayload f 1024, .writeUB f ub, .reopen f false]

/-- replace the last handle -/
def setLastH (l : List H5) (x : H5) : List H5 := l.dropLast ++ [x]

/-- `create_patch` -/
def createPatchW (s : State) : Except Out Unit × World :=
  let w := World.ofState s
  if s.h.closed then (.error .valueError, w)
  else if !s.h.allow then (.error .valueError, w)
  else if hasWritable s.h then (.error .valueError, w)
  else
    match s.h.files, lastFile s.h.files with
    | (f0, _) :: _, some (_, ul) =>
      let path := patchFile (inferName f0) (ul.idx + 1)
      let ub := newPatchUB ul s.next
      if (fileNames s.h).contains path then (.error .osError, { w with next := s.next + 1 })
      else if (getF s.disk path).isSome then (.error .fileExists, { w with next := s.next + 1 })
      else
        (.ok (), { disk := setF s.disk path (.cont ub []), next := s.next + 1,
                   self := { w.self with files := w.self.files ++ [⟨path, true, true⟩],
                                         ublocks := pyDictSet w.self.ublocks path ub },
                   trace := createTrace path ub })
    | _, _ => (.error .indexError, w)

/-- `IH5Record.commit_patch(**kw)` -/
def commitPlainW (s : State) (kw : Kw) : Except Out Unit × World :=
  let w := World.ofState s
  if !kw.isEmpty then (.error .valueError, w)
  else if s.h.closed then (.error .valueError, w)
  else if !s.h.allow then (.error .valueError, w)
  else if !hasWritable s.h then (.error .valueError, w)
  else
    match lastFile s.h.files with
    | none => (.error .indexError, w)
    | some (f, ub) =>
      match payloadOf s.disk f with
      | none =>
        (.error .fileNotFound,
          { w with self := { w.self with files := setLastH w.self.files ⟨f, true, false⟩ },
                   trace := [.h5close f true] })
      | some p =>
        let ub' : UB := { ub with hash := some p }
        (.ok (), { disk := setF s.disk f (.cont ub' p), next := s.next,
                   self := { w.self with files := setLastH w.self.files ⟨f, false, true⟩,
                                         ublocks := pyDictSet w.self.ublocks f ub' },
                   trace := commitTrace f ub' })

def KW_STUB : Str := ['_', '_', 'i', 's', '_', 's', 't', 'u', 'b', '_', '_']
def KW_EXTS : Str := ['m', 'a', 'n', 'i', 'f', 'e', 's', 't', '_', 'e', 'x', 't', 's']

/-- the keywords `IH5MFRecord.commit_patch` hands on to the base class -/
def restKw (kw : Kw) : Kw := (pyKwPop (pyKwPop kw KW_STUB (some ())).2 KW_EXTS none).2

/-- `IH5MFRecord.commit_patch(**kw)`: step 8 (the sidecar) comes after steps 4–7 -/
def commitMFW (s : State) (kw : Kw) : Except Out Unit × World :=
  let w := World.ofState s
  match lastFile s.h.files with
  | none => (.error .indexError, w)
  | some (f, ub) =>
    match commitPlainW (mfPrep s { ub with ext := some (s.next, s.next + 1) }) (restKw kw) with
    | (.ok _, w1) =>
      (.ok (), { w1 with disk := setF w1.disk (manifestFile f) (.mf s.next (s.next + 1)),
                         self := { w1.self with manifest := some (s.next, s.next + 1) },
                         trace := w1.trace ++ [.writeManifest (manifestFile f) s.next (s.next + 1)] })
    | (.error .valueError, _) => (.error .valueError, { w with next := s.next + 2 })
    | (.error e, w1) => (.error e, w1)

/-- `self.commit_patch(**kw)`: the method of the class of the object -/
def commitPatchW (s : State) (kw : Kw) : Except Out Unit × World :=
  if s.h.mfcls then commitMFW s kw else commitPlainW s kw

/-- `discard_patch` -/
def discardW (s : State) : Except Out Unit × World :=
  let w := World.ofState s
  if s.h.closed then (.error .valueError, w)
  else if !s.h.allow then (.error .valueError, w)
  else if !hasWritable s.h then (.error .valueError, w)
  else if s.h.files.length == 1 then (.error .valueError, w)
  else
    match lastFile s.h.files with
    | none => (.error .indexError, w)
    | some (f, _) =>
      let o : Obj := { w.self with files := w.self.files.dropLast, ublocks := dropLastF w.self.ublocks }
      match getF s.disk f with
      | none => (.error .fileNotFound, { w with self := o, trace := [.h5close f true] })
      | some _ => (.ok (), { w with disk := eraseF s.disk f, self := o, trace := [.h5close f true, .unlink f] })

/-- the `close()` calls of the loop `for f in self.__files__: f.close()` -/
def closeActs (l : List H5) : List (Act Name UB) := (l.filter (·.live)).map (fun h => .h5close h.name h.rw)

/-- `close(commit)` -/
def closeW (s : State) (commit : Bool) : Except Out Unit × World :=
  let w := World.ofState s
  if s.h.closed then (.ok (), w)
  else
    match (if hasWritable s.h && commit then commitPatchW s [] else (.ok (), w)) with
    | (.error e, w1) => (.error e, w1)
    | (.ok _, w1) =>
      (.ok (), { w1 with self := { w1.self with files := [], closed := true },
                         trace := w1.trace ++ closeActs w1.self.files })

/-! ## the closed forms are the record model -/

theorem handle_append_new (h : Handle) (hn : (fileNames h).Nodup) (path : Name) (ub : UB)
    (hnew : path ∉ fileNames h) (o : Obj)
    (hf : o.files = mkHandles h.files h.lastRW ++ [⟨path, true, true⟩])
    (hu : o.ublocks = pyDictSet h.files path ub) :
    o.handle.files = h.files ++ [(path, ub)] ∧ o.handle.lastRW = true := by
  constructor
  · rw [handle_files, hf, hu, List.map_append, mkHandles_names, pairUp_append, pyDictSet_new _ _ _ hnew]
    congr 1
    · rw [pairUp_congr h.files (h.files ++ [(path, ub)])]
      · exact pairUp_self _ hn
      · intro n hm
        exact pyDictGet_snoc_old _ _ _ _ (fun e => hnew (e ▸ hm))
    · simp [pairUp, lookD, pyDictGet_snoc_new _ _ _ hnew]
  · simp [Obj.handle, hf, lastIsRW]

/-- **`create_patch`**: the step sequence is the model's `createPatch`, including the sets of files
created / removed / rewritten -/
theorem createPatchW_res (s : State) (hp : PyRep s.h) : resOf s (createPatchW s) = createPatch s := by
  unfold createPatchW createPatch
  simp only
  cases hc : s.h.closed
  case true => simp [resOf_refused s _ hp]
  case false =>
    cases ha : s.h.allow
    case false => simp [resOf_refused s _ hp]
    case true =>
      cases hw : hasWritable s.h
      case true => simp [resOf_refused s _ hp]
      case false =>
        simp only [Bool.false_eq_true, if_false, Bool.not_true]
        cases hfs : s.h.files with
        | nil => simp [lastFile, resOf_refused s _ hp]
        | cons a rest =>
          obtain ⟨f0, u0⟩ := a
          cases hl : lastFile ((f0, u0) :: rest) with
          | none => simp [resOf_refused s _ hp]
          | some y =>
            obtain ⟨fl, ul⟩ := y
            simp only [newContainer, fileNames, hfs]
            rcases Bool.eq_false_or_eq_true (((f0, u0) :: rest).map Prod.fst |>.contains (patchFile (inferName f0) (ul.idx + 1)))
              with hopen | hopen
            · simp only [hopen, if_true]
              exact resOf_refused_next s _ _ hp
            · rcases Bool.eq_false_or_eq_true (getF s.disk (patchFile (inferName f0) (ul.idx + 1))).isSome with hex | hex
              · simp only [hopen, hex, Bool.false_eq_true, if_false, if_true]
                exact resOf_refused_next s _ _ hp
              · simp only [hopen, hex, Bool.false_eq_true, if_false]
                have hnew : patchFile (inferName f0) (ul.idx + 1) ∉ fileNames s.h := by
                  simpa [fileNames, hfs] using hopen
                obtain ⟨e1, e2⟩ := handle_append_new s.h hp.1 _ (newPatchUB ul s.next) hnew
                  { (World.ofState s).self with
                    files := (World.ofState s).self.files ++ [⟨patchFile (inferName f0) (ul.idx + 1), true, true⟩],
                    ublocks := pyDictSet (World.ofState s).self.ublocks (patchFile (inferName f0) (ul.idx + 1)) (newPatchUB ul s.next) }
                  rfl rfl
                simp only [resOf, World.state]
                simp only [Obj.handle] at e1 e2 ⊢
                simp only [e1, e2]
                simp [World.ofState, Obj.ofHandle, hc, ha, hfs, createTrace, createdOf, removedOf, writtenOf, touchedOf,
                  uniq, hex]

theorem setLastUB_snoc (init : List (Name × UB)) (f : Name) (u v : UB) :
    setLastUB (init ++ [(f, u)]) v = init ++ [(f, v)] := by
  induction init with
  | nil => simp [setLastUB]
  | cons a r ih =>
    rcases nil_or_snoc r with rfl | ⟨r', y, rfl⟩
    · simp [setLastUB]
    · cases hr : (r' ++ [y]) ++ [(f, u)] with
      | nil => simp at hr
      | cons z t =>
        rw [List.cons_append, hr, setLastUB, ← hr, ih]
        simp

theorem setLastH_snoc (l : List H5) (x y : H5) : setLastH (l ++ [x]) y = l ++ [y] := by
  simp [setLastH]

theorem nodup_snoc_notin {init : List (Name × UB)} {f : Name} {u : UB}
    (hn : ((init ++ [(f, u)]).map Prod.fst).Nodup) : f ∉ init.map Prod.fst := by
  rw [List.map_append, List.nodup_append] at hn
  intro hm
  exact hn.2.2 f hm f (by simp) rfl

/-- the object after the last user block was replaced and the last handle re-made -/
theorem handle_setLast (h : Handle) (hn : (fileNames h).Nodup) (init : List (Name × UB)) (f : Name) (u v : UB)
    (hfs : h.files = init ++ [(f, u)]) (x : H5) (hx : x.name = f) (o : Obj)
    (hf : o.files = setLastH (mkHandles h.files h.lastRW) x)
    (hu : o.ublocks = pyDictSet h.files f v) :
    o.handle.files = setLastUB h.files v ∧ o.handle.lastRW = (x.live && x.rw) := by
  have hni : f ∉ init.map Prod.fst := by
    apply nodup_snoc_notin (u := u)
    rw [← hfs]; exact hn
  constructor
  · rw [handle_files, hf, hu, hfs, mkHandles_snoc, setLastH_snoc, pyDictSet_snoc _ _ _ _ hni, setLastUB_snoc]
    have hnames : (init.map ro ++ [x]).map H5.name = (init ++ [(f, v)]).map Prod.fst := by
      simp [ro, Function.comp_def, hx]
    rw [hnames]
    apply pairUp_self
    have : (init ++ [(f, v)]).map Prod.fst = (init ++ [(f, u)]).map Prod.fst := by simp
    rw [this, ← hfs]
    exact hn
  · simp [Obj.handle, hf, hfs, mkHandles_snoc, setLastH_snoc, lastIsRW]

theorem getF_of_payloadOf {d : Disk} {f : Name} {p : List Nat} (h : payloadOf d f = some p) :
    ∃ ub, getF d f = some (.cont ub p) := by
  unfold payloadOf at h
  cases hg : getF d f with
  | none => simp [hg] at h
  | some v =>
    cases v with
    | cont ub q => simp [hg] at h; exact ⟨ub, by rw [h]⟩
    | mf a b => simp [hg] at h

/-- **`IH5Record.commit_patch()`**: the step sequence is the model's `commitPlain` -/
theorem commitPlainW_res (s : State) (hp : PyRep s.h) (hd : OnDisk s) :
    resOf s (commitPlainW s []) = commitPlain s := by
  unfold commitPlainW commitPlain
  simp only [List.isEmpty_nil, Bool.not_true, Bool.false_eq_true, if_false]
  cases hc : s.h.closed
  case true => simp [resOf_refused s _ hp]
  case false =>
    cases ha : s.h.allow
    case false => simp [resOf_refused s _ hp]
    case true =>
      cases hw : hasWritable s.h
      case false => simp [resOf_refused s _ hp]
      case true =>
        simp only [Bool.false_eq_true, if_false, Bool.not_true]
        rcases nil_or_snoc s.h.files with hnil | ⟨init, ⟨f, ub⟩, hsn⟩
        · simp [hasWritable, hnil] at hw
        · have hl : lastFile s.h.files = some (f, ub) := by rw [hsn]; exact lastFile_append_single _ _
          obtain ⟨p, hpay⟩ := hd hw f ub hl
          obtain ⟨ub0, hg⟩ := getF_of_payloadOf hpay
          simp only [hl, hpay]
          obtain ⟨e1, e2⟩ := handle_setLast s.h hp.1 init f ub { ub with hash := some p } hsn ⟨f, false, true⟩ rfl
            { (World.ofState s).self with
              files := setLastH (World.ofState s).self.files ⟨f, false, true⟩,
              ublocks := pyDictSet (World.ofState s).self.ublocks f { ub with hash := some p } }
            rfl rfl
          simp only [resOf, World.state]
          simp only [Obj.handle] at e1 e2 ⊢
          simp only [e1, e2]
          simp [World.ofState, Obj.ofHandle, hc, ha, commitTrace, createdOf, removedOf, writtenOf, touchedOf,
            uniq, hg, getF_setF_eq]

/-- any keyword is refused by the base class before it looks at anything -/
theorem commitPlainW_kw (s : State) (hp : PyRep s.h) (kw : Kw) (hk : kw ≠ []) :
    resOf s (commitPlainW s kw) = fail s .valueError := by
  unfold commitPlainW
  cases kw with
  | nil => exact absurd rfl hk
  | cons a r => simp [resOf_refused s _ hp]

theorem manifestFile_ne (f : Name) : manifestFile f ≠ f := by
  intro h
  have := congrArg List.length h
  simp [manifestFile, mfExt] at this

theorem pyRep_mfPrep (s : State) (u : UB) (hp : PyRep s.h) : PyRep (mfPrep s u).h := by
  constructor
  · simp only [mfPrep, fileNames, map_fst_setLastUB]; exact hp.1
  · intro hr hnil
    apply hp.2 hr
    have := setLastUB_isEmpty s.h.files u
    simp only [mfPrep] at hnil
    rw [hnil] at this
    simpa using this.symm

/-- **`IH5MFRecord.commit_patch(**kw)`** with no keyword the base class would refuse: the step sequence is the
model's `commitMF` — in particular the sidecar is written after the container is complete -/
theorem commitMFW_res (s : State) (hp : PyRep s.h) (hd : OnDisk s) (kw : Kw) (hk : restKw kw = []) :
    resOf s (commitMFW s kw) = commitMF s := by
  unfold commitMFW commitMF
  simp only [hk]
  rcases nil_or_snoc s.h.files with hnil | ⟨init, ⟨f, ub⟩, hsn⟩
  · simp [hnil, lastFile, resOf_refused s _ hp]
  · have hl : lastFile s.h.files = some (f, ub) := by rw [hsn]; exact lastFile_append_single _ _
    simp only [hl]
    generalize hubT : ({ ub with ext := some (s.next, s.next + 1) } : UB) = ubT
    have hp1 := pyRep_mfPrep s ubT hp
    have hsn1 : (mfPrep s ubT).h.files = init ++ [(f, ubT)] := by
      simp only [mfPrep, hsn, setLastUB_snoc]
    have hl1 : lastFile (mfPrep s ubT).h.files = some (f, ubT) := by rw [hsn1]; exact lastFile_append_single _ _
    have hw1 : hasWritable (mfPrep s ubT).h = hasWritable s.h := hasWritable_setLastUB s.h ubT
    unfold commitPlainW commitPlain
    simp only [List.isEmpty_nil, Bool.not_true, Bool.false_eq_true, if_false]
    have hc1 : (mfPrep s ubT).h.closed = s.h.closed := rfl
    have ha1 : (mfPrep s ubT).h.allow = s.h.allow := rfl
    have hd1 : (mfPrep s ubT).disk = s.disk := rfl
    rw [hc1, ha1, hw1]
    cases hc : s.h.closed
    case true => simp [fail, resOf_refused_next s _ _ hp]
    case false =>
      cases ha : s.h.allow
      case false => simp [fail, resOf_refused_next s _ _ hp]
      case true =>
        cases hw : hasWritable s.h
        case false => simp [fail, resOf_refused_next s _ _ hp]
        case true =>
          simp only [Bool.false_eq_true, if_false, Bool.not_true]
          obtain ⟨p, hpay⟩ := hd hw f ub hl
          obtain ⟨ub0, hg⟩ := getF_of_payloadOf hpay
          simp only [hl1, hd1, hpay]
          obtain ⟨e1, e2⟩ := handle_setLast (mfPrep s ubT).h hp1.1 init f ubT { ubT with hash := some p } hsn1
            ⟨f, false, true⟩ rfl
            { (World.ofState (mfPrep s ubT)).self with
              files := setLastH (World.ofState (mfPrep s ubT)).self.files ⟨f, false, true⟩,
              ublocks := pyDictSet (World.ofState (mfPrep s ubT)).self.ublocks f { ubT with hash := some p },
              manifest := some (s.next, s.next + 1) }
            rfl rfl
          simp only [resOf, World.state]
          simp only [Obj.handle] at e1 e2 ⊢
          simp only [e1, e2]
          have hne : manifestFile f ≠ f := manifestFile_ne f
          have hne' : f ≠ manifestFile f := fun e => hne e.symm
          rcases Bool.eq_false_or_eq_true (getF s.disk (manifestFile f)).isSome with hex | hex <;>
            simp [World.ofState, Obj.ofHandle, mfPrep, hc, ha, commitTrace, createdOf, removedOf, writtenOf, touchedOf,
              uniq, hg, hex, getF_setF_eq, getF_setF_ne _ _ _ _ hne, getF_setF_ne _ _ _ _ hne', hne, hne']

/-- a keyword the base class does not know: `ValueError`, the in-memory user block is restored, nothing was
written (two uuids were drawn) -/
theorem commitMFW_kw (s : State) (hp : PyRep s.h) (kw : Kw) (hk : restKw kw ≠ []) (f : Name) (ub : UB)
    (hl : lastFile s.h.files = some (f, ub)) :
    resOf s (commitMFW s kw) = fail { s with next := s.next + 2 } .valueError := by
  unfold commitMFW commitPlainW
  simp only [hl]
  cases hr : restKw kw with
  | nil => exact absurd hr hk
  | cons a r => simp [resOf_refused_next s _ _ hp]

theorem commitPatchW_res (s : State) (hp : PyRep s.h) (hd : OnDisk s) :
    resOf s (commitPatchW s []) = commitPatch s := by
  unfold commitPatchW commitPatch
  cases s.h.mfcls
  · simp only [Bool.false_eq_true, if_false]; exact commitPlainW_res s hp hd
  · simp only [if_true]; exact commitMFW_res s hp hd [] (by simp [restKw, pyKwPop])

/-! ### discard -/

theorem dropLastF_snoc (init : List (Name × UB)) (x : Name × UB) : dropLastF (init ++ [x]) = init := by
  induction init with
  | nil => simp [dropLastF]
  | cons a r ih =>
    rcases nil_or_snoc r with rfl | ⟨r', y, rfl⟩
    · simp [dropLastF]
    · cases hr : (r' ++ [y]) ++ [x] with
      | nil => simp at hr
      | cons z t =>
        rw [List.cons_append, hr, dropLastF, ← hr, ih]

theorem handle_dropLast (h : Handle) (hn : (fileNames h).Nodup) (init : List (Name × UB)) (f : Name) (u : UB)
    (hfs : h.files = init ++ [(f, u)]) (o : Obj)
    (hf : o.files = (mkHandles h.files h.lastRW).dropLast) (hu : o.ublocks = dropLastF h.files) :
    o.handle.files = dropLastF h.files ∧ o.handle.lastRW = false := by
  have hni : (init.map Prod.fst).Nodup := by
    have : (fileNames h) = init.map Prod.fst ++ [f] := by simp [fileNames, hfs]
    rw [this] at hn
    exact (List.nodup_append.mp hn).1
  constructor
  · rw [handle_files, hf, hu, hfs, mkHandles_snoc, List.dropLast_concat, dropLastF_snoc]
    have : (init.map ro).map H5.name = init.map Prod.fst := by simp [ro, Function.comp_def]
    rw [this]
    exact pairUp_self _ hni
  · simp only [Obj.handle, hf, hfs, mkHandles_snoc, List.dropLast_concat, lastIsRW]
    rcases nil_or_snoc init with rfl | ⟨i2, y, rfl⟩
    · simp
    · simp [ro]

/-- **`discard_patch`**: the step sequence is the model's `discardPatch` -/
theorem discardW_res (s : State) (hp : PyRep s.h) (hd : OnDisk s) : resOf s (discardW s) = discardPatch s := by
  unfold discardW discardPatch
  simp only
  cases hc : s.h.closed
  case true => simp [resOf_refused s _ hp]
  case false =>
    cases ha : s.h.allow
    case false => simp [resOf_refused s _ hp]
    case true =>
      cases hw : hasWritable s.h
      case false => simp [resOf_refused s _ hp]
      case true =>
        cases hlen : (s.h.files.length == 1)
        case true => simp [resOf_refused s _ hp]
        case false =>
          simp only [Bool.false_eq_true, if_false, Bool.not_true]
          rcases nil_or_snoc s.h.files with hnil | ⟨init, ⟨f, ub⟩, hsn⟩
          · simp [hasWritable, hnil] at hw
          · have hl : lastFile s.h.files = some (f, ub) := by rw [hsn]; exact lastFile_append_single _ _
            obtain ⟨p, hpay⟩ := hd hw f ub hl
            obtain ⟨ub0, hg⟩ := getF_of_payloadOf hpay
            simp only [hl, hg]
            obtain ⟨e1, e2⟩ := handle_dropLast s.h hp.1 init f ub hsn
              { (World.ofState s).self with
                files := (World.ofState s).self.files.dropLast,
                ublocks := dropLastF (World.ofState s).self.ublocks }
              rfl rfl
            simp only [resOf, World.state]
            simp only [Obj.handle] at e1 e2 ⊢
            simp only [e1, e2]
            simp [World.ofState, Obj.ofHandle, hc, ha, createdOf, removedOf, writtenOf, touchedOf, uniq, hg,
              getF_eraseF_eq]

/-! ### close -/

theorem touchedOf_append (a b : List (Act Name UB)) : touchedOf (a ++ b) = touchedOf a ++ touchedOf b := by
  induction a with
  | nil => rfl
  | cons x r ih =>
    cases x with
    | h5close f rw => cases rw <;> simp [touchedOf, ih]
    | reopen f rw => cases rw <;> simp [touchedOf, ih]
    | _ => simp [touchedOf, ih]

theorem createdOf_append (d0 : Disk) (a b : List (Act Name UB)) :
    createdOf d0 (a ++ b) = createdOf d0 a ++ createdOf d0 b := by
  induction a with
  | nil => rfl
  | cons x r ih =>
    cases x with
    | writeManifest f u v => by_cases h : (getF d0 f).isSome <;> simp [createdOf, ih, h]
    | _ => simp [createdOf, ih]

theorem removedOf_append (a b : List (Act Name UB)) : removedOf (a ++ b) = removedOf a ++ removedOf b := by
  induction a with
  | nil => rfl
  | cons x r ih => cases x <;> simp [removedOf, ih]

theorem createdOf_closeActs (d0 : Disk) (l : List H5) : createdOf d0 (closeActs l) = [] := by
  induction l with
  | nil => rfl
  | cons x r ih =>
    unfold closeActs at ih ⊢
    by_cases hx : x.live <;> simp [List.filter, hx, createdOf, ih]

theorem removedOf_closeActs (l : List H5) : removedOf (closeActs l) = [] := by
  induction l with
  | nil => rfl
  | cons x r ih =>
    unfold closeActs at ih ⊢
    by_cases hx : x.live <;> simp [List.filter, hx, removedOf, ih]

theorem touchedOf_closeActs_ro (l : List H5) (h : ∀ x ∈ l, x.rw = false) : touchedOf (closeActs l) = [] := by
  induction l with
  | nil => rfl
  | cons x r ih =>
    have hx := h x (by simp)
    have ih' := ih (fun y hy => h y (by simp [hy]))
    unfold closeActs at ih' ⊢
    by_cases hl : x.live <;> simp [List.filter, hl, touchedOf, ih', hx]

theorem touchedOf_closeActs_mk (init : List (Name × UB)) (f : Name) (u : UB) (rw : Bool) :
    touchedOf (closeActs (mkHandles (init ++ [(f, u)]) rw)) = if rw then [f] else [] := by
  rw [mkHandles_snoc]
  unfold closeActs
  rw [List.filter_append, List.map_append, touchedOf_append]
  have := touchedOf_closeActs_ro (init.map ro) (by intro x hx; obtain ⟨y, _, rfl⟩ := List.mem_map.mp hx; rfl)
  unfold closeActs at this
  rw [this]
  cases rw <;> simp [touchedOf]

/-- what `resOf` makes of the end of `close`: all handles closed, the list emptied, the object marked closed -/
theorem resOf_closeAll (s0 : State) (w1 : World) :
    resOf s0 ((.ok () : Except Out Unit),
        { w1 with self := { w1.self with files := [], closed := true }, trace := w1.trace ++ closeActs w1.self.files }) =
      { st := { disk := w1.disk, next := w1.next,
                h := { files := [], lastRW := false, allow := w1.self.allow, closed := true, mfcls := w1.self.mfcls,
                       manifest := w1.self.manifest } },
        out := .ok, created := uniq (createdOf s0.disk w1.trace), removed := removedOf w1.trace,
        written := (uniq (touchedOf w1.trace ++ touchedOf (closeActs w1.self.files))).filter
          (fun f => (getF s0.disk f).isSome && (getF w1.disk f).isSome) } := by
  simp [resOf, World.state, Obj.handle, lastIsRW, createdOf_append, removedOf_append, touchedOf_append,
    createdOf_closeActs, removedOf_closeActs, writtenOf]

theorem commitPlainW_ok_ro (s : State) (kw : Kw) (w1 : World) (h : commitPlainW s kw = (.ok (), w1)) :
    ∀ x ∈ w1.self.files, x.rw = false := by
  unfold commitPlainW at h
  simp only at h
  split at h <;> try (cases h; done)
  split at h <;> try (cases h; done)
  split at h <;> try (cases h; done)
  split at h <;> try (cases h; done)
  split at h <;> try (cases h; done)
  split at h <;> try (cases h; done)
  cases h
  simp only
  rcases nil_or_snoc s.h.files with hnil | ⟨init, ⟨f', ub'⟩, hsn⟩
  · simp_all [lastFile]
  · rw [ofState_files, hsn, mkHandles_snoc, setLastH_snoc]
    intro x hx
    rcases List.mem_append.mp hx with hx | hx
    · obtain ⟨y, _, rfl⟩ := List.mem_map.mp hx; rfl
    · simp at hx; rw [hx]

theorem commitPlainW_err (s : State) (kw : Kw) (e : Out) (w1 : World) (h : commitPlainW s kw = (.error e, w1)) :
    e ≠ .ok := by
  unfold commitPlainW at h
  simp only at h
  split at h <;> try (cases h; decide)
  split at h <;> try (cases h; decide)
  split at h <;> try (cases h; decide)
  split at h <;> try (cases h; decide)
  split at h <;> try (cases h; decide)
  split at h <;> try (cases h; decide)
  cases h

theorem commitMFW_ok_ro (s : State) (kw : Kw) (w1 : World) (h : commitMFW s kw = (.ok (), w1)) :
    ∀ x ∈ w1.self.files, x.rw = false := by
  unfold commitMFW at h
  simp only at h
  split at h
  · cases h
  · rename_i f ub hl
    generalize hx : commitPlainW (mfPrep s { ub with ext := some (s.next, s.next + 1) }) (restKw kw) = x at h
    obtain ⟨r, w0⟩ := x
    cases r with
    | ok v =>
      simp only at h
      cases h
      exact commitPlainW_ok_ro _ _ w0 hx
    | error e => cases e <;> simp at h

theorem commitMFW_err (s : State) (kw : Kw) (e : Out) (w1 : World) (h : commitMFW s kw = (.error e, w1)) :
    e ≠ .ok := by
  unfold commitMFW at h
  simp only at h
  split at h
  · cases h; decide
  · rename_i f ub hl
    generalize hx : commitPlainW (mfPrep s { ub with ext := some (s.next, s.next + 1) }) (restKw kw) = x at h
    obtain ⟨r, w0⟩ := x
    cases r with
    | ok v => simp at h
    | error e' =>
      have hne := commitPlainW_err _ _ e' w0 hx
      cases e' <;> simp at h <;> (try (obtain ⟨h1, _⟩ := h; subst h1; decide))
      exact absurd rfl hne

theorem commitPatchW_ok_ro (s : State) (kw : Kw) (w1 : World) (h : commitPatchW s kw = (.ok (), w1)) :
    ∀ x ∈ w1.self.files, x.rw = false := by
  unfold commitPatchW at h
  split at h
  · exact commitMFW_ok_ro s kw w1 h
  · exact commitPlainW_ok_ro s kw w1 h

theorem commitPatchW_err (s : State) (kw : Kw) (e : Out) (w1 : World) (h : commitPatchW s kw = (.error e, w1)) :
    e ≠ .ok := by
  unfold commitPatchW at h
  split at h
  · exact commitMFW_err s kw e w1 h
  · exact commitPlainW_err s kw e w1 h

/-- **`close(commit)`**: the step sequence is the model's `close` -/
theorem closeW_res (s : State) (hp : PyRep s.h) (hd : OnDisk s) (c : Bool) : resOf s (closeW s c) = close s c := by
  unfold closeW close
  simp only
  cases hc : s.h.closed
  case true =>
    simp only [if_true]
    have := state_ofState s hp
    simp only [resOf, this]
    simp [World.ofState, createdOf, removedOf, writtenOf, touchedOf, uniq]
  case false =>
    simp only [Bool.false_eq_true, if_false]
    rcases Bool.eq_false_or_eq_true (hasWritable s.h && c) with hwc | hwc
    · simp only [hwc, if_true]
      have hres := commitPatchW_res s hp hd
      generalize hx : commitPatchW s [] = x at hres
      obtain ⟨r, w1⟩ := x
      cases r with
      | error e =>
        have hne := commitPatchW_err s [] e w1 hx
        simp only
        rw [hres]
        have hout : (commitPatch s).out = e := by rw [← hres]; rfl
        cases e <;> simp_all
      | ok v =>
        cases v
        have hro := commitPatchW_ok_ro s [] w1 hx
        simp only
        rw [resOf_closeAll, touchedOf_closeActs_ro _ hro, List.append_nil, ← hres]
        simp [resOf, World.state, Obj.handle, writtenOf]
    · simp only [hwc, Bool.false_eq_true, if_false]
      rw [resOf_closeAll]
      have hst := state_ofState s hp
      rcases nil_or_snoc s.h.files with hnil | ⟨init, ⟨f, ub⟩, hsn⟩
      · simp [World.ofState, Obj.ofHandle, hnil, mkHandles, closeActs, touchedOf, uniq, createdOf, removedOf,
          hasWritable, hc]
      · have hl : lastFile s.h.files = some (f, ub) := by rw [hsn]; exact lastFile_append_single _ _
        have ht : touchedOf (closeActs (World.ofState s).self.files) = if s.h.lastRW then [f] else [] := by
          rw [ofState_files, hsn]; exact touchedOf_closeActs_mk _ _ _ _
        have hwl : hasWritable s.h = s.h.lastRW := by simp [hasWritable, hsn]
        rw [ht, hwl, hl]
        cases hr : s.h.lastRW
        · simp [World.ofState, Obj.ofHandle, touchedOf, uniq, createdOf, removedOf, hc]
        · obtain ⟨p, hpay⟩ := hd (by rw [hwl]; exact hr) f ub hl
          obtain ⟨ub0, hg⟩ := getF_of_payloadOf hpay
          simp [World.ofState, Obj.ofHandle, touchedOf, uniq, createdOf, removedOf, hc, hg]

end MetadorModel.Bridge.PatchSteps
