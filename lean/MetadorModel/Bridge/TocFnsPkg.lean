import MetadorModel.Bridge.TocFnsPaths
/-!
# Bridge: translated `TOCPackages` (`Gen/TocFns.lean`) = model (`Model/Container.lean`)

Every effectful method the translated method calls is a *parameter* of the generated definition;
the bridge theorem of a method instantiates these parameters with the model's functions. So each
theorem ties the text of one method to the model, and the theorems chain along the call graph.
-/
namespace MetadorModel.Bridge.TocFns
open MetadorModel.Container MetadorModel.CtrPy MetadorModel.Gen.TocFns

/-! ### `_add_providers` -/

/-- the model's `addProviders` as a state transition -/
def addProvidersM (pkg : PkgId) (info : PkgMeta) : M Unit :=
  modC fun c => { c with providers := addProviders c.providers pkg info.plugins }

/-- one iteration of the loop of `_add_providers` -/
def addProvStep (pkg : PkgId) (r : SRef) : M Unit :=
  modC fun c => { c with providers := alSet c.providers r (setAdd ((alGet c.providers r).getD []) pkg) }

theorem run_addProvStep (pkg : PkgId) (r : SRef) (s : St) :
    addProvStep pkg r s = (.ok (), { s with c := { s.c with
      providers := alSet s.c.providers r (setAdd ((alGet s.c.providers r).getD []) pkg) } }) := rfl

theorem addProvStep_loop (pkg : PkgId) : ∀ (l : List SRef) (s : St),
    forEachM l (addProvStep pkg) s
      = (.ok (), { s with c := { s.c with providers := addProviders s.c.providers pkg l } })
  | [], s => by simp [addProviders]
  | r :: rs, s => by
    rw [forEachM_cons]
    simp only [run_bind]
    rw [run_addProvStep]
    simp only [addProvStep_loop pkg rs]
    simp [addProviders]

theorem gen_add_providers : TOCPackages._add_providers = addProvidersM := by
  funext pkg info s
  simp only [TOCPackages._add_providers]
  rw [forEachM_congr (addProvStep pkg)]
  · simp only [run_bind, addProvStep_loop]; rfl
  · intro r; funext s
    cases h : alGet s.c.providers r <;>
      simp [addProvStep, h, run_dictGetItem, alGet_alSet_same, alSet_alSet]

/-! ### `_register` -/

theorem gen_pkg_register (pkg : PkgId) (plugins : List SRef) :
    TOCPackages._register addProvidersM pkg ⟨pkg, plugins⟩ = pkgRegister pkg plugins := by
  funext s
  simp only [TOCPackages._register, pkgRegister, gen_pkginfo_path_for', run_bind, run_rawSetItem, addProvidersM]
  cases h : liftRaw (fun t => rawCreate t (pkgPath pkg) (Node.ds (Val.pkginfo pkg plugins))) s with
  | mk r s' =>
    cases r with
    | error e => rfl
    | ok u => simp

/-- the same with the translated `_add_providers` as callee -/
theorem gen_pkg_register_closed (pkg : PkgId) (plugins : List SRef) :
    TOCPackages._register TOCPackages._add_providers pkg ⟨pkg, plugins⟩ = pkgRegister pkg plugins := by
  rw [gen_add_providers]; exact gen_pkg_register pkg plugins

/-! ### `_unregister` -/

/-- one iteration of the loop of `_unregister` over `info.plugins` -/
def rmProvStep (pkg : PkgId) (r : SRef) : M Unit := do
  let s ← getSt
  match alGet s.c.providers r with
  | none => raise .key
  | some ps =>
    if pkg ∈ ps then
      modC fun c => { c with providers :=
        if (setRemove ps pkg).isEmpty then alErase c.providers r else alSet c.providers r (setRemove ps pkg) }
    else raise .key

theorem rmProvStep_loop (pkg : PkgId) : ∀ (l : List SRef) (s : St),
    match removeProviders s.c.providers pkg l with
    | .ok prov => forEachM l (rmProvStep pkg) s = (.ok (), { s with c := { s.c with providers := prov } })
    | .error e => ∃ s', forEachM l (rmProvStep pkg) s = (.error e, s') ∧ s'.raw = s.raw ∧ s'.next = s.next
  | [], s => by simp [removeProviders]
  | r :: rs, s => by
    rw [forEachM_cons]
    simp only [removeProviders, run_bind, rmProvStep, run_getSt]
    cases h : alGet s.c.providers r with
    | none => exact ⟨s, rfl, rfl, rfl⟩
    | some ps =>
      by_cases hm : pkg ∈ ps
      · simp only [hm, not_true_eq_false, if_false, if_true, run_modC]
        have ih := rmProvStep_loop pkg rs
          { s with c := { s.c with providers :=
              if (setRemove ps pkg).isEmpty then alErase s.c.providers r else alSet s.c.providers r (setRemove ps pkg) } }
        simp only at ih
        revert ih
        cases removeProviders (if (setRemove ps pkg).isEmpty = true then alErase s.c.providers r
          else alSet s.c.providers r (setRemove ps pkg)) pkg rs with
        | ok prov => intro ih; simp only [ih]
        | error e => intro ih; exact ih
      · simp only [hm, not_false_eq_true, if_true, if_false]
        exact ⟨s, rfl, rfl, rfl⟩

theorem packagesP_after_del {t t1 : Tree} {pkg : PkgId} (hc : PClosed t) (h : rawDel t (pkgPath pkg) = .ok t1) :
    get? t1 packagesP = some .grp := by
  obtain ⟨_, hex, _⟩ := rawDel_inv h
  have hg : get? t packagesP = some .grp := hc packagesP (.pkg pkg) hex
  rw [rawDel_get? h packagesP (by simp [packagesP])]
  have : under (pkgPath pkg) packagesP = false := by
    simp [under, pkgPath, packagesP]
  simp [this, hg]

/-- `TOCPackages._unregister`: on a raw tree in which every node has its parent group (`PClosed`, part of
`Inv`), the translated method and `pkgUnregister` have the same outcome and leave the same state; if the loop
over the package's plugins raises (`KeyError`: a plugin without provider entry), the provider entries visited
before keep their update in Python and not in the model. -/
theorem gen_pkg_unregister (pkg : PkgId) (s : St) (hc : PClosed s.raw) :
    Agree (TOCPackages._unregister pkg s) (pkgUnregister pkg s) := by
  simp only [TOCPackages._unregister, pkgUnregister, gen_pkginfo_path_for', run_bind, run_rawDelItem, run_liftRaw,
    run_getSt, run_dictGetItem]
  cases h1 : rawDel s.raw (pkgPath pkg) with
  | error e => exact Agree.rfl' rfl
  | ok t1 =>
    simp only
    cases h2 : alGet s.c.pkginfos pkg with
    | none => exact Agree.rfl' rfl
    | some info =>
      simp only [run_ofOpt_some, run_modC]
      rw [forEachM_congr (rmProvStep pkg)]
      · have hl := rmProvStep_loop pkg info
          { raw := t1, c := { s.c with pkginfos := alErase s.c.pkginfos pkg }, next := s.next }
        simp only at hl
        revert hl
        cases removeProviders s.c.providers pkg info with
        | error e =>
          rintro ⟨s', hs', hr, hn⟩
          simp only [hs', run_raise]
          exact ⟨rfl, hr, hn, fun a h => by cases h⟩
        | ok prov =>
          intro hl
          dsimp only at hl
          simp only [hl, run_modC]
          have hg := packagesP_after_del hc h1
          rw [run_rawRequireGroup_grp (by simpa using hg)]
          simp only [run_getSt, groupKeys, List.isEmpty_map]
          apply Agree.rfl'
          by_cases hemp : (children t1 packagesP).isEmpty = true
          · simp only [hemp, Bool.not_true, Bool.not_false, if_true, run_bind, run_rawDelItem, run_liftRaw,
              run_modC, run_getSt, run_pure]
            cases rawDel t1 packagesP <;> rfl
          · have hne : ¬ children t1 packagesP = [] := by simpa using hemp
            simp [hemp, hne]
      · intro r; funext s
        simp only [rmProvStep, run_bind, run_getSt, run_dictGetItem]
        cases h : alGet s.c.providers r with
        | none => rfl
        | some ps =>
          by_cases hm : pkg ∈ ps
          · cases he : (setRemove ps pkg).isEmpty <;>
              simp [hm, he, run_pySetRemove, alGet_alSet_same, alErase_alSet, run_requireKey]
          · simp [hm, run_pySetRemove]

/-! ### `__init__` (load loop) -/

/-- the fold function of `loadPackages` -/
def loadPkgF (acc : List (PkgId × List SRef) × List (SRef × List PkgId)) (kn : Key × Node) :
    List (PkgId × List SRef) × List (SRef × List PkgId) :=
  match kn with
  | (.pkg p, .ds (.pkginfo _ plugins)) => (alSet acc.1 p plugins, addProviders acc.2 p plugins)
  | _ => acc

theorem loadPackages_eq (t : Tree) : loadPackages t = (children t packagesP).foldl loadPkgF ([], []) := rfl

/-- one iteration of the load loop of `TOCPackages.__init__` -/
def loadPkgStep (kn : Key × Path) : M Unit := do
  let pkg ← Key.pkgName kn.1
  let s ← getSt
  let v ← dsRead s.raw kn.2
  let info ← Val.pkgMeta v
  modC fun c => { c with pkginfos := alSet c.pkginfos pkg info.plugins }
  addProvidersM pkg info

/-- what `TOCPackages.__init__` relies on: below `packages/` there are only package-info datasets -/
structure PkgTreeOK (t : Tree) : Prop where
  keys : KeysOK t
  closed : PClosed t
  dir : get? t packagesP = none ∨ get? t packagesP = some .grp
  pkg : ∀ k n, get? t (packagesP ++ [k]) = some n → ∃ p p' pl, k = .pkg p ∧ n = .ds (.pkginfo p' pl)

theorem run_loadPkgStep (s : St) (p p' : PkgId) (pl : List SRef)
    (hg : get? s.raw (packagesP ++ [.pkg p]) = some (.ds (.pkginfo p' pl))) :
    loadPkgStep (.pkg p, packagesP ++ [.pkg p]) s
      = (.ok (), { s with c := { s.c with pkginfos := alSet s.c.pkginfos p pl,
                                           providers := addProviders s.c.providers p pl } }) := by
  simp [loadPkgStep, Key.pkgName, dsRead, hg, Val.pkgMeta, addProvidersM]

theorem loadPkgStep_loop : ∀ (l : List (Key × Node)) (s : St),
    (∀ kn ∈ l, get? s.raw (packagesP ++ [kn.1]) = some kn.2 ∧ ∃ p p' pl, kn = (.pkg p, .ds (.pkginfo p' pl))) →
    forEachM (l.map fun kn => (kn.1, packagesP ++ [kn.1])) loadPkgStep s
      = (.ok (), { s with c := { s.c with pkginfos := (l.foldl loadPkgF (s.c.pkginfos, s.c.providers)).1,
                                           providers := (l.foldl loadPkgF (s.c.pkginfos, s.c.providers)).2 } })
  | [], s, _ => by simp
  | kn :: rest, s, h => by
    obtain ⟨hg, p, p', pl, rfl⟩ := h kn (by simp)
    simp only [List.map_cons, forEachM_cons, run_bind, run_loadPkgStep s p p' pl hg]
    rw [loadPkgStep_loop rest]
    · simp [loadPkgF]
    · intro kn' hm; exact h kn' (by simp [hm])

theorem gen_pkg_init (s : St) (h : PkgTreeOK s.raw) :
    TOCPackages.__init__ addProvidersM s
      = (.ok (), { s with c := { s.c with pkginfos := (loadPackages s.raw).1, providers := (loadPackages s.raw).2 } }) := by
  simp only [TOCPackages.__init__, run_bind, run_modC, run_getSt]
  rcases h.dir with hd | hd
  · -- no packages group: nothing stored
    have hch : children s.raw packagesP = [] := by
      rw [List.eq_nil_iff_forall_not_mem]
      rintro ⟨k, n⟩ hm
      have := (mem_children h.keys).mp hm
      have hg := h.closed packagesP k (by rw [this]; simp)
      rw [hd] at hg; cases hg
    simp [has, hd, loadPackages_eq, hch]
  · have hhas : has s.raw packagesP = true := by simp [has, hd]
    simp only [hhas, if_true, run_bind]
    rw [run_rawRequireGroup_grp (by simpa using hd)]
    simp only [run_getSt, groupItems]
    rw [forEachM_congr loadPkgStep]
    · rw [loadPkgStep_loop _ _ (fun kn hm => by
        have := (mem_children h.keys (k := kn.1) (n := kn.2)).mp hm
        exact ⟨this, by
          obtain ⟨p, p', pl, hk, hn⟩ := h.pkg kn.1 kn.2 this
          exact ⟨p, p', pl, Prod.ext hk hn⟩⟩)]
      simp [loadPackages_eq]
    · rintro ⟨k, n⟩; funext s
      simp only [loadPkgStep, bind_pure_unit, run_bind]

end MetadorModel.Bridge.TocFns
