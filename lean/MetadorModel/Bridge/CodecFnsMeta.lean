import MetadorModel.Bridge.CodecFnsEnc
import MetadorModel.Bridge.CodecFnsCore
/-! Bridge (C12): the `__init__` chain of the metaclasses (`schema/encoder.py`, `schema/core.py`,
`plugin/metaclass.py`): which classes get the dynamic encoder (F4) and the inherited constants. -/
namespace MetadorModel.Bridge.CodecFns
open MetadorModel MetadorModel.Codec MetadorModel.CodecParsers MetadorModel.CodecPy

/-- every class whose metaclass is `DynEncoderModelMetaclass` (`BaseModelPlus` and what derives
from it without a metaclass of its own) gets the dynamic encoder lookup -/
theorem gen_class_init_DynEncoderModelMetaclass (L : Lib) (reg : Registry) (st : ClsSt) (bases : List ClsSt) :
    Gen.CodecFns.classInit L reg "DynEncoderModelMetaclass" st bases
      = .ok { st with jsonEncoder := dynLeaf L reg st.jsonEncoder } := by
  simp [Gen.CodecFns.classInit, Gen.CodecFns.mro, Gen.CodecFns.metaInit, runInit, gen_mixin_init]

/-- … and so does every class created by `SchemaMagic` (the pinned tree did not chain, F4) … -/
theorem gen_class_init_SchemaMagic (L : Lib) (reg : Registry) (st : ClsSt) (bases : List ClsSt) :
    Gen.CodecFns.classInit L reg "SchemaMagic" st bases
      = .ok ⟨dynLeaf L reg st.jsonEncoder, inheritConsts bases⟩ := by
  simp [Gen.CodecFns.classInit, Gen.CodecFns.mro, Gen.CodecFns.metaInit, runInit, gen_mixin_init, gen_magic_init]

/-- … and by `SchemaMetaclass`, the metaclass of `MetadataSchema` (`PluginMetaclassMixin` defines no
`__init__`): wrapped exactly once, constants inherited -/
theorem gen_class_init_SchemaMetaclass (L : Lib) (reg : Registry) (st : ClsSt) (bases : List ClsSt) :
    Gen.CodecFns.classInit L reg "SchemaMetaclass" st bases
      = .ok ⟨dynLeaf L reg st.jsonEncoder, inheritConsts bases⟩ := by
  simp [Gen.CodecFns.classInit, Gen.CodecFns.mro, Gen.CodecFns.metaInit, runInit, gen_mixin_init, gen_magic_init]

theorem gen_metaclass_MetadataSchema : Gen.CodecFns.MetadataSchema.metaclass = "SchemaMetaclass" := rfl

end MetadorModel.Bridge.CodecFns
