import MetadorModel.Bridge.CodecFnsTac
/-! Bridge (C12), `NumValue.Parser.parse` (`schema/common/__init__.py`): the whole decision cascade
(F20: booleans refused; F29: a missing unit stays missing). The proofs split on the constructor of the input and
then on every `match` / `if` of both sides (`crunch`), so they do not depend on the shape of the cascade. -/
set_option linter.unusedSimpArgs false
namespace MetadorModel.Bridge.CodecFns
open MetadorModel MetadorModel.Codec MetadorModel.CodecParsers MetadorModel.CodecPy

/-- the end of the parser (`len(arr) == 1` …) against `numFinish` -/
macro "num_tail" cfg:ident : tactic =>
  `(tactic| (simp only [numFinish]; by_cases ha : NumCfg.allowedUnits $cfg = [] <;> simp [ha] <;> crunch))

theorem isNone_json (j : Json) : isNone (Obj.json j) = isNull j := by cases j <;> rfl

theorem not_null_of_truthy (j : Json) (h : truthyJ j = true) : isNull j = false := by
  cases j <;> simp_all [truthyJ, isNull]

/-- the cascade after the numeric shortcut, on an instance of `tcls.__base__` -/
macro "num_unpack" cfg:ident q:ident : tactic =>
  `(tactic| (
    by_cases hb : isBaseInst $q = true
    · by_cases h1 : truthyJ (QV.unitText $q) = true
      · simp [hb, h1, isNone_json, not_null_of_truthy _ h1, numUnpack, getBound, attrUnitText, attrUnitCode, attrValue, Obj.truthy, isBase]
        num_tail $cfg
      · by_cases h2 : truthyJ (QV.unitCode $q) = true
        · simp [hb, h1, h2, isNone_json, not_null_of_truthy _ h2, numUnpack, getBound, attrUnitText, attrUnitCode, attrValue, Obj.truthy, isBase]
          num_tail $cfg
        · cases hi : NumCfg.inferUnit $cfg <;>
            simp [hb, h1, h2, hi, isNone_json, ofOptStr, isNull, numUnpack, getBound, attrUnitText, attrUnitCode, attrValue, Obj.truthy, isBase, objOfOptStr] <;>
            num_tail $cfg
    · simp [hb, getBound, isBase]))

theorem gen_num_cfg : Gen.CodecFns.NumValue.Parser.cfg = ⟨[], none, false⟩ ∧
    Gen.CodecFns.Pixels.Parser.cfg = ⟨[['p', 'x']], some ['p', 'x'], false⟩ := ⟨rfl, rfl⟩

/-- `NumValue.Parser.parse` is the model's `numParse`, for every configuration and every input object -/
theorem gen_num_parse (L : Lib) (cfg : NumCfg) (v : Obj) :
    Gen.CodecFns.NumValue.Parser.parse L cfg v = numParse L cfg v := by
  simp only [Gen.CodecFns.NumValue.Parser.parse, numParse]
  cases v with
  | json j =>
    cases j <;> simp [isBool, isInt, isFloat, isStr, isDict, isBase, objOfOptStr, pyStrip, pySplit1, getBound]
    · rename_i s
      simp only [stripSplit1]
      generalize Obj.json (Json.arr (List.map Json.str (split1 (stripWs s)))) = a
      num_tail cfg
    · rename_i kvs
      cases L.baseValidate (Obj.json (Json.obj kvs)) with
      | error e => rfl
      | ok w =>
        cases w with
        | qv q => num_unpack cfg q
        | _ => simp [getBound]
  | inst k nf => simp [isBool, isInt, isFloat, isStr, isDict, isBase, getBound]
  | td s => simp [isBool, isInt, isFloat, isStr, isDict, isBase, getBound]
  | qv q =>
    simp only [isBool, isInt, isFloat, isStr, isDict, Bool.false_eq_true, ↓reduceIte, Bool.or_self]
    num_unpack cfg q
  | tuple xs => simp [isBool, isInt, isFloat, isStr, isDict, isBase, getBound]
end MetadorModel.Bridge.CodecFns
