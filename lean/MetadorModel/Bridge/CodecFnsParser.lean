import MetadorModel.Bridge.CodecFnsTac
/-! Bridge (C12), `schema/parser.py` and the parsers of `Duration`, `PintUnit`, `PintQuantity`
(`schema/types.py`): how a custom `Parser` is found and invoked, which function parses, which
exceptions become `ValueError` (F27). -/
set_option linter.unusedSimpArgs false
namespace MetadorModel.Bridge.CodecFns
open MetadorModel MetadorModel.Codec MetadorModel.CodecParsers MetadorModel.CodecPy

theorem gen_baseparser_attrs : Gen.CodecFns.BaseParser.strict = true ∧ Gen.CodecFns.BaseParser.schema_info = [] := ⟨rfl, rfl⟩

theorem gen_baseparser_parse (t : TCls) (v : Obj) : Gen.CodecFns.BaseParser.parse t v = baseParse t v := by
  simp only [Gen.CodecFns.BaseParser.parse, baseParse]
  cases t <;> simp

/-- `run_parser`: the parser's result, refused with `RuntimeError` when the parser is strict and the
result is no instance of the target class -/
theorem gen_run_parser (p : ParserCls) (t : TCls) (v : Obj) : Gen.CodecFns.run_parser p t v = runParser p t v := by
  simp only [Gen.CodecFns.run_parser, runParser]
  cases p.parse t v <;> bridge_close

/-- `get_parser`: the class's *own* `Parser` attribute; `TypeError` if it does not derive from `BaseParser` -/
theorem gen_get_parser (c : PCls) : Gen.CodecFns.get_parser c = getParser c := by
  simp only [Gen.CodecFns.get_parser, getParser]
  cases c.ownParser with
  | none => rfl
  | some p => cases h : p.isBaseParser <;> simp [h]

/-- `__get_validators__`: the cached parser function (computed on first use from `get_parser`), yielded
unless it is the marker `NoParserDefined`, then `cls.validate` for models -/
theorem gen_get_validators (c : PCls) : Gen.CodecFns.ParserMixin.__get_validators__ c = validatorsOf c := by
  simp only [Gen.CodecFns.ParserMixin.__get_validators__, validatorsOf, gen_get_parser]
  cases hc : c.cache with
  | some f => cases f <;> cases hm : c.isModel <;> simp [PFunc.isNoParser, pfuncValidators, Validator.ofPFunc, hm]
  | none =>
    simp only []
    cases getParser c with
    | error e => rfl
    | ok o => cases o <;> cases hm : c.isModel <;> simp [PFunc.isNoParser, Validator.ofPFunc, hm]

theorem gen_modify_schema (c : PCls) (schema : Dict) :
    Gen.CodecFns.ParserMixin.__modify_schema__ c schema = modifySchema c schema := by
  simp only [Gen.CodecFns.ParserMixin.__modify_schema__, modifySchema, gen_get_parser]
  cases getParser c with
  | error e => rfl
  | ok o =>
    cases o with
    | none => rfl
    | some p => cases h : p.schemaInfo.isEmpty <;> simp [h]

/-- `Duration.Parser.parse` -/
theorem gen_duration_parse (L : Lib) (t : TCls) (v : Obj) :
    Gen.CodecFns.Duration.Parser.parse L t v = durParse L t v := by
  simp only [Gen.CodecFns.Duration.Parser.parse, durParse]
  cases v with
  | json j =>
    cases j <;> simp [isStr, Obj.isInst, parseDurationObj]
    rename_i s
    cases L.parseDuration s <;> simp [totalSeconds]
    cases t with
    | opq k => cases k <;> simp [mkDuration]
    | _ => simp [mkDuration]
  | inst k nf =>
    simp [isStr, Obj.isInst]
    by_cases h : t = TCls.opq k
    · subst h
      cases k <;> simp [totalSeconds, mkDuration]
    · simp [h]
  | td s => simp [isStr, Obj.isInst]
  | qv q =>
    simp [isStr, Obj.isInst]
    by_cases h : t = TCls.num ∧ q.cls = QCls.tcls
    · obtain ⟨h1, h2⟩ := h
      simp [h1, h2, totalSeconds]
    · have : ¬t = TCls.num ∨ ¬q.cls = QCls.tcls := by
        by_cases h1 : t = TCls.num
        · right; intro h2; exact h ⟨h1, h2⟩
        · left; exact h1
      simp [h, this]
  | tuple xs => simp [isStr, Obj.isInst]

/-- `StringParser.parse` -/
theorem gen_string_parse (L : Lib) (t : TCls) (v : Obj) :
    Gen.CodecFns.StringParser.parse L t v = stringParse L t v := by
  simp only [Gen.CodecFns.StringParser.parse, stringParse]
  cases h : Obj.isInst t v <;> rcases v with (_|_|_|_|_|_|_) | _ | _ | _ | _ <;>
    simp_all [isStr, constructObj] <;> bridge_close

/-- `PintParser.parse`: a falsy input is a `ValueError`; `ValueError` / `TypeError` of the string
parser pass unchanged; every other exception is converted into a `ValueError` (F27) -/
theorem gen_pint_parse (L : Lib) (t : TCls) (v : Obj) :
    Gen.CodecFns.PintParser.parse L t v = pintParse L t v := by
  simp only [Gen.CodecFns.PintParser.parse, pintParse, gen_string_parse]
  cases Obj.truthy L v
  · simp
  · simp only [Bool.not_true, Bool.false_eq_true, ↓reduceIte]
    cases stringParse L t v with
    | ok r => bridge_close
    | error e => cases e <;> simp [catches, ExcName.catches, PyErr.isValidation] <;> bridge_close

/-- the `Parser` classes: all derive from `BaseParser`, all are strict; `Duration.Parser` parses with its own
`parse`, the two pint classes with `PintParser.parse` -/
theorem gen_parser_classes (L : Lib) :
    (Gen.CodecFns.Duration.ParserCls L).isBaseParser = true ∧ (Gen.CodecFns.Duration.ParserCls L).strict = true ∧
    (Gen.CodecFns.Duration.ParserCls L).parse = durParse L ∧
    (Gen.CodecFns.PintUnit.ParserCls L).isBaseParser = true ∧ (Gen.CodecFns.PintUnit.ParserCls L).strict = true ∧
    (Gen.CodecFns.PintUnit.ParserCls L).parse = pintParse L ∧
    (Gen.CodecFns.PintQuantity.ParserCls L).isBaseParser = true ∧ (Gen.CodecFns.PintQuantity.ParserCls L).strict = true ∧
    (Gen.CodecFns.PintQuantity.ParserCls L).parse = pintParse L := by
  refine ⟨rfl, rfl, ?_, rfl, rfl, ?_, rfl, rfl, ?_⟩
  · funext t v; exact gen_duration_parse L t v
  · funext t v; exact gen_pint_parse L t v
  · funext t v; exact gen_pint_parse L t v

/-- the class of the field type as the model sees it -/
def genPCls (L : Lib) : Opq → PCls
  | .dur => Gen.CodecFns.Duration.PCls L
  | .unit => Gen.CodecFns.PintUnit.PCls L
  | .qty => Gen.CodecFns.PintQuantity.PCls L

def genParserCls (L : Lib) : Opq → ParserCls
  | .dur => Gen.CodecFns.Duration.ParserCls L
  | .unit => Gen.CodecFns.PintUnit.ParserCls L
  | .qty => Gen.CodecFns.PintQuantity.ParserCls L

/-- the three classes have an own `Parser`, so `__get_validators__` yields exactly one validator: the wrapper
around `run_parser(Parser, field.type_, value)` (and caches it) -/
theorem gen_opq_validators (L : Lib) (k : Opq) :
    let c' : PCls := { genPCls L k with cache := some (.wrapper (genParserCls L k)) }
    Gen.CodecFns.ParserMixin.__get_validators__ (genPCls L k) = .ok (c', [Validator.pfunc (genParserCls L k)]) ∧
      Gen.CodecFns.ParserMixin.__get_validators__ c' = .ok (c', [Validator.pfunc (genParserCls L k)]) := by
  obtain ⟨d1, _, _, u1, _, _, q1, _, _⟩ := gen_parser_classes L
  cases k <;>
    simp [gen_get_validators, validatorsOf, genPCls, genParserCls, Gen.CodecFns.Duration.PCls,
      Gen.CodecFns.PintUnit.PCls, Gen.CodecFns.PintQuantity.PCls, getParser, pfuncValidators, d1, u1, q1]

/-- **the whole validation of an opaque field**, as the source has it now (dispatch of `ParserMixin`,
`run_parser`, the class's `Parser.parse`), is the model's `validateOpq` — the function `envOf` (the `Env` of the
C12 theorems) is built from. The strict check of `run_parser` never fires. -/
theorem gen_validate_opq (L : Lib) (k : Opq) (v : Obj) :
    Gen.CodecFns.run_parser (genParserCls L k) (.opq k) v = validateOpq L k v := by
  rw [gen_run_parser]
  obtain ⟨_, d2, d3, _, u2, u3, _, q2, q3⟩ := gen_parser_classes L
  cases k
  · simp only [runParser, genParserCls, d2, d3, durParse, validateOpq]
    cases v with
    | json j =>
      cases j <;> simp
      rename_i s
      cases L.parseDuration s <;> simp [Obj.isInst]
    | inst k nf => cases k <;> simp [Obj.isInst]
    | qv q => simp
    | _ => simp
  · simp only [runParser, genParserCls, u2, u3, pintParse, validateOpq]
    cases ht : Obj.truthy L v
    · simp
    · simp only [Bool.not_true, Bool.false_eq_true, ↓reduceIte, stringParse]
      cases v with
      | json j =>
        cases j <;> simp [Obj.isInst, PyErr.isValidation, construct]
        rename_i s
        cases L.pint Opq.unit s with
        | ok n => simp [Obj.isInst]
        | error e => cases e <;> simp
      | inst k nf => cases k <;> simp [Obj.isInst, PyErr.isValidation]
      | _ => simp [Obj.isInst, PyErr.isValidation]
  · simp only [runParser, genParserCls, q2, q3, pintParse, validateOpq]
    cases ht : Obj.truthy L v
    · simp
    · simp only [Bool.not_true, Bool.false_eq_true, ↓reduceIte, stringParse]
      cases v with
      | json j =>
        cases j <;> simp [Obj.isInst, PyErr.isValidation, construct]
        rename_i s
        cases L.pint Opq.qty s with
        | ok n => simp [Obj.isInst]
        | error e => cases e <;> simp
      | inst k nf => cases k <;> simp [Obj.isInst, PyErr.isValidation]
      | _ => simp [Obj.isInst, PyErr.isValidation]

end MetadorModel.Bridge.CodecFns
