import MetadorModel.Bridge.TocFnsPaths
import MetadorModel.Proofs.ContainerTreeOps
/-!
# Bridge: translated `TOCLinks` = model
-/
namespace MetadorModel.Bridge.TocFns
open MetadorModel.Container MetadorModel.CtrPy MetadorModel.Gen.TocFns


/-! ### `resolve`, `update`, `register`, `unregister` -/

theorem gen_link_resolve (u : Nat) (s : St) : TOCLinks.resolve u s = liftE (linkResolve s u) s := by
  simp only [TOCLinks.resolve, linkResolve, run_bind, run_getSt, run_dictGetItem]
  cases h : alGet s.c.tocPath u with
  | none => rfl
  | some tp =>
    simp only [run_rawGetItem, has, get?]
    by_cases hr : tp = []
    · subst hr; simp [dsRead, liftE]
    · simp only [hr, if_false]
      cases hl : lookup s.raw tp with
      | none => simp [liftE]
      | some n =>
        cases n with
        | grp => simp [dsRead, get?, hr, hl, liftE]
        | ds v => cases v <;> simp [dsRead, get?, hr, hl, liftE, Val.decodePath]

theorem gen_link_update : TOCLinks.update = linkUpdate := by
  funext u p
  simp only [TOCLinks.update, linkUpdate, dictGetItem, rawDelItem, rawSetItem, bind_pure_unit]

theorem gen_link_register (e : Env) (st : Stored) :
    TOCLinks.register (schemaRegister e) st = linkRegister e st.schema st.uuid st.path := by
  simp only [TOCLinks.register, linkRegister, gen_link_path_for, joinUuid, rawSetItem, bind_pure_unit]
  rfl

theorem gen_link_unregister (u : Nat) : TOCLinks.unregister schemaUnregister u = linkUnregister u := by
  funext s
  simp only [TOCLinks.unregister, linkUnregister, dictGetItem, run_bind, run_getSt]
  cases h : alGet s.c.tocPath u with
  | none => rfl
  | some tp =>
    simp only [run_ofOpt_some, run_rawGetItem]
    cases hh : has s.raw tp with
    | false => simp
    | true =>
      simp only [if_true, Bool.not_true, Bool.false_eq_true, if_false, run_bind, run_pure, run_pyAssert]
      by_cases hl : tp.dropLast.dropLast = linksP
      · simp only [hl, beq_self_eq_true, if_true, ne_eq, not_true_eq_false, if_false, run_pure, run_rawDelItem,
          run_liftRaw]
        cases hd : rawDel s.raw tp with
        | error er => simp only [run_bind, run_liftRaw, hd]
        | ok t1 =>
          simp only [run_bind, run_liftRaw, hd, run_getSt, h, Option.isSome_some, run_requireKey_true, run_modC]
          by_cases hch : children t1 tp.dropLast = []
          case neg =>
            have h1 : (groupLen t1 tp.dropLast != 0) = true := by simpa [groupLen] using hch
            have h2 : (!(children t1 tp.dropLast).isEmpty) = true := by simpa using hch
            rw [if_pos h1, if_pos h2]
          case pos =>
            rw [if_neg (by simp [groupLen, hch]), if_neg (by simp [hch])]
            simp only [run_bind, lastEpName]
            cases hk : tp.dropLast.getLast? with
            | none => rfl
            | some k =>
              cases k <;> try rfl
              rename_i r
              simp only [run_pure, run_rawDelItem, run_liftRaw, run_bind, gen_schema_ref_for]
              cases hd2 : rawDel t1 tp.dropLast with
              | error er => simp only []
              | ok t2 =>
                simp only []
                rw [show (⟨r.name, r.ver⟩ : SRef) = r from rfl]
                rcases schemaUnregister r _ with ⟨rr, s3⟩
                cases rr with
                | error er => rfl
                | ok u =>
                  simp only [run_getSt]
                  by_cases hc2 : children s3.raw linksP = []
                  · rw [if_neg (by simp [groupKeys, hc2]), if_neg (by simp [hc2])]
                    simp only [bind_pure_unit, run_rawDelItem]
                  · rw [if_pos (by simpa [groupKeys] using hc2), if_pos (by simpa using hc2)]
      · simp [hl]



theorem lookup_isSome_of_mem : ∀ (t : Tree) (q : Path) (n : Node), (q, n) ∈ t → (lookup t q).isSome
  | (p, m) :: t, q, n, h => by
    simp only [lookup]
    by_cases hp : p = q
    · simp [hp]
    · simp only [hp, if_false]
      rcases List.mem_cons.mp h with h | h
      · cases h; exact absurd rfl hp
      · exact lookup_isSome_of_mem t q n h

theorem mkParents_subset (rest : Path) (t : Tree) (pre : Path) (t' : Tree) (h : mkParents t pre rest = .ok t') :
    ∀ x ∈ t, x ∈ t' := by
  fun_induction mkParents t pre rest generalizing t' with
  | case1 t pre => cases h; exact fun x hx => hx
  | case2 t pre k => cases h; exact fun x hx => hx
  | case3 t pre k k' rest pre' hg ih => exact ih t' h
  | case4 t pre k k' rest pre' v hg => cases h
  | case5 t pre k k' rest pre' hg ih => exact fun x hx => ih t' h x (List.mem_cons_of_mem _ hx)

/-- the destination exists after a successful `raw.move` -/
theorem rawMove_has_dst {t t' : Tree} {src dst : Path} (h : rawMove t src dst = .ok t') : has t' dst = true := by
  obtain ⟨hs, hd, hsrc, _, _, t1, h1, rfl⟩ := rawMove_inv h
  rw [get?_ne_nil hs] at hsrc
  obtain ⟨n, hn⟩ := Option.ne_none_iff_exists'.mp hsrc
  have hm : (src, n) ∈ t1 := mkParents_subset _ _ _ _ h1 _ (lookup_some_mem hn)
  have hm' : (dst, n) ∈ t1.map fun e => if under src e.1 then (rebase src dst e.1, e.2) else e := by
    refine List.mem_map.mpr ⟨(src, n), hm, ?_⟩
    have : under src src = true := under_iff.mpr (List.prefix_refl _)
    simp [this, rebase]
  simp only [has, get?, hd, if_false]
  exact lookup_isSome_of_mem _ _ _ hm'

/-! ### `find_missing` -/

/-- the model's `resolve` as an operation of `M` -/
def resolveM (u : Nat) : M Path := fun s => liftE (linkResolve s u) s

/-- the fold function of `findMissing` -/
def fmBody (s : St) (acc : List Path) (q : Path) : Except Err (List Path) :=
  if !inMeta q then .ok acc
  else if isMetaBase q then .ok acc
  else
    match objOfPath q with
    | none => .error .value
    | some (_, u) =>
      if (alGet s.c.tocPath u).isNone then .ok (acc ++ [q])
      else
        match linkResolve s u with
        | .error err => .error err
        | .ok tgt => if tgt ≠ q then .ok (acc ++ [q]) else .ok acc

theorem findMissing_eq (s : St) (p : Path) :
    findMissing s p = (descendants s.raw p).foldlM (fun acc e => fmBody s acc e.1) [] := rfl

def fmStep : List Path → Path → M (List Path) := fun acc q s => liftE (fmBody s acc q) s

theorem run_liftE_ok {α : Type} (a : α) (s : St) : liftE (.ok a) s = (.ok a, s) := rfl
theorem run_liftE_error {α : Type} (e : Err) (s : St) : (liftE (.error e) : M α) s = (.error e, s) := rfl

theorem fmStep_loop (s : St) : ∀ (l : List (Path × Node)) (acc : List Path),
    pyFoldM (l.map (·.1)) acc fmStep s = liftE (l.foldlM (fun acc e => fmBody s acc e.1) acc) s
  | [], acc => rfl
  | e :: l, acc => by
    simp only [List.map_cons, pyFoldM, run_bind, List.foldlM_cons, fmStep]
    cases h : fmBody s acc e.1 with
    | error er => rfl
    | ok acc' =>
      simp only [run_liftE_ok]
      exact fmStep_loop s l acc'

/-- `find_missing(group)`: the translated traversal is the model's fold (on an existing group
`require_group` returns it unchanged) -/
theorem gen_find_missing (p : Path) (s : St) (hg : get? s.raw p = some .grp) :
    TOCLinks.find_missing resolveM p s = liftE (findMissing s p) s := by
  simp only [TOCLinks.find_missing, run_bind, run_rawRequireGroup_grp hg, run_getSt, visitNodes]
  rw [pyFoldM_congr fmStep]
  · rw [fmStep_loop, findMissing_eq]
  · intro acc q; funext s
    simp only [fmStep, fmBody, storedFromNode]
    by_cases h1 : inMeta q = true
    · by_cases h2 : isMetaBase q = true
      · simp [h1, h2, run_liftE_ok]
      · cases ho : objOfPath q with
        | none => simp [h1, h2, run_liftE_error]
        | some ru =>
          obtain ⟨r, u⟩ := ru
          cases ht : alGet s.c.tocPath u with
          | none => simp [h1, h2, ht, run_liftE_ok]
          | some tp =>
            cases hr : linkResolve s u with
            | error er => simp [h1, h2, ht, resolveM, hr, run_liftE_error]
            | ok tgt =>
              by_cases he : tgt = q <;> simp [h1, h2, ht, resolveM, hr, run_liftE_ok, he]
    · simp [h1, run_liftE_ok]

/-! ### `repair_missing` -/

/-- the loop body of `repairMissing` -/
def rmStep (e : Env) (update : Bool) : Path → M Unit := fun p => do
  match objOfPath p with
  | none => raise .value
  | some (r, u) =>
    let s ← getSt
    if update && (alGet s.c.tocPath u).isSome then
      linkUpdate u p
    else
      let u' ← freshUuid
      let newPath := p.dropLast ++ [.obj r u']
      liftRaw fun t => rawMove t p newPath
      linkRegister e r u' newPath

theorem repairMissing_eq (e : Env) (missing : List Path) (update : Bool) :
    repairMissing e missing update = forEachM missing (rmStep e update) := rfl

theorem gen_repair_missing (e : Env) (missing : List Path) (update : Bool) :
    TOCLinks.repair_missing linkUpdate freshUuid (fun st => linkRegister e st.schema st.uuid st.path) missing update
      = repairMissing e missing update := by
  simp only [TOCLinks.repair_missing, bind_pure_unit, repairMissing_eq]
  apply forEachM_congr
  intro p; funext s
  simp only [rmStep, storedFromNode, gen_to_path]
  cases ho : objOfPath p with
  | none => rfl
  | some ru =>
    obtain ⟨r, u⟩ := ru
    simp only [run_bind, run_pure, run_getSt]
    by_cases hc : (update && (alGet s.c.tocPath u).isSome) = true
    · simp only [hc, if_true]
    · simp only [hc, Bool.false_eq_true, if_false, run_bind]
      rcases freshUuid s with ⟨ru', s1⟩
      cases ru' with
      | error er => rfl
      | ok u' =>
        simp only [rawMoveM, run_liftRaw]
        cases hm : rawMove s1.raw p (p.dropLast ++ [Key.obj r u']) with
        | error er => rfl
        | ok t2 =>
          simp only [run_getSt, run_rawGetItem, rawMove_has_dst hm, if_true]



/-! ### `TOCLinks.__init__` (load loop) -/

/-- what `TOCLinks.__init__` relies on: below `links/` there are schema groups holding link datasets -/
structure LinkTreeOK (t : Tree) : Prop where
  keys : KeysOK t
  closed : PClosed t
  dir : get? t linksP = none ∨ get? t linksP = some .grp
  ep : ∀ k n, get? t (linksP ++ [k]) = some n → ∃ r, k = .ep r ∧ n = .grp
  link : ∀ r k n, get? t (linkDir r ++ [k]) = some n → ∃ u v, k = .link u ∧ n = .ds v

def setTocPath (s : St) (tp : List (Nat × Path)) : St := { s with c := { s.c with tocPath := tp } }

/-- the inner fold of `loadLinks` -/
def loadLinkF (r : SRef) (acc : List (Nat × Path)) (ln : Key × Node) : List (Nat × Path) :=
  match ln.1 with
  | .link u => alSet acc u (linkPath r u)
  | _ => acc
/-- the outer fold of `loadLinks` -/
def loadLinkDirF (t : Tree) (acc : List (Nat × Path)) (kn : Key × Node) : List (Nat × Path) :=
  match kn.1 with
  | .ep r => (children t (linkDir r)).foldl (loadLinkF r) acc
  | _ => acc
theorem loadLinks_eq (t : Tree) : loadLinks t = (children t linksP).foldl (loadLinkDirF t) [] := rfl

/-- inner loop body of `TOCLinks.__init__` -/
def linkInitStep : Key × Path → M Unit := fun kn => do
  let s ← getSt
  pyAssert (isDataset s.raw kn.2)
  let u ← Key.uuidOf kn.1
  modC fun c => { c with tocPath := alSet c.tocPath u kn.2 }

theorem linkInitStep_loop (r : SRef) : ∀ (l : List (Key × Node)) (s : St),
    (∀ ln ∈ l, get? s.raw (linkDir r ++ [ln.1]) = some ln.2 ∧ ∃ u v, ln = (.link u, .ds v)) →
    forEachM (l.map fun ln => (ln.1, linkDir r ++ [ln.1])) linkInitStep s
      = (.ok (), setTocPath s (l.foldl (loadLinkF r) s.c.tocPath))
  | [], s, _ => rfl
  | ln :: rest, s, h => by
    obtain ⟨hg, u, v, rfl⟩ := h ln (by simp)
    have hg' : get? s.raw [Key.toc, Key.links, Key.ep r, Key.link u] = some (Node.ds v) := hg
    have hstep : linkInitStep (Key.link u, linkDir r ++ [Key.link u]) s
        = (.ok (), setTocPath s (alSet s.c.tocPath u (linkPath r u))) := by
      simp [linkInitStep, mrun, isDataset, hg', Key.uuidOf, setTocPath, linkPath, linkDir]
    simp only [List.map_cons, forEachM_cons, mrun, hstep]
    rw [linkInitStep_loop r rest]
    · simp [loadLinkF, setTocPath]
    · intro ln' hm; exact h ln' (by simp [hm])

/-- outer loop body -/
def linkDirInitStep : Path → M Unit := fun g => do
  let s ← getSt
  pyAssert (isGroup s.raw g)
  forEachM (groupItems s.raw g) linkInitStep

theorem linkDirInitStep_loop (t : Tree) (hk : KeysOK t)
    (hlink : ∀ r k n, get? t (linkDir r ++ [k]) = some n → ∃ u v, k = .link u ∧ n = .ds v) :
    ∀ (l : List (Key × Node)) (s : St), s.raw = t →
    (∀ kn ∈ l, get? t (linksP ++ [kn.1]) = some kn.2 ∧ ∃ r, kn = (.ep r, .grp)) →
    forEachM (l.map fun kn => linksP ++ [kn.1]) linkDirInitStep s
      = (.ok (), setTocPath s (l.foldl (loadLinkDirF t) s.c.tocPath))
  | [], s, _, _ => rfl
  | kn :: rest, s, hs, h => by
    obtain ⟨hg, r, rfl⟩ := h kn (by simp)
    have hstep : linkDirInitStep (linksP ++ [Key.ep r]) s
        = (.ok (), setTocPath s ((children t (linkDir r)).foldl (loadLinkF r) s.c.tocPath)) := by
      simp only [linkDirInitStep, mrun, isGroup, hs, hg, beq_self_eq_true, groupItems]
      have : linksP ++ [Key.ep r] = linkDir r := rfl
      rw [this, ← hs, linkInitStep_loop r]
      intro ln hm
      rw [hs] at hm ⊢
      have hgl := (mem_children hk (k := ln.1) (n := ln.2)).mp hm
      obtain ⟨u, v, hk', hn'⟩ := hlink r ln.1 ln.2 hgl
      exact ⟨hgl, u, v, Prod.ext hk' hn'⟩
    simp only [List.map_cons, forEachM_cons, mrun, hstep]
    rw [linkDirInitStep_loop t hk hlink rest _ (by simp [setTocPath, hs]) (fun kn' hm => h kn' (by simp [hm]))]
    simp [loadLinkDirF, setTocPath]

theorem gen_links_init (s : St) (h : LinkTreeOK s.raw) :
    TOCLinks.__init__ s = (.ok (), setTocPath s (loadLinks s.raw)) := by
  simp only [TOCLinks.__init__, mrun]
  rcases h.dir with hd | hd
  · have hch : children s.raw linksP = [] := by
      rw [List.eq_nil_iff_forall_not_mem]
      rintro ⟨k, n⟩ hm
      have hgk := (mem_children h.keys).mp hm
      have hg := h.closed linksP k (by rw [hgk]; simp)
      rw [hd] at hg; cases hg
    simp [has, hd, loadLinks_eq, hch, setTocPath]
  · have hhas : has s.raw linksP = true := by simp [has, hd]
    simp only [hhas, if_true, mrun]
    rw [run_rawRequireGroup_grp (by simpa using hd)]
    simp only [mrun, groupValues]
    rw [forEachM_congr linkDirInitStep]
    · rw [show ({ raw := s.raw, c := { s.c with tocPath := [] }, next := s.next } : St) = setTocPath s [] from rfl,
        linkDirInitStep_loop s.raw h.keys h.link (children s.raw linksP) (setTocPath s []) rfl (fun kn hm => by
        have hg := (mem_children h.keys (k := kn.1) (n := kn.2)).mp hm
        obtain ⟨r, hk', hn'⟩ := h.ep kn.1 kn.2 hg
        exact ⟨hg, r, Prod.ext hk' hn'⟩)]
      simp [loadLinks_eq, setTocPath]
    · intro g; funext s
      simp only [linkDirInitStep, mrun]
      by_cases hgrp : isGroup s.raw g = true
      · simp only [hgrp, mrun]
        exact congrFun (forEachM_congr linkInitStep (fun _ => rfl) _) s
      · simp [hgrp]

end MetadorModel.Bridge.TocFns
