import MetadorModel.Bridge.TocFnsSchemas
import MetadorModel.Proofs.ContainerTreeOps
/-!
# Bridge: translated `TOCLinks` = model
-/
namespace MetadorModel.Bridge.TocFns
open MetadorModel.Container MetadorModel.CtrPy MetadorModel.Gen.TocFns


/-! ### `resolve`, `update`, `register`, `unregister` -/

theorem gen_link_resolve (u : Nat) (s : St) : TOCLinks.resolve u s = liftE (linkResolve s u) s := by
  simp only [TOCLinks.resolve, linkResolve, run_bind, run_getSt, run_dictGetItem]
  cases h : alGet s.c.tocPath u with
  | none => rfl
  | some tp =>
    simp only [run_rawGetItem, has, get?]
    by_cases hr : tp = []
    · subst hr; simp [dsRead, liftE]
    · simp only [hr, if_false]
      cases hl : lookup s.raw tp with
      | none => simp [liftE]
      | some n =>
        cases n with
        | grp => simp [dsRead, get?, hr, hl, liftE]
        | ds v => cases v <;> simp [dsRead, get?, hr, hl, liftE, Val.decodePath]

theorem gen_link_update : TOCLinks.update = linkUpdate := by
  funext u p
  simp only [TOCLinks.update, linkUpdate, dictGetItem, rawDelItem, rawSetItem, bind_pure_unit]

theorem gen_link_register (e : Env) (st : Stored) :
    TOCLinks.register (schemaRegister e) st = linkRegister e st.schema st.uuid st.path := by
  simp only [TOCLinks.register, linkRegister, gen_link_path_for, joinUuid, rawSetItem, bind_pure_unit]
  rfl

theorem gen_link_unregister (u : Nat) : TOCLinks.unregister schemaUnregister u = linkUnregister u := by
  funext s
  simp only [TOCLinks.unregister, linkUnregister, dictGetItem, run_bind, run_getSt]
  cases h : alGet s.c.tocPath u with
  | none => rfl
  | some tp =>
    simp only [run_ofOpt_some, run_rawGetItem]
    cases hh : has s.raw tp with
    | false => simp
    | true =>
      simp only [if_true, Bool.not_true, Bool.false_eq_true, if_false, run_bind, run_pure, run_pyAssert]
      by_cases hl : tp.dropLast.dropLast = linksP
      · simp only [hl, beq_self_eq_true, if_true, ne_eq, not_true_eq_false, if_false, run_pure, run_rawDelItem,
          run_liftRaw]
        cases hd : rawDel s.raw tp with
        | error er => simp only [run_bind, run_liftRaw, hd]
        | ok t1 =>
          simp only [run_bind, run_liftRaw, hd, run_getSt, h, Option.isSome_some, run_requireKey_true, run_modC]
          by_cases hch : children t1 tp.dropLast = []
          case neg =>
            have h1 : (groupLen t1 tp.dropLast != 0) = true := by simpa [groupLen] using hch
            have h2 : (!(children t1 tp.dropLast).isEmpty) = true := by simpa using hch
            rw [if_pos h1, if_pos h2]
          case pos =>
            rw [if_neg (by simp [groupLen, hch]), if_neg (by simp [hch])]
            simp only [run_bind, lastEpName]
            cases hk : tp.dropLast.getLast? with
            | none => rfl
            | some k =>
              cases k <;> try rfl
              rename_i r
              simp only [run_pure, run_rawDelItem, run_liftRaw, run_bind, gen_schema_ref_for]
              cases hd2 : rawDel t1 tp.dropLast with
              | error er => simp only []
              | ok t2 =>
                simp only []
                rw [show (⟨r.name, r.ver⟩ : SRef) = r from rfl]
                rcases schemaUnregister r _ with ⟨rr, s3⟩
                cases rr with
                | error er => rfl
                | ok u =>
                  simp only [run_getSt]
                  by_cases hc2 : children s3.raw linksP = []
                  · rw [if_neg (by simp [groupKeys, hc2]), if_neg (by simp [hc2])]
                    simp only [bind_pure_unit, run_rawDelItem]
                  · rw [if_pos (by simpa [groupKeys] using hc2), if_pos (by simpa using hc2)]
      · simp [hl]



theorem lookup_isSome_of_mem : ∀ (t : Tree) (q : Path) (n : Node), (q, n) ∈ t → (lookup t q).isSome
  | (p, m) :: t, q, n, h => by
    simp only [lookup]
    by_cases hp : p = q
    · simp [hp]
    · simp only [hp, if_false]
      rcases List.mem_cons.mp h with h | h
      · cases h; exact absurd rfl hp
      · exact lookup_isSome_of_mem t q n h

theorem mkParents_subset (rest : Path) (t : Tree) (pre : Path) (t' : Tree) (h : mkParents t pre rest = .ok t') :
    ∀ x ∈ t, x ∈ t' := by
  fun_induction mkParents t pre rest generalizing t' with
  | case1 t pre => cases h; exact fun x hx => hx
  | case2 t pre k => cases h; exact fun x hx => hx
  | case3 t pre k k' rest pre' hg ih => exact ih t' h
  | case4 t pre k k' rest pre' v hg => cases h
  | case5 t pre k k' rest pre' hg ih => exact fun x hx => ih t' h x (List.mem_cons_of_mem _ hx)

/-- the destination exists after a successful `raw.move` -/
theorem rawMove_has_dst {t t' : Tree} {src dst : Path} (h : rawMove t src dst = .ok t') : has t' dst = true := by
  obtain ⟨hs, hd, hsrc, _, _, t1, h1, rfl⟩ := rawMove_inv h
  rw [get?_ne_nil hs] at hsrc
  obtain ⟨n, hn⟩ := Option.ne_none_iff_exists'.mp hsrc
  have hm : (src, n) ∈ t1 := mkParents_subset _ _ _ _ h1 _ (lookup_some_mem hn)
  have hm' : (dst, n) ∈ t1.map fun e => if under src e.1 then (rebase src dst e.1, e.2) else e := by
    refine List.mem_map.mpr ⟨(src, n), hm, ?_⟩
    have : under src src = true := under_iff.mpr (List.prefix_refl _)
    simp [this, rebase]
  simp only [has, get?, hd, if_false]
  exact lookup_isSome_of_mem _ _ _ hm'

/-! ### `find_missing` -/

/-- the model's `resolve` as an operation of `M` -/
def resolveM (u : Nat) : M Path := fun s => liftE (linkResolve s u) s

/-- the fold function of `findMissing` -/
def fmBody (s : St) (acc : List Path) (q : Path) : Except Err (List Path) :=
  if !inMeta q then .ok acc
  else if isMetaBase q then .ok acc
  else
    match objOfPath q with
    | none => .error .value
    | some (_, u) =>
      if (alGet s.c.tocPath u).isNone then .ok (acc ++ [q])
      else
        match linkResolve s u with
        | .error err => .error err
        | .ok tgt => if tgt ≠ q then .ok (acc ++ [q]) else .ok acc

theorem findMissing_eq (s : St) (p : Path) :
    findMissing s p = (descendants s.raw p).foldlM (fun acc e => fmBody s acc e.1) [] := rfl

def fmStep : List Path → Path → M (List Path) := fun acc q s => liftE (fmBody s acc q) s

theorem run_liftE_ok {α : Type} (a : α) (s : St) : liftE (.ok a) s = (.ok a, s) := rfl
theorem run_liftE_error {α : Type} (e : Err) (s : St) : (liftE (.error e) : M α) s = (.error e, s) := rfl

theorem fmStep_loop (s : St) : ∀ (l : List (Path × Node)) (acc : List Path),
    pyFoldM (l.map (·.1)) acc fmStep s = liftE (l.foldlM (fun acc e => fmBody s acc e.1) acc) s
  | [], acc => rfl
  | e :: l, acc => by
    simp only [List.map_cons, pyFoldM, run_bind, List.foldlM_cons, fmStep]
    cases h : fmBody s acc e.1 with
    | error er => rfl
    | ok acc' =>
      simp only [run_liftE_ok]
      exact fmStep_loop s l acc'

/-- `find_missing(group)`: the translated traversal is the model's fold (on an existing group
`require_group` returns it unchanged) -/
theorem gen_find_missing (p : Path) (s : St) (hg : get? s.raw p = some .grp) :
    TOCLinks.find_missing resolveM p s = liftE (findMissing s p) s := by
  simp only [TOCLinks.find_missing, run_bind, run_rawRequireGroup_grp hg, run_getSt, visitNodes]
  rw [pyFoldM_congr fmStep]
  · rw [fmStep_loop, findMissing_eq]
  · intro acc q; funext s
    simp only [fmStep, fmBody, storedFromNode]
    by_cases h1 : inMeta q = true
    · by_cases h2 : isMetaBase q = true
      · simp [h1, h2, run_liftE_ok]
      · cases ho : objOfPath q with
        | none => simp [h1, h2, run_liftE_error]
        | some ru =>
          obtain ⟨r, u⟩ := ru
          cases ht : alGet s.c.tocPath u with
          | none => simp [h1, h2, ht, run_liftE_ok]
          | some tp =>
            cases hr : linkResolve s u with
            | error er => simp [h1, h2, ht, resolveM, hr, run_liftE_error]
            | ok tgt =>
              by_cases he : tgt = q <;> simp [h1, h2, ht, resolveM, hr, run_liftE_ok, he]
    · simp [h1, run_liftE_ok]

/-! ### `repair_missing` -/

/-- the loop body of `repairMissing` -/
def rmStep (e : Env) (update : Bool) : Path → M Unit := fun p => do
  match objOfPath p with
  | none => raise .value
  | some (r, u) =>
    let s ← getSt
    if update && (alGet s.c.tocPath u).isSome then
      linkUpdate u p
    else
      let u' ← freshUuid
      let newPath := p.dropLast ++ [.obj r u']
      liftRaw fun t => rawMove t p newPath
      linkRegister e r u' newPath

theorem repairMissing_eq (e : Env) (missing : List Path) (update : Bool) :
    repairMissing e missing update = forEachM missing (rmStep e update) := rfl

theorem gen_repair_missing (e : Env) (missing : List Path) (update : Bool) :
    TOCLinks.repair_missing linkUpdate freshUuid (fun st => linkRegister e st.schema st.uuid st.path) missing update
      = repairMissing e missing update := by
  simp only [TOCLinks.repair_missing, bind_pure_unit, repairMissing_eq]
  apply forEachM_congr
  intro p; funext s
  simp only [rmStep, storedFromNode, gen_to_path]
  cases ho : objOfPath p with
  | none => rfl
  | some ru =>
    obtain ⟨r, u⟩ := ru
    simp only [run_bind, run_pure, run_getSt]
    by_cases hc : (update && (alGet s.c.tocPath u).isSome) = true
    · simp only [hc, if_true]
    · simp only [hc, Bool.false_eq_true, if_false, run_bind]
      rcases freshUuid s with ⟨ru', s1⟩
      cases ru' with
      | error er => rfl
      | ok u' =>
        simp only [rawMoveM, run_liftRaw]
        cases hm : rawMove s1.raw p (p.dropLast ++ [Key.obj r u']) with
        | error er => rfl
        | ok t2 =>
          simp only [run_getSt, run_rawGetItem, rawMove_has_dst hm, if_true]

end MetadorModel.Bridge.TocFns
