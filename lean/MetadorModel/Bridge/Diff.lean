import MetadorModel.Bridge.DiffCompare
import MetadorModel.Bridge.DiffNodes
/-! Bridge between the Lean text generated from `util/diff.py` in /repo (`Gen/Diff.lean`, regenerated on
every run by `harness/translate_c18.py`) and the hand-written model `Model/Diff.lean` the C18 theorems
are about: `gen_type`, `gen_prev_curr_type`, `gen_status`, `gen_children`, `gen_compare(_top)`,
`gen_nodes`, `gen_get` (one module each, so that a changed function breaks its own obligation) and,
here, their composition `gen_nodes_compare`. -/
set_option linter.unusedSimpArgs false
namespace MetadorModel.Bridge.Diff
open MetadorModel MetadorModel.Diff MetadorModel.DiffPy

/-- `DiffNode.compare(prev, curr, path).nodes()`: the translated functions composed give the
listing of the model. -/
theorem gen_nodes_compare (fuel fuel' : Nat) (prev curr : Option DirTree) (path : Path)
    (hp : wfO prev) (hc : wfO curr) (hd : max (depthO prev) (depthO curr) < fuel) :
    Gen.Diff.compare fuel prev curr path = .ok (compareAt path prev curr) ∧
    ∀ d, compareAt path prev curr = some d → ndepth d < fuel' →
      ∃ l, Gen.Diff.nodes fuel' d = .ok l ∧ l.map DNode.rec' = Diff.nodes d := by
  refine ⟨gen_compare fuel prev curr path hp hc hd, fun d h hd' => ?_⟩
  have := gen_nodes fuel' d hd'
  rwa [canon_sorted d (sortedD_compareAt hp hc path h)] at this

end MetadorModel.Bridge.Diff
