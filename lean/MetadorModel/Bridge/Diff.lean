import MetadorModel.Bridge.DiffCompare
import MetadorModel.Bridge.DiffNodes
/-! Bridge between the Lean text generated from `util/diff.py` in /repo (`Gen/Diff.lean`, regenerated on
every run by `harness/translate_c18.py`) and the hand-written model `Model/Diff.lean` the C18 theorems
are about: `gen_type`, `gen_prev_curr_type`, `gen_status`, `gen_children`, `gen_compare(_top)`,
`gen_nodes`, `gen_get` (one module each, so that a changed function breaks its own obligation) and,
here, their composition `gen_nodes_compare`. -/
set_option linter.unusedSimpArgs false
namespace MetadorModel.Bridge.Diff
open MetadorModel MetadorModel.Diff MetadorModel.DiffPy

/-- `DiffNode.compare(prev, curr, path).nodes()`: the translated functions composed give the
listing of the model, whatever the iteration order of sets and input dicts. -/
theorem gen_nodes_compare (ord : IterOrd) (hord : PermOrd ord) (fuel fuel' : Nat)
    (prev curr : Option DirTree) (path : Path)
    (hp : wfO prev) (hc : wfO curr) (hd : max (depthO prev) (depthO curr) < fuel) :
    ∃ r, Gen.Diff.compare ord fuel prev curr path = .ok r ∧ r.map canon = compareAt path prev curr ∧
      ∀ d, r = some d → ndepth d < fuel' →
        ∃ l, Gen.Diff.nodes fuel' d = .ok l ∧ l.map DNode.rec' = nodesO (compareAt path prev curr) := by
  obtain ⟨r, h1, h2⟩ := gen_compare ord hord fuel prev curr path hp hc hd
  refine ⟨r, h1, h2, fun d hr hd' => ?_⟩
  obtain ⟨l, h3, h4⟩ := gen_nodes fuel' d hd'
  refine ⟨l, h3, ?_⟩
  subst hr
  rw [h4, ← h2]
  rfl

end MetadorModel.Bridge.Diff
