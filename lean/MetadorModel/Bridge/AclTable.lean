import MetadorModel.Gen.AclTable
import MetadorModel.Model.Acl
/-!
Obligations on the ACL table extracted from `container/wrappers.py` / `interface.py` on every
run (`Gen/AclTable.lean`): it is a well-formed table in the sense of `Acl.TableOk`, so that all
chain theorems of `Props/C15.lean` (proved for every well-formed table) apply to it. A navigation
method that stops wrapping its result, a mutating / reading / upward operation that loses its
`_guard_acl` call (or performs it after touching `__wrapped__`), a `restrict` that replaces flags,
a `parent` that hands out the remembered object as it is, a dataset `__getattr__` that forwards
wrapper attributes, or a weakened attribute whitelist changes the table and breaks `decide`.
-/
namespace MetadorModel.Bridge.AclTable
open MetadorModel MetadorModel.Acl

theorem table_ok : TableOk Gen.aclTable = true := by decide

/-- every operation and navigation primitive of the protocol has a row in the table -/
theorem table_covers_protocol :
    (∀ op ∈ mutatingOps ++ readingOps ++ upwardOps,
      (Gen.aclTable.opGuards.find? (·.1 == op)).isSome = true) ∧
    (∀ p ∈ allPrims, (Gen.aclTable.wraps.find? (·.1 == p.name)).isSome = true) := by decide

end MetadorModel.Bridge.AclTable
