import MetadorModel.Gen.Diff
import MetadorModel.Bridge.DiffChildren
/-! Bridge (C18): the generated `DirDiff.get` equals the model's `get`. -/
set_option linter.unusedSimpArgs false
namespace MetadorModel.Bridge.Diff
open MetadorModel MetadorModel.Diff MetadorModel.DiffPy

theorem gen_get (root : Option DNode) (p : Path) : Gen.Diff.get root p = .ok (Diff.get root p) := by
  unfold Gen.Diff.get
  cases root with
  | none => simp [isAbsolute, Diff.get]
  | some r =>
    simp only [isAbsolute, Bool.not_false, Bool.not_true, Bool.false_eq_true, if_false, prefixes_pop,
      ok_bind, List.reverse_reverse, pure_eq_ok]
    rw [loop_get_top]
    · simp only [ok_bind, Diff.get]
      cases getFrom r [] p <;> rfl
    · intro cur q
      simp only [gen_children, ok_bind, nextOrNone_eq_findPath, pure_eq_ok]
      cases findPath q (Diff.children cur) <;> rfl

end MetadorModel.Bridge.Diff
