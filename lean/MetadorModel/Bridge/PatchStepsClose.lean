import MetadorModel.Bridge.PatchStepsCommit
/-!
# Bridge for C11: `IH5Record.close` as regenerated from the source

`gen_close`: an uncommitted patch is committed first (by the `commit_patch` of the object's class) unless
`commit=False`; only then are the HDF5 handles closed, in list order; nothing else touches the file system.
-/
set_option linter.unusedSimpArgs false
set_option linter.unusedVariables false
namespace MetadorModel.Bridge.PatchSteps
open MetadorModel.FindFiles MetadorModel.Record MetadorModel.RecordPy MetadorModel.PatchPy
open MetadorModel.Gen.PatchSteps

variable {α : Type}

theorem pyIdx_mid (pre : List α) (x : α) (r : List α) : pyIdx (pre ++ x :: r) (Int.ofNat pre.length) = .ok x := by
  have h : pre.length < (pre ++ x :: r).length := by simp
  rw [pyIdx_nat_lt _ _ h]
  simp

theorem pySetIdx_mid (pre : List α) (x y : α) (r : List α) :
    pySetIdx (pre ++ x :: r) (Int.ofNat pre.length) y = .ok (pre ++ y :: r) := by
  have h : pre.length < (pre ++ x :: r).length := by simp
  rw [pySetIdx_nat_lt _ _ _ h]
  simp

def kill (h : H5) : H5 := { h with live := false }

/-- the loop `for f in self.__files__: f.close()` from position `pre.length` on -/
theorem forIdx_close (body : Int → PatchM Unit) (hb : ∀ j w, body j w = pyH5CloseAt j w) :
    ∀ (post pre : List H5) (w : World), w.self.files = pre ++ post →
      pyForIdx post.length pre.length body w =
        (.ok (), { w with self := { w.self with files := pre ++ post.map kill },
                          trace := w.trace ++ closeActs post }) := by
  intro post
  induction post with
  | nil =>
    intro pre w hf
    simp [pyForIdx, closeActs, ← hf]
  | cons x r ih =>
    intro pre w hf
    simp only [List.length_cons, pyForIdx, run_bind, hb, pyH5CloseAt, hf, pyIdx_mid, pySetIdx_mid]
    have hlen : (pre ++ [kill x]).length = pre.length + 1 := by simp
    rw [← hlen, ih (pre ++ [kill x])]
    · cases hl : x.live <;> simp [kill, closeActs, List.filter, hl]
    · simp [kill]

theorem gen_close_loop (body : Int → PatchM Unit) (hb : ∀ j w, body j w = pyH5CloseAt j w) (w : World) :
    pyForFiles body w =
      (.ok (), { w with self := { w.self with files := w.self.files.map kill }, trace := w.trace ++ closeActs w.self.files }) := by
  unfold pyForFiles
  have := forIdx_close body hb w.self.files [] w rfl
  simpa using this

/-- **`close(commit)`** as regenerated from the source is the step sequence `closeW` -/
theorem gen_close (s : State) (hp : PyRep s.h) (c : Bool) :
    IH5Record.close c (World.ofState s) = closeW s c := by
  have hcl : (World.ofState s).self.closed = s.h.closed := rfl
  have hwr : lastIsRW (World.ofState s).self.files = hasWritable s.h := (hasWritable_eq s.h).symm
  unfold IH5Record.close closeW
  cases hc : s.h.closed
  case true => simp [hcl, hc]
  case false =>
    simp only [run_bind, run_pure, run_pySelf, hcl, hc, gen_has_writable, hwr, Bool.false_eq_true, if_false]
    rcases Bool.eq_false_or_eq_true (hasWritable s.h && c) with hwc | hwc
    · simp only [hwc, if_true, run_bind, gen_dispatch_commit_patch s hp]
      generalize commitPatchW s [] = x
      obtain ⟨r, w1⟩ := x
      cases r with
      | error e => rfl
      | ok v =>
        simp only
        rw [gen_close_loop _ (fun j w => rfl)]
        simp [pySetFiles, pySetClosed]
    · simp only [hwc, Bool.false_eq_true, if_false, run_pure, run_bind]
      rw [gen_close_loop _ (fun j w => rfl)]
      simp [pySetFiles, pySetClosed]

/-- **`close(commit)`** as regenerated from the source is the model's `close` -/
theorem gen_close_model (s : State) (hp : PyRep s.h) (hd : OnDisk s) (c : Bool) :
    resOf s (IH5Record.close c (World.ofState s)) = close s c := by
  rw [gen_close s hp]; exact closeW_res s hp hd c

end MetadorModel.Bridge.PatchSteps
