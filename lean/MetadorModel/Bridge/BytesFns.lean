import MetadorModel.Bridge.BytesFnsWrap
import MetadorModel.Bridge.BytesFnsDel
import MetadorModel.Bridge.BytesFnsHash
/-!
Bridge between the Lean text generated from /repo on every run (`Gen/BytesFns.lean`, by
`harness/translate_c17.py`: `_h5_wrap_bytes`, `DEL_VALUE`, `_is_del_mark`, `_node_is_del_mark`,
`IH5Node._guard_value`, `_hash_alg`, `hashsum`, `qualified_hashsum`, `file_hashsum`) and the
hand-written model `Model/Bytes.lean` that the C17 (and, for the hashing part, C19) theorems are
about. The value dictionary is `Model/BytesPy.lean`.

A change of the meaning of one of these functions changes the generated definitions and the
equalities below have to be re-proved; renaming locals, comments, `x if c else y` versus an
`if` statement, or reordering independent statements does not disturb them (the proofs never
mention a local name of the generated text).

The theorems live in three modules, one per source file, so that a broken proof is attributed
to the function group that changed: `Bridge/BytesFnsWrap.lean` (`gen_h5_wrap_bytes`),
`Bridge/BytesFnsDel.lean` (`gen_del_value`, `gen_is_del_mark`, `gen_node_is_del_mark`,
`gen_guard_value`), `Bridge/BytesFnsHash.lean` (`gen_def_hash_alg`, `gen_hash_alg`,
`gen_hashsum_loop`, `gen_hashsum`, `gen_qualified_hashsum`, `gen_file_hashsum`); all in namespace
`MetadorModel.Bridge.BytesFns`. This module collects them and states what they give together.
-/
namespace MetadorModel.Bridge.BytesFns
open MetadorModel MetadorModel.Bytes MetadorModel.BytesPy

/-- What the tie gives for the property: the value `pack_file` hands to `create_dataset` is
refused by the guard that the source has now exactly when the file content is the single byte
`0x7f`, and reading back what the source's wrapping produced gives the bytes. -/
theorem gen_guard_wrap_iff (bs : Bytes) :
    Gen.BytesFns._guard_value (.value (Gen.BytesFns._h5_wrap_bytes bs)) = .error .valueError ↔ bs = [0x7f] := by
  rw [gen_guard_value, gen_h5_wrap_bytes]
  show guardValue (wrapBytes bs) = .error .valueError ↔ _
  unfold guardValue wrapBytes
  by_cases h : bs.length ≠ 0
  · by_cases h2 : bs = [0x7f] <;> simp [h, h2, isDelMark]
  · have : bs = [] := by simpa using h
    subst this; simp [isDelMark]

/-- the digest the source's `hashsum` computes now is the one-shot digest, under the streaming
hypothesis on `hashlib` -/
theorem gen_hashsum_oneShot {σ : Type} (hl : HashLib σ) (h : Streaming hl) (alg : Str)
    (ha : alg ∈ hashAlgs) (d : PyData) :
    Gen.BytesFns.hashsum hl d alg = .ok (oneShot hl alg d.content) := by
  rw [gen_hashsum, hashsum_eq_oneShot hl h alg ha]

end MetadorModel.Bridge.BytesFns
