import MetadorModel.Proofs.ContainerToc
import MetadorModel.Py.CtrPy
import MetadorModel.Bridge.TocFnsAttr
/-!
# Lemmas shared by the bridge theorems of the translated container bookkeeping

Nothing here depends on the generated file: facts about association lists, about the value
dictionary `Py/CtrPy.lean`, and the relation `Agree` in which a translated method and its model
may differ (the cache state left behind by a loop that raises half-way, see `Bridge/TocFns*.lean`).
-/
namespace MetadorModel.Bridge.TocFns
open MetadorModel.Container MetadorModel.CtrPy

section AL
variable {α β : Type} [DecidableEq α]

theorem alSet_alSet (l : List (α × β)) (a : α) (b b' : β) : alSet (alSet l a b) a b' = alSet l a b' := by
  induction l with
  | nil => simp [alSet]
  | cons e t ih =>
    obtain ⟨k, v⟩ := e
    by_cases hk : k = a
    · simp [alSet, hk]
    · simp [alSet, hk, ih]

theorem alErase_alSet (l : List (α × β)) (a : α) (b : β) : alErase (alSet l a b) a = alErase l a := by
  induction l with
  | nil => simp [alSet, alErase]
  | cons e t ih =>
    obtain ⟨k, v⟩ := e
    by_cases hk : k = a
    · simp [alSet, alErase, hk]
    · simp only [alErase] at ih
      simp only [alSet, hk, if_false, alErase, List.filter_cons, ih]

theorem alSet_same (l : List (α × β)) (a : α) (b : β) (h : alGet l a = some b) : alSet l a b = l := by
  induction l with
  | nil => simp at h
  | cons e t ih =>
    obtain ⟨k, v⟩ := e
    by_cases hk : k = a
    · simp [alGet_cons, hk] at h
      simp [alSet, hk, h]
    · simp [alGet_cons, hk] at h
      simp [alSet, hk, ih h]

theorem setRemove_not_mem (l : List α) (a : α) (h : a ∉ l) : setRemove l a = l := by
  simp only [setRemove, List.filter_eq_self]
  intro x hx
  simp only [ne_eq, decide_not, Bool.not_eq_eq_eq_not, Bool.not_true, decide_eq_false_iff_not]
  rintro rfl; exact h hx

theorem alGet_alSet_same (l : List (α × β)) (a : α) (b : β) : alGet (alSet l a b) a = some b := by
  simp [alGet_alSet]
end AL

/-! ### running dictionary entries -/
section Run
variable {α : Type}
@[simp] theorem run_pyAssert_true (s : St) : pyAssert true s = (.ok (), s) := rfl
@[simp] theorem run_pyAssert_false (s : St) : pyAssert false s = (.error .other, s) := rfl
@[simp] theorem run_requireKey_true (s : St) : requireKey true s = (.ok (), s) := rfl
@[simp] theorem run_requireKey_false (s : St) : requireKey false s = (.error .key, s) := rfl
theorem run_requireKey (c : Bool) (s : St) : requireKey c s = if c then (.ok (), s) else (.error .key, s) := by
  cases c <;> rfl
theorem run_pyAssert (c : Bool) (s : St) : pyAssert c s = if c then (.ok (), s) else (.error .other, s) := by
  cases c <;> rfl
theorem run_dictGetItem {K V : Type} [DecidableEq K] (d : List (K × V)) (k : K) (s : St) :
    dictGetItem d k s = match alGet d k with
      | some v => (.ok v, s)
      | none => (.error .key, s) := by
  unfold dictGetItem; cases alGet d k <;> rfl
theorem run_rawSetItem (p : Path) (v : Val) (s : St) :
    rawSetItem p v s = liftRaw (fun t => rawCreate t p (.ds v)) s := rfl
theorem run_rawDelItem (p : Path) (s : St) : rawDelItem p s = liftRaw (fun t => rawDel t p) s := rfl
theorem run_rawGetItem (t : Tree) (p : Path) (s : St) :
    rawGetItem t p s = if has t p then (.ok p, s) else (.error .key, s) := by
  unfold rawGetItem; cases has t p <;> rfl
theorem run_pySetRemove {β : Type} [DecidableEq β] (l : List β) (a : β) (s : St) :
    pySetRemove l a s = if a ∈ l then (.ok (setRemove l a), s) else (.error .key, s) := by
  unfold pySetRemove; by_cases h : a ∈ l <;> simp [h]
@[simp] theorem run_bind_pure_unit (m : M Unit) (s : St) :
    (match m s with
      | (.ok _, s') => ((.ok (), s') : Res Unit)
      | (.error e, s') => (.error e, s')) = m s := by
  rcases m s with ⟨r, s'⟩; cases r <;> rfl
@[simp] theorem bind_pure_unit (m : M Unit) : (do m; pure ()) = m := by
  funext s
  simp only [run_bind]
  rcases m s with ⟨r, s'⟩; cases r <;> rfl
theorem run_rawRequireGroup_grp {p : Path} {s : St} (h : get? s.raw p = some .grp) :
    rawRequireGroup p s = (.ok p, s) := by
  simp [rawRequireGroup, h]
end Run

attribute [mrun] run_pure run_bind run_raise run_getSt run_modifySt run_modC run_liftRaw run_ofOpt_some run_ofOpt_none
  run_pyAssert_true run_pyAssert_false run_requireKey_true run_requireKey_false run_rawSetItem run_rawDelItem
  run_dictGetItem run_rawGetItem run_pySetRemove bind_pure_unit

/-! ### loops: the body of a translated loop is replaced by a named step, so that no proof mentions generated text -/
theorem forEachM_congr {α : Type} {f : α → M Unit} (g : α → M Unit) (h : ∀ a, f a = g a) (l : List α) :
    forEachM l f = forEachM l g := by
  have : f = g := funext h
  rw [this]
theorem pyFoldM_congr {α β : Type} {f : β → α → M β} (g : β → α → M β) (h : ∀ b a, f b a = g b a) (l : List α) (b : β) :
    pyFoldM l b f = pyFoldM l b g := by
  have : f = g := funext fun b => funext (h b)
  rw [this]
theorem pyMapM_congr {α β : Type} {f : α → M β} (g : α → M β) (h : ∀ a, f a = g a) (l : List α) :
    pyMapM l f = pyMapM l g := by
  have : f = g := funext h
  rw [this]

/-! ### association lists with distinct keys, Python set operations -/
theorem mem_iff_alGet {α β : Type} [DecidableEq α] : ∀ (l : List (α × β)), (alKeys l).Nodup → ∀ (a : α) (b : β),
    (a, b) ∈ l ↔ alGet l a = some b
  | [], _, a, b => by simp
  | (k, v) :: t, h, a, b => by
    simp only [alKeys, List.map_cons, List.nodup_cons] at h
    have ih := mem_iff_alGet t h.2 a b
    simp only [List.mem_cons, Prod.mk.injEq, alGet_cons]
    by_cases hk : k = a
    · subst hk
      simp only [if_true, Option.some.injEq]
      constructor
      · rintro (hv | hm)
        · exact hv.2.symm
        · exact absurd (List.mem_map_of_mem (f := Prod.fst) hm) h.1
      · rintro rfl; exact Or.inl ⟨trivial, rfl⟩
    · simp only [hk, if_false, ← ih]
      constructor
      · rintro (⟨rfl, _⟩ | hm)
        · exact absurd rfl hk
        · exact hm
      · exact Or.inr

theorem mem_foldl_setAdd {α : Type} [DecidableEq α] (x : α) : ∀ (l acc : List α),
    x ∈ l.foldl setAdd acc ↔ x ∈ acc ∨ x ∈ l
  | [], acc => by simp
  | a :: l, acc => by
    simp only [List.foldl_cons, mem_foldl_setAdd x l, mem_setAdd, List.mem_cons]
    tauto

theorem mem_pyUnion_aux {α : Type} [DecidableEq α] (x : α) : ∀ (ls : List (List α)) (acc : List α),
    x ∈ ls.foldl (fun acc l => l.foldl setAdd acc) acc ↔ x ∈ acc ∨ ∃ l ∈ ls, x ∈ l
  | [], acc => by simp
  | l :: ls, acc => by
    simp only [List.foldl_cons, mem_pyUnion_aux x ls, mem_foldl_setAdd, List.mem_cons, exists_eq_or_imp]
    tauto

theorem mem_pyUnion {α : Type} [DecidableEq α] (x : α) (ls : List (List α)) :
    x ∈ pyUnion ls ↔ ∃ l ∈ ls, x ∈ l := by
  simp [pyUnion, mem_pyUnion_aux]


/-- what a translated method and its model agree on in every case: the outcome, the raw tree and the
uuid counter; and the whole state whenever the model does not raise. (They may differ in the caches
left behind when a loop over a cache raises half-way: Python has updated the entries visited so far,
the model's loops are pure functions whose partial result is dropped.) -/
def Agree {α : Type} (g m : Res α) : Prop :=
  g.1 = m.1 ∧ g.2.raw = m.2.raw ∧ g.2.next = m.2.next ∧ (∀ a, m.1 = .ok a → g = m)

theorem Agree.rfl' {α : Type} {g m : Res α} (h : g = m) : Agree g m := by
  subst h; exact ⟨rfl, rfl, rfl, fun _ _ => rfl⟩

end MetadorModel.Bridge.TocFns
