import MetadorModel.Gen.PluginGroupFns
import MetadorModel.Bridge.PluginGroupFnsDict
/-!
Bridge, part 1 (C16): the regular expressions of `plugin/types.py`, as parsed by Python's `re._parser`
on every run (`Gen/PluginGroupFns.lean`), accept exactly the strings that the hand-written recognisers
of `Model/Plugin.lean` accept:

  `SemVerStr(s)` succeeds ↔ `isSemVer s`      `NAME` ↔ `isName`      `QUAL_NAME` ↔ `isQualName`
  `EPName(s)` succeeds ↔ `isEpName s`

(`gen_SEMVER_STR_REGEX`, `gen_NAME`, `gen_QUAL_NAME`, `gen_EP_NAME_REGEX`, via the language `Re.Matches`
and `Re.test_iff`). A change of any of the pattern constants changes the generated `Re` terms and these
proofs have to be redone.
-/
namespace MetadorModel.Bridge.PluginGroupFns
open MetadorModel MetadorModel.Plugin MetadorModel.PluginPy

/-! ## single characters -/

theorem gen_LETTER (s : Str) : Gen.PluginGroupFns.LETTER.Matches s ↔ ∃ c, s = [c] ∧ isLetter c = true := by
  simp [Gen.PluginGroupFns.LETTER, Re.Matches, Atom.ok, ClassItem.ok, isLetter]

theorem gen_ALNUM (s : Str) : Gen.PluginGroupFns.ALNUM.Matches s ↔ ∃ c, s = [c] ∧ isAlnum c = true := by
  simp [Gen.PluginGroupFns.ALNUM, Re.Matches, Atom.ok, ClassItem.ok, isAlnum, isLetter, isDigit]

theorem gen_LETSEP (s : Str) : Gen.PluginGroupFns.LETSEP.Matches s ↔ ∃ c, s = [c] ∧ isSep c = true := by
  simp [Gen.PluginGroupFns.LETSEP, Re.Matches, Atom.ok, ClassItem.ok, isSep]

theorem gen_NSSEP (s : Str) : Gen.PluginGroupFns.NSSEP.Matches s ↔ s = ['.'] := by
  simp [Gen.PluginGroupFns.NSSEP, Re.Matches, Atom.ok]

def digs (x : Str) : Prop := x ≠ [] ∧ ∀ c ∈ x, isDigit c = true

theorem isDigits_iff (x : Str) : isDigits x = true ↔ digs x := by
  simp [isDigits, digs]

theorem gen_DIGIT_plus (s : Str) : (Re.plus Gen.PluginGroupFns.DIGIT).Matches s ↔ digs s := by
  unfold Gen.PluginGroupFns.DIGIT
  rw [matches_plus_atom]
  simp [digs, Atom.ok, ClassItem.ok, isDigit]


/-! ## the semantic version pattern -/

/-- what `splitChar` returns, put together again -/
theorem splitChar_spec (sep : Char) (s : Str) :
    ∃ h t, splitChar sep s = h :: t ∧ s = h ++ (t.map (fun x => sep :: x)).flatten ∧
      (∀ c ∈ h, c ≠ sep) ∧ ∀ x ∈ t, ∀ c ∈ x, c ≠ sep := by
  induction s with
  | nil => exact ⟨[], [], rfl, rfl, by simp, by simp⟩
  | cons c s ih =>
    obtain ⟨h, t, hs, rfl, hh, ht⟩ := ih
    simp only [splitChar]
    by_cases hc : c = sep
    · subst hc
      refine ⟨[], h :: t, by simp [hs], by simp, by simp, ?_⟩
      intro x hx
      rcases List.mem_cons.mp hx with rfl | hx
      · exact hh
      · exact ht x hx
    · refine ⟨c :: h, t, by simp [hc, hs], by simp, ?_, ht⟩
      intro d hd
      rcases List.mem_cons.mp hd with rfl | hd
      · exact hc
      · exact hh d hd

theorem digs_noDot {x : Str} (h : digs x) : ∀ c ∈ x, c ≠ '.' :=
  fun c hc => isDigit_ne_dot (h.2 c hc)

theorem isSemVer_iff (s : Str) : isSemVer s = true ↔
    ∃ a b c, s = a ++ '.' :: (b ++ '.' :: c) ∧ digs a ∧ digs b ∧ digs c := by
  constructor
  · intro h
    obtain ⟨p, t, hs, hjoin, _, _⟩ := splitChar_spec '.' s
    simp only [isSemVer, hs] at h
    match t, h with
    | [b, c], h =>
      simp only [Bool.and_eq_true, isDigits_iff] at h
      exact ⟨p, b, c, by simpa using hjoin, h.1.1, h.1.2, h.2⟩
  · rintro ⟨a, b, c, rfl, ha, hb, hc⟩
    simp only [isSemVer]
    rw [splitChar_append _ _ _ (digs_noDot ha), splitChar_append _ _ _ (digs_noDot hb),
      splitChar_noSep _ _ (digs_noDot hc)]
    simp [isDigits_iff, ha, hb, hc]

theorem matches_SEMVER (s : Str) : Gen.PluginGroupFns.SEMVER_STR_REGEX.Matches s ↔
    ∃ a b c, s = a ++ '.' :: (b ++ '.' :: c) ∧ digs a ∧ digs b ∧ digs c := by
  have hD : ∀ x, (Re.plus (.atom (.cls false [.range '0' '9']))).Matches x ↔ digs x := gen_DIGIT_plus
  have hdot : ∀ x, (Re.atom (.chr '.')).Matches x ↔ x = ['.'] := gen_NSSEP
  unfold Gen.PluginGroupFns.SEMVER_STR_REGEX
  simp only [matches_seqOf_cons, hD, hdot]
  constructor
  · rintro ⟨a, _, rfl, ha, _, _, rfl, rfl, b, _, rfl, hb, _, c, rfl, rfl, hc⟩
    exact ⟨a, b, c, by simp, ha, hb, (hD c).mp hc⟩
  · rintro ⟨a, b, c, rfl, ha, hb, hc⟩
    exact ⟨a, _, rfl, ha, _, _, rfl, rfl, b, _, rfl, hb, _, c, rfl, rfl, (hD c).mpr hc⟩

/-- `SemVerStr(s)` succeeds exactly on the strings the model calls semantic version strings -/
theorem gen_SEMVER_STR_REGEX (s : Str) : Gen.PluginGroupFns.SemVerStr_pattern.test s = isSemVer s := by
  rw [Bool.eq_iff_iff, Re.test_iff, isSemVer_iff]
  exact matches_SEMVER s


/-! ## names -/

/-- `({LETSEP}?{ALNUM})` -/
def tailPiece (x : Str) : Prop :=
  (∃ a, x = [a] ∧ isAlnum a = true) ∨ ∃ c a, x = [c, a] ∧ isSep c = true ∧ isAlnum a = true

theorem matches_tailPiece (x : Str) :
    (Re.seqOf [.opt Gen.PluginGroupFns.LETSEP, Gen.PluginGroupFns.ALNUM]).Matches x ↔ tailPiece x := by
  rw [matches_seqOf_cons]
  simp only [Re.seqOf, Re.Matches.eq_6, gen_LETSEP, gen_ALNUM, tailPiece]
  constructor
  · rintro ⟨s1, s2, rfl, h1 | ⟨c, rfl, hc⟩, a, rfl, ha⟩
    · subst h1; left; exact ⟨a, rfl, ha⟩
    · right; exact ⟨c, a, rfl, hc, ha⟩
  · rintro (⟨a, rfl, ha⟩ | ⟨c, a, rfl, hc, ha⟩)
    · exact ⟨[], [a], rfl, Or.inl rfl, a, rfl, ha⟩
    · exact ⟨[c], [a], rfl, Or.inr ⟨c, rfl, hc⟩, a, rfl, ha⟩

theorem isSep_not_alnum {c : Char} (h : isSep c = true) : isAlnum c = false := by
  simp only [isSep, Bool.or_eq_true, beq_iff_eq] at h
  rcases h with rfl | rfl <;> decide

theorem nameTail_cons_alnum {c : Char} {l : Str} (hc : isAlnum c = true) (hl : nameTail l = true) :
    nameTail (c :: l) = true := by
  cases l with
  | nil => simpa [nameTail] using hc
  | cons d r => simp [nameTail, hc, hl]

theorem nameTail_cons_sep {c a : Char} {l : Str} (hc : isSep c = true) (ha : isAlnum a = true)
    (hl : nameTail l = true) : nameTail (c :: a :: l) = true := by
  simp [nameTail, isSep_not_alnum hc, hc, ha, hl]

theorem nameTail_iff (s : Str) : nameTail s = true ↔
    ∃ l : List Str, s = l.flatten ∧ ∀ x ∈ l, tailPiece x := by
  constructor
  · intro h
    fun_induction nameTail s with
    | case1 => exact ⟨[], rfl, by simp⟩
    | case2 c => exact ⟨[[c]], rfl, by simpa [tailPiece] using h⟩
    | case3 c d rest hc ih =>
      obtain ⟨l, hl, hp⟩ := ih h
      refine ⟨[c] :: l, by simp [hl], ?_⟩
      intro x hx
      rcases List.mem_cons.mp hx with rfl | hx
      · left; exact ⟨c, rfl, hc⟩
      · exact hp x hx
    | case4 c d rest hc hsd ih =>
      obtain ⟨l, hl, hp⟩ := ih h
      simp only [Bool.and_eq_true] at hsd
      refine ⟨[c, d] :: l, by simp [hl], ?_⟩
      intro x hx
      rcases List.mem_cons.mp hx with rfl | hx
      · right; exact ⟨c, d, rfl, hsd.1, hsd.2⟩
      · exact hp x hx
    | case5 c d rest hc hsd => simp at h
  · rintro ⟨l, rfl, hp⟩
    induction l with
    | nil => rfl
    | cons x l ih =>
      have hl := ih (fun y hy => hp y (List.mem_cons_of_mem _ hy))
      rcases hp x (List.mem_cons_self) with ⟨a, rfl, ha⟩ | ⟨c, a, rfl, hc, ha⟩
      · exact nameTail_cons_alnum ha hl
      · exact nameTail_cons_sep hc ha hl

theorem matches_nameTail (s : Str) :
    (Re.star (Re.seqOf [.opt Gen.PluginGroupFns.LETSEP, Gen.PluginGroupFns.ALNUM])).Matches s ↔
      nameTail s = true := by
  rw [nameTail_iff]
  simp only [Re.Matches.eq_7, matches_tailPiece]

theorem seqOf_single (r : Re) : Re.seqOf [r] = r := rfl

theorem matches_NAME (s : Str) : Gen.PluginGroupFns.NAME.Matches s ↔ isName s = true := by
  have : Gen.PluginGroupFns.NAME = Re.seqOf [Gen.PluginGroupFns.LETTER, Gen.PluginGroupFns.ALNUM,
      .star (Re.seqOf [.opt Gen.PluginGroupFns.LETSEP, Gen.PluginGroupFns.ALNUM])] := rfl
  rw [this]
  simp only [matches_seqOf_cons, gen_LETTER, gen_ALNUM, seqOf_single, matches_nameTail]
  constructor
  · rintro ⟨_, _, rfl, ⟨c, rfl, hc⟩, _, t, rfl, ⟨d, rfl, hd⟩, ht⟩
    simp [isName, hc, hd, ht]
  · intro h
    match s, h with
    | c :: d :: rest, h =>
      simp only [isName, Bool.and_eq_true] at h
      exact ⟨[c], _, rfl, ⟨c, rfl, h.1.1⟩, [d], rest, rfl, ⟨d, rfl, h.1.2⟩, h.2⟩


theorem isAlnum_ne_dot {c : Char} (h : isAlnum c = true) : c ≠ '.' := by
  intro hc; subst hc; revert h; decide

theorem isLetter_ne_dot {c : Char} (h : isLetter c = true) : c ≠ '.' := by
  intro hc; subst hc; revert h; decide

theorem tailPiece_noDot {x : Str} (h : tailPiece x) : ∀ c ∈ x, c ≠ '.' := by
  rcases h with ⟨a, rfl, ha⟩ | ⟨c, a, rfl, hc, ha⟩
  · intro d hd; simp only [List.mem_singleton] at hd; subst hd; exact isAlnum_ne_dot ha
  · intro d hd
    simp only [List.mem_cons, List.not_mem_nil, or_false] at hd
    rcases hd with rfl | rfl
    · intro h; subst h; revert hc; decide
    · exact isAlnum_ne_dot ha

theorem isName_noDot {n : Str} (h : isName n = true) : ∀ c ∈ n, c ≠ '.' := by
  match n, h with
  | a :: b :: rest, h =>
    simp only [isName, Bool.and_eq_true] at h
    obtain ⟨l, rfl, hl⟩ := (nameTail_iff rest).mp h.2
    intro c hc
    simp only [List.mem_cons, List.mem_flatten] at hc
    rcases hc with rfl | rfl | ⟨x, hx, hcx⟩
    · exact isLetter_ne_dot h.1.1
    · exact isAlnum_ne_dot h.1.2
    · exact tailPiece_noDot (hl x hx) c hcx

theorem isQualName_iff (s : Str) : isQualName s = true ↔
    ∃ (n0 : Str) (l : List Str), s = n0 ++ l.flatten ∧ isName n0 = true ∧
      ∀ x ∈ l, ∃ n, x = '.' :: n ∧ isName n = true := by
  constructor
  · intro h
    obtain ⟨p, t, hs, hjoin, _, _⟩ := splitChar_spec '.' s
    simp only [isQualName, hs, List.all_cons, Bool.and_eq_true, List.all_eq_true] at h
    refine ⟨p, t.map (fun x => '.' :: x), hjoin, h.1, ?_⟩
    intro x hx
    simp only [List.mem_map] at hx
    obtain ⟨n, hn, rfl⟩ := hx
    exact ⟨n, rfl, h.2 n hn⟩
  · rintro ⟨n0, l, rfl, h0, hl⟩
    have key : ∀ (l : List Str) (n0 : Str), isName n0 = true →
        (∀ x ∈ l, ∃ n, x = '.' :: n ∧ isName n = true) →
        (splitChar '.' (n0 ++ l.flatten)).all isName = true := by
      intro l
      induction l with
      | nil =>
        intro n0 h0 _
        simp [splitChar_noSep _ _ (isName_noDot h0), h0]
      | cons x l ih =>
        intro n0 h0 hl
        obtain ⟨n, rfl, hn⟩ := hl _ (List.mem_cons_self)
        simp only [List.flatten_cons, List.cons_append]
        rw [splitChar_append _ _ _ (isName_noDot h0)]
        simp only [List.all_cons, h0, Bool.true_and]
        exact ih n hn (fun y hy => hl y (List.mem_cons_of_mem _ hy))
    exact key l n0 h0 hl

theorem matches_QUAL_NAME (s : Str) : Gen.PluginGroupFns.QUAL_NAME.Matches s ↔ isQualName s = true := by
  have hq : Gen.PluginGroupFns.QUAL_NAME = Re.seqOf
      ([Gen.PluginGroupFns.LETTER, Gen.PluginGroupFns.ALNUM,
        .star (Re.seqOf [.opt Gen.PluginGroupFns.LETSEP, Gen.PluginGroupFns.ALNUM])] ++
       [.star (Re.seqOf ([Gen.PluginGroupFns.NSSEP] ++ [Gen.PluginGroupFns.LETTER, Gen.PluginGroupFns.ALNUM,
        .star (Re.seqOf [.opt Gen.PluginGroupFns.LETSEP, Gen.PluginGroupFns.ALNUM])]))]) := rfl
  have hn : ∀ x, (Re.seqOf [Gen.PluginGroupFns.LETTER, Gen.PluginGroupFns.ALNUM,
        .star (Re.seqOf [.opt Gen.PluginGroupFns.LETSEP, Gen.PluginGroupFns.ALNUM])]).Matches x ↔
        isName x = true := matches_NAME
  rw [hq, matches_seqOf_append _ _ (by simp) (by simp), isQualName_iff]
  simp only [seqOf_single, Re.Matches.eq_7, matches_seqOf_append _ _ (List.cons_ne_nil _ _) (List.cons_ne_nil _ _),
    hn, gen_NSSEP]
  constructor
  · rintro ⟨n0, _, rfl, h0, l, rfl, hl⟩
    refine ⟨n0, l, rfl, h0, ?_⟩
    intro x hx
    obtain ⟨_, n, rfl, rfl, hn⟩ := hl x hx
    exact ⟨n, rfl, hn⟩
  · rintro ⟨n0, l, rfl, h0, hl⟩
    refine ⟨n0, _, rfl, h0, l, rfl, ?_⟩
    intro x hx
    obtain ⟨n, rfl, hn⟩ := hl x hx
    exact ⟨['.'], n, rfl, rfl, hn⟩

/-! ## entry point names -/

/-- what `splitUU` returns, put together again -/
theorem splitUU_spec (s acc : Str) :
    ∃ h t, splitUU s acc = h :: t ∧ acc.reverse ++ s = h ++ (t.map (fun x => '_' :: '_' :: x)).flatten := by
  fun_induction splitUU s acc with
  | case1 acc => exact ⟨acc.reverse, [], rfl, by simp⟩
  | case2 rest acc ih =>
    obtain ⟨h, t, hs, hj⟩ := ih
    refine ⟨acc.reverse, h :: t, by rw [hs], ?_⟩
    simp only [List.reverse_nil, List.nil_append] at hj
    simp [hj]
  | case3 c rest acc hne ih =>
    obtain ⟨h, t, hs, hj⟩ := ih
    exact ⟨h, t, hs, by simpa using hj⟩

theorem isSemVer_noUnderscore {v : Str} (h : isSemVer v = true) : ∀ c ∈ v, c ≠ '_' := by
  obtain ⟨a, b, c, rfl, ha, hb, hc⟩ := (isSemVer_iff v).mp h
  have hd : ∀ x : Str, digs x → ∀ d ∈ x, d ≠ '_' := by
    intro x hx d hdx hd; subst hd; have := hx.2 _ hdx; revert this; decide
  intro d hd'
  simp only [List.mem_append, List.mem_cons] at hd'
  rcases hd' with h1 | rfl | h1 | rfl | h1
  · exact hd a ha d h1
  · decide
  · exact hd b hb d h1
  · decide
  · exact hd c hc d h1

theorem isEpName_iff (s : Str) : isEpName s = true ↔
    ∃ n v, s = n ++ '_' :: '_' :: v ∧ isQualName n = true ∧ isSemVer v = true := by
  constructor
  · intro h
    obtain ⟨p, t, hs, hj⟩ := splitUU_spec s []
    simp only [isEpName, hs] at h
    match t, h with
    | [v], h =>
      simp only [Bool.and_eq_true] at h
      exact ⟨p, v, by simpa using hj, h.1, h.2⟩
  · rintro ⟨n, v, rfl, hn, hv⟩
    simp only [isEpName]
    rw [splitUU_append n v [] (isQualName_noUU n hn) (isSemVer_noUnderscore hv)]
    simp [hn, hv]

theorem matches_EP_NAME_REGEX (s : Str) : Gen.PluginGroupFns.EP_NAME_REGEX.Matches s ↔ isEpName s = true := by
  have he : Gen.PluginGroupFns.EP_NAME_REGEX = Re.seqOf
      ([Gen.PluginGroupFns.LETTER, Gen.PluginGroupFns.ALNUM,
        .star (Re.seqOf [.opt Gen.PluginGroupFns.LETSEP, Gen.PluginGroupFns.ALNUM]),
        .star (Re.seqOf [Gen.PluginGroupFns.NSSEP, Gen.PluginGroupFns.LETTER, Gen.PluginGroupFns.ALNUM,
        .star (Re.seqOf [.opt Gen.PluginGroupFns.LETSEP, Gen.PluginGroupFns.ALNUM])])] ++
       ([.atom (.chr '_'), .atom (.chr '_')] ++
        [.plus Gen.PluginGroupFns.DIGIT, .atom (.chr '.'), .plus Gen.PluginGroupFns.DIGIT, .atom (.chr '.'),
         .plus Gen.PluginGroupFns.DIGIT])) := rfl
  have hq : ∀ x, (Re.seqOf [Gen.PluginGroupFns.LETTER, Gen.PluginGroupFns.ALNUM,
        .star (Re.seqOf [.opt Gen.PluginGroupFns.LETSEP, Gen.PluginGroupFns.ALNUM]),
        .star (Re.seqOf [Gen.PluginGroupFns.NSSEP, Gen.PluginGroupFns.LETTER, Gen.PluginGroupFns.ALNUM,
        .star (Re.seqOf [.opt Gen.PluginGroupFns.LETSEP, Gen.PluginGroupFns.ALNUM])])]).Matches x ↔
        isQualName x = true := matches_QUAL_NAME
  have hv : ∀ x, (Re.seqOf [.plus Gen.PluginGroupFns.DIGIT, .atom (.chr '.'), .plus Gen.PluginGroupFns.DIGIT,
        .atom (.chr '.'), .plus Gen.PluginGroupFns.DIGIT]).Matches x ↔ isSemVer x = true := by
    intro x; rw [isSemVer_iff]; exact matches_SEMVER x
  have hu : ∀ x, (Re.seqOf [.atom (.chr '_'), .atom (.chr '_')]).Matches x ↔ x = ['_', '_'] := by
    intro x
    simp only [matches_seqOf_cons, seqOf_single, Re.Matches.eq_3, Atom.ok, beq_iff_eq]
    constructor
    · rintro ⟨_, _, rfl, ⟨c, rfl, rfl⟩, d, rfl, rfl⟩; rfl
    · rintro rfl; exact ⟨['_'], ['_'], rfl, ⟨'_', rfl, rfl⟩, '_', rfl, rfl⟩
  rw [he, matches_seqOf_append _ _ (by simp) (by simp), isEpName_iff]
  simp only [matches_seqOf_append _ _ (List.cons_ne_nil _ _) (List.cons_ne_nil _ _), hq, hv, hu]
  constructor
  · rintro ⟨n, _, rfl, hn, _, v, rfl, rfl, hv⟩
    exact ⟨n, v, by simp, hn, hv⟩
  · rintro ⟨n, v, rfl, hn, hv⟩
    exact ⟨n, _, rfl, hn, _, v, rfl, rfl, hv⟩

/-- `EPName(s)` succeeds exactly on the strings the model calls entry point names -/
theorem gen_EP_NAME_REGEX (s : Str) : Gen.PluginGroupFns.EPName_pattern.test s = isEpName s := by
  rw [Bool.eq_iff_iff, Re.test_iff]
  exact matches_EP_NAME_REGEX s

theorem gen_NAME (s : Str) : Gen.PluginGroupFns.NAME.test s = isName s := by
  rw [Bool.eq_iff_iff, Re.test_iff]; exact matches_NAME s

theorem gen_QUAL_NAME (s : Str) : Gen.PluginGroupFns.QUAL_NAME.test s = isQualName s := by
  rw [Bool.eq_iff_iff, Re.test_iff]; exact matches_QUAL_NAME s

end MetadorModel.Bridge.PluginGroupFns
