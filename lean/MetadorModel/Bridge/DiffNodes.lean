import MetadorModel.Gen.Diff
import MetadorModel.Bridge.DiffBase
/-! Bridge (C18): the generated `DiffNode.nodes` lists, for a node whose three dicts are in *any*
insertion order, the records the model's `nodes` lists for the node with ascending buckets
(`canon`); for the nodes built by `compare` that is the node itself (`Bridge/Diff.lean`). -/
set_option linter.unusedSimpArgs false
namespace MetadorModel.Bridge.Diff
open MetadorModel MetadorModel.Diff MetadorModel.DiffPy

/-- `DiffNode.nodes()` on a node whose buckets are in *any* insertion order lists the records the
model lists for the node with ascending buckets. (Without the `sorted(...)` in the source this
is false.) -/
theorem gen_nodes : ∀ (fuel : Nat) (d : DNode), ndepth d < fuel →
    ∃ l, Gen.Diff.nodes fuel d = .ok l ∧ l.map DNode.rec' = Diff.nodes (canon d) := by
  intro fuel
  induction fuel with
  | zero => intro _ h; omega
  | succ fuel IH =>
    intro d hd
    obtain ⟨p, pv, cv, rm, md, ad⟩ := d
    simp only [ndepth] at hd
    -- the listing of a child, as a function
    let lst : DNode → List DNode := fun v =>
      match Gen.Diff.nodes fuel v with
      | .ok l => l
      | .error _ => []
    have hl : ∀ (b : List DNode), ndepthL b < fuel → ∀ v ∈ sortedByPath b,
        Gen.Diff.nodes fuel v = .ok (lst v) ∧ (lst v).map DNode.rec' = nodes (canon v) := by
      intro b hdb v hv
      have hv' := (mem_sortedByPath v b).mp hv
      obtain ⟨t, h1, h2⟩ := IH v (by have := ndepth_mem hv'; omega)
      have : lst v = t := by simp only [lst, h1]
      rw [this]; exact ⟨h1, h2⟩
    have hb : ∀ (b : List DNode), ndepthL b < fuel → ∀ (ret : List DNode)
        (f : List DNode → DNode → M (List DNode)),
        (∀ ret v, f ret v = Gen.Diff.nodes fuel v >>= fun t => .ok (ret ++ t)) →
        (sortedByPath b).foldlM f ret = .ok (ret ++ (sortedByPath b).flatMap lst) := by
      intro b hdb ret f hf
      apply loop_extend
      intro ret v hv
      rw [hf, (hl b hdb v hv).1]
      rfl
    have hr : ∀ (b : List DNode), ndepthL b < fuel →
        ((sortedByPath b).flatMap lst).map DNode.rec' = (sortedByPath b).flatMap (fun v => nodes (canon v)) := by
      intro b hdb
      rw [List.map_flatMap]
      apply List.flatMap_congr
      intro v hv
      exact (hl b hdb v hv).2
    rw [Gen.Diff.nodes, nodes_canon]
    simp only [List.foldlM_cons, List.foldlM_nil, values, DNode.removed, DNode.modified, DNode.added,
      pure_eq_ok, ok_bind, bind_pure]
    rw [hb rm (by omega) _ _ (fun _ _ => by simp)]
    simp only [ok_bind]
    rw [hb md (by omega) _ _ (fun _ _ => by simp)]
    simp only [ok_bind]
    rw [hb ad (by omega) _ _ (fun _ _ => by simp)]
    refine ⟨_, rfl, ?_⟩
    simp only [List.map_append, List.nil_append, List.map_cons, List.map_nil, hr rm (by omega),
      hr md (by omega), hr ad (by omega), List.append_assoc, List.cons_append]
    simp [DNode.rec', DNode.path, DNode.prev, DNode.curr]

end MetadorModel.Bridge.Diff
