import MetadorModel.Bridge.PluginGroupFnsRe
/-!
Bridge, part 2 (C16): the entry point name functions of `plugin/types.py` as translated on every run
(`Gen/PluginGroupFns.lean`) are the model's `semverStr`, `parseSemVer`, `toEpName` (+ the `EPName`
check `isEpName`), `fromEpName`, `hasNamespace`. The outcome `unmodelled` of the dictionary (an `int()`
of something that is not a digit string, a version tuple that is not a triple) is never reached.
-/
namespace MetadorModel.Bridge.PluginGroupFns
open MetadorModel MetadorModel.Plugin MetadorModel.PluginPy

theorem gen_to_semver_str (v : Ver) : Gen.PluginGroupFns.to_semver_str v = semverStr v := by
  simp [Gen.PluginGroupFns.to_semver_str, semverStr, pyVerIter, pyJoin, pyStrNat_eq]

theorem pyMapM_pyInt_digits (l : List Str) (h : ∀ x ∈ l, isDigits x = true) :
    pyMapM pyInt l = .ok (l.map digitsToNat) := by
  induction l with
  | nil => rfl
  | cons a l ih =>
    have ha := h a (List.mem_cons_self)
    simp [pyMapM, pyInt_eq, ha, ih (fun x hx => h x (List.mem_cons_of_mem _ hx))]

/-- `from_semver_str` on a string that `SemVerStr` accepts (its parameter type): the model's parse;
in particular `int` is only applied to digit strings and the tuple has three components -/
theorem gen_from_semver_str (s : Str) (h : isSemVer s = true) :
    ∃ v, Gen.PluginGroupFns.from_semver_str s = .ok v ∧ parseSemVer s = some v := by
  simp only [Gen.PluginGroupFns.from_semver_str, pySplit_dot, parseSemVer, h, if_true]
  simp only [isSemVer] at h
  match hs : splitChar '.' s, h with
  | [a, b, c], h =>
    simp only [Bool.and_eq_true] at h
    rw [pyMapM_pyInt_digits _ (by simp [h.1.1, h.1.2, h.2])]
    exact ⟨_, rfl, rfl⟩

theorem parseSemVer_isSome (s : Str) : (parseSemVer s).isSome = isSemVer s := by
  unfold parseSemVer isSemVer
  generalize splitChar '.' s = l
  rcases l with _ | ⟨a, _ | ⟨b, _ | ⟨c, _ | ⟨d, l⟩⟩⟩⟩ <;> simp
  split_ifs <;> simp_all

theorem gen_to_ep_name (n : Str) (v : Ver) : Gen.PluginGroupFns.to_ep_name n v =
    if isEpName (toEpName n v) then .ok (toEpName n v) else .error .typeError := by
  have h1 : n ++ Gen.PluginGroupFns.EP_NAME_VER_SEP ++ Gen.PluginGroupFns.to_semver_str v = toEpName n v := by
    simp [Gen.PluginGroupFns.EP_NAME_VER_SEP, gen_to_semver_str, toEpName]
  simp only [Gen.PluginGroupFns.to_ep_name, pyFullMatch, gen_EP_NAME_REGEX, h1]

/-- `from_ep_name`: `ValueError` unless there is exactly one `__`, `TypeError` (from `SemVerStr`)
unless what follows it is a semantic version string, else the model's result -/
theorem gen_from_ep_name (e : Str) : Gen.PluginGroupFns.from_ep_name e =
    match splitUU e [] with
    | [n, v] => (match parseSemVer v with
                 | some x => .ok (n, x)
                 | none => .error .typeError)
    | _ => .error .valueError := by
  simp only [Gen.PluginGroupFns.from_ep_name, Gen.PluginGroupFns.EP_NAME_VER_SEP, pySplit_uu]
  generalize splitUU e [] = l
  rcases l with _ | ⟨n, _ | ⟨v, _ | ⟨d, l⟩⟩⟩ <;> try rfl
  simp only [pyFullMatch, gen_SEMVER_STR_REGEX]
  by_cases hv : isSemVer v = true
  · obtain ⟨x, hx, hp⟩ := gen_from_semver_str v hv
    simp [hv, hx, hp]
  · have : parseSemVer v = none := by
      have := parseSemVer_isSome v
      simp only [hv] at this
      simpa using this
    simp [hv, this]

theorem gen_from_ep_name_model (e : Str) :
    (Gen.PluginGroupFns.from_ep_name e).toOption = fromEpName e := by
  rw [gen_from_ep_name, fromEpName]
  generalize splitUU e [] = l
  rcases l with _ | ⟨n, _ | ⟨v, _ | ⟨d, l⟩⟩⟩ <;> try rfl
  cases h : parseSemVer v <;> simp [Except.toOption, h]

/-- after `EPName(..)` has accepted a string, `from_ep_name` cannot fail on it -/
theorem fromEpName_of_isEpName (e : Str) (h : isEpName e = true) :
    ∃ n vs v, splitUU e [] = [n, vs] ∧ parseSemVer vs = some v ∧ fromEpName e = some (n, v) ∧
      isQualName n = true := by
  simp only [isEpName] at h
  simp only [fromEpName]
  generalize splitUU e [] = l at h
  rcases l with _ | ⟨n, _ | ⟨v, _ | ⟨d, l⟩⟩⟩ <;> simp at h
  have := parseSemVer_isSome v
  rw [h.2] at this
  obtain ⟨x, hx⟩ := Option.isSome_iff_exists.mp this
  exact ⟨n, v, x, rfl, hx, by simp [hx], h.1⟩

theorem pySplitGo_zero (d : Char) (s cur : Str) : pySplitGo [d] (some 0) 0 s cur = [cur.reverse ++ s] := by
  induction s generalizing cur with
  | nil => simp [pySplitGo]
  | cons c s ih => simp [pySplitGo, ih]

theorem pySplitMax_one (d : Char) (s cur : Str) :
    decide ((pySplitGo [d] (some 1) 0 s cur).length > 1) = s.contains d := by
  induction s generalizing cur with
  | nil => simp [pySplitGo]
  | cons c s ih =>
    simp only [pySplitGo, pyStartswith, Bool.and_true]
    by_cases h : c = d
    · subst h; simp [pySplitGo_zero]
    · have h' : (c == d) = false := by simpa using h
      have h'' : ¬ d = c := fun hh => h hh.symm
      simp [h', ih, h'']

theorem gen_ep_name_has_namespace (e : Str) : Gen.PluginGroupFns.ep_name_has_namespace e =
    match Gen.PluginGroupFns.from_ep_name e with
    | .ok p => .ok (hasNamespace p.1)
    | .error x => .error x := by
  simp only [Gen.PluginGroupFns.ep_name_has_namespace, pySplitMax, hasNamespace]
  cases Gen.PluginGroupFns.from_ep_name e <;> simp [pySplitMax_one]

end MetadorModel.Bridge.PluginGroupFns
