import MetadorModel.Py.RecordPy
import MetadorModel.Proofs.FindFiles
/-!
Lemmas about the Python value dictionary `Py/RecordPy.lean` only (nothing generated is imported
here): what the generic regular expression / glob / `split` / `str(int)` / index operations compute
on the shapes that occur in `ih5/record.py`, and what the constructor combinators (`pyStep`,
`pyCtor`, `pyOpen`, `pyCreate`, `pyCreatePatch`) amount to in terms of the record model. Used by the
bridge modules `Bridge/FindFilesFns*.lean`.
-/
namespace MetadorModel.Bridge.FindFilesFns
open MetadorModel MetadorModel.FindFiles MetadorModel.Record MetadorModel.RecordPy

/-! ## dictionary lemmas -/

theorem pyStartswith_eq : ∀ (s p : Str), pyStartswith s p = startsWith s p
  | _, [] => by simp [pyStartswith, startsWith]
  | [], _ :: _ => by simp [pyStartswith, startsWith]
  | c :: s, d :: p => by simp [pyStartswith, startsWith, pyStartswith_eq s p]

theorem char_eq_iff_toNat (c d : Char) : c = d ↔ c.toNat = d.toNat := by
  constructor
  · rintro rfl; rfl
  · intro h
    apply Char.ext
    apply UInt32.toNat_inj.mp
    exact h

/-- the character class `[A-Za-z0-9\-]` as parsed by `re` -/
def nameClass : List ClassItem := [.range 'A' 'Z', .range 'a' 'z', .range '0' '9', .chr '-']

theorem nameClass_ok (c : Char) : (Atom.cls false nameClass).ok c = isNameChar c := by
  have h45 : (c == '-') = (c.toNat == 45) := by
    rw [Bool.eq_iff_iff]; simp only [beq_iff_eq]
    exact char_eq_iff_toNat c '-'
  simp [Atom.ok, nameClass, ClassItem.ok, isNameChar, h45, Bool.or_assoc]

theorem nameClass_neg_ok (c : Char) : (Atom.cls true nameClass).ok c = !isNameChar c := by
  rw [← nameClass_ok]
  simp [Atom.ok]

/-- pasted literal text: a prefix test, then the rest of the pattern on the rest of the text -/
theorem matchItems_interp (r : List Item) : ∀ (n : Str) (st : Bool) (f : Str),
    matchItems (pyReInterp n ++ r) st f =
      (startsWith f n && matchItems r (st && n.isEmpty) (f.drop n.length))
  | [], st, f => by simp [pyReInterp, startsWith]
  | d :: n, st, [] => by simp [pyReInterp, matchItems, startsWith]
  | d :: n, st, c :: f => by
    have ih := matchItems_interp r n false f
    simp only [pyReInterp] at ih
    simp [pyReInterp, matchItems, startsWith, Atom.ok, ih, Bool.and_assoc]

theorem matchItems_interp_eosZ : ∀ (e : Str) (st : Bool) (s : Str),
    matchItems (pyReInterp e ++ [.eosZ]) st s = (s == e)
  | [], st, s => by cases s <;> simp [pyReInterp, matchItems]
  | d :: e, st, [] => by simp [pyReInterp, matchItems]
  | d :: e, st, c :: s => by
    have ih := matchItems_interp_eosZ e false s
    simp only [pyReInterp] at ih
    simp [pyReInterp, matchItems, Atom.ok, ih]

theorem starK_any_suffix (e : Str) : ∀ (st : Bool) (s : Str),
    starK .any (matchItems (pyReInterp e ++ [.eosZ])) st s = endsWith s e
  | st, [] => by
    rw [starK, matchItems_interp_eosZ, Bool.eq_iff_iff, endsWith_iff]
    simp only [beq_iff_eq]
    constructor
    · intro h; exact ⟨[], by simp [← h]⟩
    · rintro ⟨t, h⟩
      have := congrArg List.length h
      simp at this
      exact (List.eq_nil_of_length_eq_zero (by omega)).symm
  | st, c :: s => by
    rw [starK, matchItems_interp_eosZ, starK_any_suffix e false s, Bool.eq_iff_iff]
    simp only [Atom.ok, Bool.true_and, Bool.or_eq_true, beq_iff_eq, endsWith_iff]
    constructor
    · rintro (h | ⟨t, h⟩)
      · exact ⟨[], by simp [h]⟩
      · exact ⟨c :: t, by simp [h]⟩
    · rintro ⟨t, h⟩
      cases t with
      | nil => left; simpa using h
      | cons x t =>
        right
        simp only [List.cons_append, List.cons.injEq] at h
        exact ⟨t, h.2⟩

theorem globToRe_interp (g : List GItem) : ∀ (n : Str),
    globToRe (pyGlobInterp n ++ g) = pyReInterp n ++ globToRe g
  | [] => rfl
  | c :: n => by
    have ih := globToRe_interp g n
    simp only [pyGlobInterp, pyReInterp] at ih
    simp [pyGlobInterp, pyReInterp, globToRe, ih]

/-- `fnmatch` of `<n>*<e>` -/
theorem glob_prefix_star_suffix (n e f : Str) :
    pyReMatch (globToRe (pyGlobInterp n ++ .star :: pyGlobInterp e)) f =
      (startsWith f n && endsWith (f.drop n.length) e) := by
  have h2 : globToRe (.star :: pyGlobInterp e) = .star .any :: (pyReInterp e ++ [.eosZ]) := by
    have := globToRe_interp [] e
    simp only [List.append_nil] at this
    simp [globToRe, this]
  rw [pyReMatch, globToRe_interp, h2, matchItems_interp]
  simp only [matchItems]
  rw [starK_any_suffix]

/-- `^<n>[^class]` -/
theorem re_prefix_then_atom (n f : Str) (a : Atom) :
    pyReMatch ([.bos] ++ pyReInterp n ++ [.atom a]) f =
      (startsWith f n &&
        (match f.drop n.length with
         | c :: _ => a.ok c
         | [] => false)) := by
  have := matchItems_interp [.atom a] n true f
  rw [pyReMatch]
  change (true && matchItems (pyReInterp n ++ [.atom a]) true f) = _
  rw [Bool.true_and, this]
  congr 1
  cases f.drop n.length <;> first | rfl | simp [matchItems]

/-- `[class]+$` on what follows the first character -/
theorem starK_class_eos (a : Atom) (nc : Char → Bool) (ha : ∀ c, a.ok c = nc c) (hnl : nc '\n' = false) :
    ∀ (st : Bool) (s : Str),
      starK a (matchItems [.eos]) st s = true ↔
        ((∀ c ∈ s, nc c = true) ∨ ∃ init, s = init ++ ['\n'] ∧ ∀ c ∈ init, nc c = true)
  | st, [] => by simp [starK, matchItems]
  | st, c :: s => by
    rw [starK, Bool.or_eq_true, Bool.and_eq_true, starK_class_eos a nc ha hnl false s, ha]
    simp only [matchItems, Bool.and_true, Bool.or_eq_true, beq_iff_eq, reduceCtorEq, false_or,
      List.cons.injEq, List.mem_cons, forall_eq_or_imp]
    constructor
    · rintro (⟨rfl, rfl⟩ | ⟨hc, h | ⟨init, rfl, hi⟩⟩)
      · exact Or.inr ⟨[], rfl, by simp⟩
      · exact Or.inl ⟨hc, h⟩
      · exact Or.inr ⟨c :: init, rfl, by simpa [hc] using hi⟩
    · rintro (⟨hc, h⟩ | ⟨init, h, hi⟩)
      · exact Or.inr ⟨hc, Or.inl h⟩
      · cases init with
        | nil =>
          simp only [List.nil_append, List.cons.injEq] at h
          exact Or.inl h
        | cons d init =>
          simp only [List.cons_append, List.cons.injEq] at h
          obtain ⟨rfl, rfl⟩ := h
          exact Or.inr ⟨hi c (by simp), Or.inr ⟨init, rfl, fun x hx => hi x (by simp [hx])⟩⟩

theorem pyHead_splitGo (sep : Str) : ∀ (s cur : Str),
    pyHead (pySplitGo sep 0 s cur) = cur.reverse ++ splitFirst sep s
  | [], cur => by simp [pySplitGo, pyHead, splitFirst]
  | c :: r, cur => by
    rw [pySplitGo, splitFirst, pyStartswith_eq]
    split
    · simp [pyHead]
    · rw [pyHead_splitGo sep r (c :: cur)]; simp

/-- `s.split(sep)[0]` -/
theorem pyHead_pySplit (s sep : Str) : pyHead (pySplit s sep) = splitFirst sep s := by
  simp [pySplit, pyHead_splitGo]

theorem digitChar_eq (d : Nat) (h : d < 10) : Nat.digitChar d = digitChar d := by
  have : d = 0 ∨ d = 1 ∨ d = 2 ∨ d = 3 ∨ d = 4 ∨ d = 5 ∨ d = 6 ∨ d = 7 ∨ d = 8 ∨ d = 9 := by omega
  rcases this with rfl | rfl | rfl | rfl | rfl | rfl | rfl | rfl | rfl | rfl <;> rfl

theorem toDigitsCore_eq : ∀ (fuel n : Nat) (acc : List Char),
    Nat.toDigitsCore 10 (fuel + 1) n acc = decimalAux (fuel + 1) n acc
  | 0, n, acc => by
    simp only [Nat.toDigitsCore, decimalAux]
    by_cases h : n < 10
    · have h0 : n / 10 = 0 := by omega
      have h1 : n % 10 = n := by omega
      simp [h, h0, h1, digitChar_eq n h]
    · have h0 : n / 10 ≠ 0 := by omega
      simp [h, h0, digitChar_eq (n % 10) (by omega)]
  | fuel + 1, n, acc => by
    rw [Nat.toDigitsCore, decimalAux]
    by_cases h : n < 10
    · have h0 : n / 10 = 0 := by omega
      have h1 : n % 10 = n := by omega
      simp [h, h0, h1, digitChar_eq n h]
    · have h0 : n / 10 ≠ 0 := by omega
      simp only [h, h0, if_false]
      rw [toDigitsCore_eq fuel, digitChar_eq (n % 10) (by omega)]

/-- `str(n)` -/
theorem pyStrNat_eq (n : Nat) : pyStrNat n = decimal n := by
  simp [pyStrNat, Nat.toDigits, decimal, toDigitsCore_eq]

theorem pyIdx_zero {α : Type} (l : List α) :
    pyIdx l 0 = match l with | [] => .error .indexError | x :: _ => .ok x := by
  cases l <;> simp [pyIdx]

theorem lastFile_eq_getLast? : ∀ (l : List (Name × UB)), lastFile l = l.getLast?
  | [] => rfl
  | [_] => rfl
  | _ :: y :: r => by rw [lastFile, lastFile_eq_getLast? (y :: r)]; simp [List.getLast?_cons_cons]

theorem pyIdx_last (l : List (Name × UB)) :
    pyIdx l (-1) = match lastFile l with | none => .error .indexError | some x => .ok x := by
  rw [lastFile_eq_getLast?]
  cases l with
  | nil => simp [pyIdx]
  | cons a r =>
    have h1 : ((-1 : Int) + ((a :: r).length : Int)) = (r.length : Int) := by
      simp only [List.length_cons]; omega
    have h2 : ¬ ((r.length : Int) < 0) := by omega
    simp only [pyIdx, h1, h2, if_false, Int.toNat_natCast, show ((-1 : Int) < 0) from by decide, if_true]
    rw [List.getLast?_eq_getElem?]
    simp

/-! ## the constructor combinators -/

theorem loadAll_err (d : Disk) : ∀ (l : List Name) (e : Out), loadAll d l = .error e → e ≠ .ok
  | [], e, h => by simp [loadAll] at h
  | f :: r, e, h => by
    unfold loadAll at h
    split at h
    · cases h; decide
    · cases h; decide
    · split at h
      · rename_i e' he
        cases h
        exact loadAll_err d r _ he
      · cases h

theorem openFiles_err (d : Disk) (paths : List Name) (rw : Bool) (e : Out)
    (h : openFiles d paths rw = .error e) : e ≠ .ok := by
  unfold openFiles at h
  split at h
  · cases h; decide
  · split at h
    · rename_i e' he
      cases h
      exact loadAll_err d paths _ he
    · split at h
      · cases h; decide
      · repeat' split at h
        all_goals first | (cases h; decide) | cases h

theorem openFiles_nonempty (d : Disk) (paths : List Name) (rw : Bool) (files : List (Name × UB))
    (l : Bool) (h : openFiles d paths rw = .ok (files, l)) : files ≠ [] := by
  unfold openFiles at h
  repeat' split at h
  all_goals first | (cases h; simp) | cases h

theorem loadManifest_err (d : Disk) (files : List (Name × UB)) (e : Out)
    (h : loadManifest d files = .error e) : e ≠ .ok := by
  unfold loadManifest at h
  repeat' split at h
  all_goals first | (cases h; decide) | cases h

/-- a failing `create_patch` leaves disk and handle alone and reports no touched files -/
theorem createPatch_fail (s : State) (h : (createPatch s).out ≠ .ok) :
    (createPatch s).st.disk = s.disk ∧ (createPatch s).st.h = s.h ∧ (createPatch s).created = [] ∧
      (createPatch s).removed = [] ∧ (createPatch s).written = [] := by
  revert h
  unfold createPatch
  simp only []
  repeat' split
  all_goals simp [fail]

/-- the first effectful step of a constructor -/
theorem pyStep_start (s : State) (op : State → Res) (k : Res → Res) :
    pyStep (pyStart s) op k = (match (op s).out with | .ok => k (op s) | _ => op s) := by
  unfold pyStep pyStart
  generalize op s = r
  rcases r with ⟨st, out, c, rm, w⟩
  simp only [List.nil_append]
  cases out <;> rfl

/-- a last step after steps that touched nothing -/
theorem pyStep_last (s' : State) (op : State → Res) :
    pyStep { st := s', out := .ok } op (fun r => r) = op s' := by
  unfold pyStep
  simp only [List.nil_append]
  split <;> rfl

/-- what `__init__` does after the paths are known (second half of the `a`/`r*` branch) -/
def openTail (w : Bool) (r1 : Res) : Res :=
  let r2 := pySetAllow r1 w
  if (w && !(pyHasWritable r2)) then pyStep r2 pyCreatePatch fun r3 => r3 else r2

theorem open_chain (s : State) (mfcls : Bool) (paths : List Name) (m : Mode) :
    pyCtor s (pyStep (pyStart s) (pyOpen mfcls (some paths) (m != .r)) (openTail (m != .r))) =
      openExisting s mfcls paths m := by
  rw [pyStep_start]
  unfold openExisting
  dsimp only
  generalize (m != Mode.r) = w
  cases ho : openFiles s.disk paths w with
  | error e =>
    have hop : pyOpen mfcls (some paths) w s = fail s e := by simp [pyOpen, ho]
    have := openFiles_err _ _ _ _ ho
    rw [hop]
    cases e <;> simp_all [pyCtor, fail]
  | ok fl =>
    obtain ⟨files, lastRW⟩ := fl
    have hne := openFiles_nonempty _ _ _ _ _ ho
    have hfe : files.isEmpty = false := by cases files <;> simp_all
    dsimp only
    cases hm : (if mfcls then loadManifest s.disk files else .ok none) with
    | error e =>
      have hop : pyOpen mfcls (some paths) w s = fail s e := by
        simp only [pyOpen, Option.getD_some, ho, hm]
      have : e ≠ .ok := by
        cases mfcls
        · simp at hm
        · exact loadManifest_err _ _ _ (by simpa using hm)
      rw [hop]
      cases e <;> simp_all [pyCtor, fail]
    | ok man =>
      have hop : pyOpen mfcls (some paths) w s = openedRes s mfcls files lastRW man := by
        simp only [pyOpen, Option.getD_some, ho, hm]
      rw [hop]
      simp only [openedRes, openTail, pySetAllow, pyHasWritable, hasWritable, hfe, Bool.not_false,
        Bool.true_and]
      cases w <;> cases lastRW
      · simp [pyCtor]
      · simp [pyCtor]; rfl
      · -- writable wanted, newest container committed → `create_patch`
        simp only [Bool.true_and, Bool.not_false, if_true, Bool.false_eq_true, if_false]
        rw [pyStep_last]
        unfold pyCreatePatch
        generalize hs' : ({ disk := s.disk, h := _, next := s.next } : State) = s'
        have hd : s'.disk = s.disk := by rw [← hs']
        by_cases hok : (createPatch s').out = .ok
        · simp [hok, pyCtor]
        · obtain ⟨h1, h2, h3, h4, h5⟩ := createPatch_fail s' hok
          rcases hcp : createPatch s' with ⟨st, out, c, r, w⟩
          rw [hcp] at h1 h2 h3 h4 h5 hok
          cases out <;> simp_all [pyCtor, fail]
      · simp [pyCtor]; rfl

/-- `open_chain` for a tail given as any function that agrees with `openTail` -/
theorem open_chain' (s : State) (mfcls : Bool) (paths : List Name) (m : Mode) (w : Bool)
    (k : Res → Res) (hk : ∀ r1, k r1 = openTail w r1) (hw : w = (m != .r)) :
    pyCtor s (pyStep { st := s, out := .ok } (pyOpen mfcls (some paths) w) k) =
      openExisting s mfcls paths m := by
  have hk' : k = openTail w := funext hk
  subst hk' hw
  exact open_chain s mfcls paths m

/-- a constructor that consists of one model operation which, when it fails, leaves the handle alone -/
theorem pyCtor_single (s : State) (op : State → Res)
    (hh : (op s).out ≠ .ok → (op s).st.h = s.h) :
    pyCtor s (pyStep (pyStart s) op fun r => r) = op s := by
  rw [pyStep_start]
  rcases hop : op s with ⟨st, out, c, rm, w⟩
  rw [hop] at hh
  rcases st with ⟨d, h, nx⟩
  cases out <;> simp_all [pyCtor]

theorem create_chain (s : State) (mfcls : Bool) (n : Name) (t : Bool) :
    pyCtor s (pyStep (pyStart s) (pyCreate mfcls n t) fun r => r) = createRec s mfcls n t [] := by
  apply pyCtor_single
  unfold pyCreate createRec
  dsimp only
  split
  · simp [fail]
  · cases newContainer _ _ _ _ <;> simp


end MetadorModel.Bridge.FindFilesFns
