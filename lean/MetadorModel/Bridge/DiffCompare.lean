import MetadorModel.Gen.Diff
import MetadorModel.Bridge.DiffBase
/-! Bridge (C18): the generated `DiffNode.compare` equals the model's `compareAt` (`addT`/`remT`/`cmpT`) on
well-formed entries (key-sorted directories = Python dicts) whenever the recursion limit exceeds the
nesting depth. -/
set_option linter.unusedSimpArgs false
namespace MetadorModel.Bridge.Diff
open MetadorModel MetadorModel.Diff MetadorModel.DiffPy

theorem gen_compare : ∀ (fuel : Nat) (prev curr : Option DirTree) (path : Path),
    wfO prev → wfO curr → max (depthO prev) (depthO curr) < fuel →
    Gen.Diff.compare fuel prev curr path = .ok (compareAt path prev curr) := by
  intro fuel
  induction fuel with
  | zero => intro _ _ _ _ _ h; omega
  | succ fuel IH =>
    intro prev curr path hp hc hd
    rw [Gen.Diff.compare]
    rcases prev with _ | ⟨s⟩ | ⟨es⟩ <;> rcases curr with _ | ⟨s'⟩ | ⟨fs⟩
    · simp [isDict, pyEq, compareAt]
    · simp [isDict, pyEq, compareAt, addT, mkNode]
    · -- None -> dir
      have hw := (wf_dir fs).mp hc
      simp only [isDict, isStr, items, mkNode, Option.isNone_none, Bool.not_false, Bool.not_true, Bool.and_false,
        Bool.false_eq_true, if_false, Bool.or_false, Bool.and_self, if_true, pure_eq_ok, ok_bind]
      rw [loop_added_items hw.1]
      · simp [compareAt, addT]
      · intro ad k t hm
        have h1 := IH none (some t) (path ++ [k]) trivial (wfEs_mem hw.2 hm)
          (by have := depth_mem hm; simp only [depthO, depthT] at hd ⊢; omega)
        simp [pathJoin, DNode.path, h1, compareAt]
    · -- file -> None
      simp [isDict, pyEq, compareAt, remT, mkNode]
    · -- file -> file
      simp only [isDict, Bool.not_false, Bool.and_self, if_true, pyEq_file, compareAt, cmpT, mkNode, pure_eq_ok]
      by_cases h : s = s' <;> simp [h]
    · -- file -> dir
      have hw := (wf_dir fs).mp hc
      simp only [isDict, isStr, items, mkNode, Option.isNone_some, Bool.not_false, Bool.not_true, Bool.and_false,
        Bool.false_eq_true, if_false, Bool.false_or, Bool.and_self, if_true, pure_eq_ok, ok_bind]
      rw [loop_added_items hw.1]
      · simp [compareAt, cmpT]
      · intro ad k t hm
        have h1 := IH none (some t) (path ++ [k]) trivial (wfEs_mem hw.2 hm)
          (by have := depth_mem hm; simp only [depthO, depthT] at hd ⊢; omega)
        simp [pathJoin, DNode.path, h1, compareAt]
    · -- dir -> None
      have hw := (wf_dir es).mp hp
      simp only [isDict, isStr, items, mkNode, Option.isNone_some, Option.isNone_none, Bool.not_false, Bool.not_true,
        Bool.and_false, Bool.false_and, Bool.and_true, Bool.true_and,
        Bool.false_eq_true, if_false, Bool.false_or, Bool.or_false, Bool.and_self, if_true, pure_eq_ok, ok_bind]
      rw [loop_removed_items hw.1]
      · simp [compareAt, remT]
      · intro rm k t hm
        have h1 := IH (some t) none (path ++ [k]) (wfEs_mem hw.2 hm) trivial
          (by have := depth_mem hm; simp only [depthO, depthT] at hd ⊢; omega)
        simp [pathJoin, DNode.path, h1, compareAt]
    · -- dir -> file
      have hw := (wf_dir es).mp hp
      simp only [isDict, isStr, items, mkNode, Option.isNone_some, Option.isNone_none, Bool.not_false, Bool.not_true,
        Bool.and_false, Bool.false_and, Bool.and_true, Bool.true_and,
        Bool.false_eq_true, if_false, Bool.false_or, Bool.or_false, Bool.and_self, if_true, pure_eq_ok, ok_bind]
      rw [loop_removed_items hw.1]
      · simp [compareAt, cmpT]
      · intro rm k t hm
        have h1 := IH (some t) none (path ++ [k]) (wfEs_mem hw.2 hm) trivial
          (by have := depth_mem hm; simp only [depthO, depthT] at hd ⊢; omega)
        simp [pathJoin, DNode.path, h1, compareAt]
    · -- dir -> dir
      have hwe := (wf_dir es).mp hp
      have hwf := (wf_dir fs).mp hc
      have hde : ∀ {k t}, AL.get es k = some t → depthT t < fuel := by
        intro k t h; have := depth_get h; simp only [depthO, depthT] at hd; omega
      have hdf : ∀ {k t}, AL.get fs k = some t → depthT t < fuel := by
        intro k t h; have := depth_get h; simp only [depthO, depthT] at hd; omega
      simp only [isDict, isStr, keys, mkNode, Option.isNone_some, Bool.not_false, Bool.not_true,
        Bool.and_false, Bool.false_and, Bool.and_true, Bool.true_and,
        Bool.false_eq_true, if_false, Bool.false_or, Bool.or_false, Bool.and_self, if_true, pure_eq_ok, ok_bind]
      -- the three loops, in whatever order the source has them
      iterate 3
        first
        | (rw [loop_added_keys hwe.1 hwf.1]
           on_goal 2 =>
             intro ad k u hgu
             have h1 := IH none (some u) (path ++ [k]) trivial (wfEs_get hwf.2 hgu)
               (by have := hdf hgu; simp only [depthO]; omega)
             simp [pathJoin, DNode.path, getItem, hgu, h1, compareAt]
           simp only [ok_bind])
        | (rw [loop_removed_keys hwe.1 hwf.1]
           on_goal 2 =>
             intro rm k t hgt
             have h1 := IH (some t) none (path ++ [k]) (wfEs_get hwe.2 hgt) trivial
               (by have := hde hgt; simp only [depthO]; omega)
             simp [pathJoin, DNode.path, getItem, hgt, h1, compareAt]
           simp only [ok_bind])
        | (rw [loop_modified_keys hwe.1 hwf.1]
           on_goal 2 =>
             intro md k t u hgt hgu
             have h1 := IH (some t) (some u) (path ++ [k]) (wfEs_get hwe.2 hgt) (wfEs_get hwf.2 hgu)
               (by have := hde hgt; have := hdf hgu; simp only [depthO]; omega)
             simp only [pathJoin, DNode.path, getItem, hgt, hgu, h1, compareAt, pure_eq_ok, ok_bind]
             cases cmpT (path ++ [k]) t u <;> simp
           simp only [ok_bind])
      simp only [compareAt, cmpT_dir_dir, DNode.added, DNode.removed, DNode.modified, Bool.not_not]
      cases (addSel path fs es).isEmpty <;> cases (remSel path es fs).isEmpty <;>
        cases (cmpEs path es fs).isEmpty <;> simp

/-- `DirDiff.compare(prev, curr)._diff_root` = `DiffNode.compare(prev, curr, Path(""))` -/
theorem gen_compare_top (fuel : Nat) (a b : DirTree) (ha : a.wf = true) (hb : b.wf = true)
    (hd : max (depthT a) (depthT b) < fuel) :
    Gen.Diff.compare fuel (some a) (some b) [] = .ok (Diff.compare a b) :=
  gen_compare fuel (some a) (some b) [] ha hb hd

end MetadorModel.Bridge.Diff
