import MetadorModel.Gen.Diff
import MetadorModel.Bridge.DiffBase
/-! Bridge (C18): the generated `DiffNode.compare` — for *every* order `ord` in which Python may
iterate over the key sets and over the items of the two snapshots (any permutation) — returns, on
well-formed entries (key-sorted directories = Python dicts) and whenever the recursion limit
exceeds the nesting depth, a node that is the model's `compareAt` (`addT`/`remT`/`cmpT`) once the
insertion order of its three dicts is forgotten (`canon`: buckets in ascending order of the paths,
which is the order `nodes()` lists them in and `get()` does not depend on). -/
set_option linter.unusedSimpArgs false
namespace MetadorModel.Bridge.Diff
open MetadorModel MetadorModel.Diff MetadorModel.DiffPy

theorem pyEq_file (s s' : String) : pyEq (some (.file s)) (some (.file s')) = decide (s = s') := by
  by_cases h : s = s' <;> simp [pyEq, treeEq, h]

theorem canon_leaf (p : Path) (pv cv : Option DirTree) : canon (.mk p pv cv [] [] []) = .mk p pv cv [] [] [] := by
  simp [canon, canonL, sortedByPath]

theorem gen_compare (ord : IterOrd) (hord : PermOrd ord) :
    ∀ (fuel : Nat) (prev curr : Option DirTree) (path : Path),
    wfO prev → wfO curr → max (depthO prev) (depthO curr) < fuel →
    ∃ r, Gen.Diff.compare ord fuel prev curr path = .ok r ∧ r.map canon = compareAt path prev curr := by
  intro fuel
  induction fuel with
  | zero => intro _ _ _ _ _ h; omega
  | succ fuel IH =>
    intro prev curr path hp hc hd
    -- the result of a recursive call, as a function
    let res : Option DirTree → Option DirTree → Path → Option DNode := fun pv cv p =>
      match Gen.Diff.compare ord fuel pv cv p with
      | .ok r => r
      | .error _ => none
    have hres : ∀ pv cv p, wfO pv → wfO cv → max (depthO pv) (depthO cv) < fuel →
        Gen.Diff.compare ord fuel pv cv p = .ok (res pv cv p) ∧ (res pv cv p).map canon = compareAt p pv cv := by
      intro pv cv p h1 h2 h3
      obtain ⟨r, hr, hr'⟩ := IH pv cv p h1 h2 h3
      have : res pv cv p = r := by simp only [res, hr]
      rw [this]; exact ⟨hr, hr'⟩
    rw [Gen.Diff.compare]
    rcases prev with _ | ⟨s⟩ | ⟨es⟩ <;> rcases curr with _ | ⟨s'⟩ | ⟨fs⟩
    · exact ⟨none, by simp [isDict, pyEq], by simp [compareAt]⟩
    · exact ⟨_, by simp [isDict, pyEq, mkNode]; rfl, by simp [compareAt, addT, canon_leaf]⟩
    · -- None -> dir
      have hw := (wf_dir fs).mp hc
      have hr : ∀ k t, (k, t) ∈ fs → Gen.Diff.compare ord fuel none (some t) (path ++ [k]) =
            .ok (res none (some t) (path ++ [k])) ∧
          (res none (some t) (path ++ [k])).map canon = some (addT (path ++ [k]) t) := by
        intro k t hm
        simpa [compareAt] using hres none (some t) (path ++ [k]) trivial (wfEs_mem hw.2 hm)
          (by have := depth_mem hm; simp only [depthO, depthT] at hd ⊢; omega)
      simp only [isDict, isStr, items, mkNode, Option.isNone_none, Bool.not_false, Bool.not_true, Bool.and_false,
        Bool.false_eq_true, if_false, Bool.or_false, Bool.and_self, if_true, pure_eq_ok, ok_bind]
      rw [loop_added_items hord hw.1 (fun k t => res none (some t) (path ++ [k])) (fun k t hm => (hr k t hm).2)]
      · refine ⟨_, rfl, ?_⟩
        simp only [Option.map_some, canon, canonL, sortedByPath,
          canon_added_items hord hw.1 _ (fun k t hm => (hr k t hm).2), compareAt, addT]
      · intro ad k t hm
        obtain ⟨d, hd'⟩ := Option.map_eq_some_iff.mp (hr k t hm).2
        simp [pathJoin, DNode.path, (hr k t hm).1, hd'.1]
    · -- file -> None
      exact ⟨_, by simp [isDict, pyEq, mkNode]; rfl, by simp [compareAt, remT, canon_leaf]⟩
    · -- file -> file
      simp only [isDict, Bool.not_false, Bool.and_self, if_true, pyEq_file, compareAt, cmpT, mkNode, pure_eq_ok]
      by_cases h : s = s'
      · exact ⟨none, by simp [h], by simp [h]⟩
      · exact ⟨_, by simp [h]; rfl, by simp [h, canon_leaf]⟩
    · -- file -> dir
      have hw := (wf_dir fs).mp hc
      have hr : ∀ k t, (k, t) ∈ fs → Gen.Diff.compare ord fuel none (some t) (path ++ [k]) =
            .ok (res none (some t) (path ++ [k])) ∧
          (res none (some t) (path ++ [k])).map canon = some (addT (path ++ [k]) t) := by
        intro k t hm
        simpa [compareAt] using hres none (some t) (path ++ [k]) trivial (wfEs_mem hw.2 hm)
          (by have := depth_mem hm; simp only [depthO, depthT] at hd ⊢; omega)
      simp only [isDict, isStr, items, mkNode, Option.isNone_some, Bool.not_false, Bool.not_true, Bool.and_false,
        Bool.false_eq_true, if_false, Bool.false_or, Bool.and_self, if_true, pure_eq_ok, ok_bind]
      rw [loop_added_items hord hw.1 (fun k t => res none (some t) (path ++ [k])) (fun k t hm => (hr k t hm).2)]
      · refine ⟨_, rfl, ?_⟩
        simp only [Option.map_some, canon, canonL, sortedByPath,
          canon_added_items hord hw.1 _ (fun k t hm => (hr k t hm).2), compareAt, cmpT]
      · intro ad k t hm
        obtain ⟨d, hd'⟩ := Option.map_eq_some_iff.mp (hr k t hm).2
        simp [pathJoin, DNode.path, (hr k t hm).1, hd'.1]
    · -- dir -> None
      have hw := (wf_dir es).mp hp
      have hr : ∀ k t, (k, t) ∈ es → Gen.Diff.compare ord fuel (some t) none (path ++ [k]) =
            .ok (res (some t) none (path ++ [k])) ∧
          (res (some t) none (path ++ [k])).map canon = some (remT (path ++ [k]) t) := by
        intro k t hm
        simpa [compareAt] using hres (some t) none (path ++ [k]) (wfEs_mem hw.2 hm) trivial
          (by have := depth_mem hm; simp only [depthO, depthT] at hd ⊢; omega)
      simp only [isDict, isStr, items, mkNode, Option.isNone_some, Option.isNone_none, Bool.not_false, Bool.not_true,
        Bool.and_false, Bool.false_and, Bool.and_true, Bool.true_and,
        Bool.false_eq_true, if_false, Bool.false_or, Bool.or_false, Bool.and_self, if_true, pure_eq_ok, ok_bind]
      rw [loop_removed_items hord hw.1 (fun k t => res (some t) none (path ++ [k])) (fun k t hm => (hr k t hm).2)]
      · refine ⟨_, rfl, ?_⟩
        simp only [Option.map_some, canon, canonL, sortedByPath,
          canon_removed_items hord hw.1 _ (fun k t hm => (hr k t hm).2), compareAt, remT]
      · intro rm k t hm
        obtain ⟨d, hd'⟩ := Option.map_eq_some_iff.mp (hr k t hm).2
        simp [pathJoin, DNode.path, (hr k t hm).1, hd'.1]
    · -- dir -> file
      have hw := (wf_dir es).mp hp
      have hr : ∀ k t, (k, t) ∈ es → Gen.Diff.compare ord fuel (some t) none (path ++ [k]) =
            .ok (res (some t) none (path ++ [k])) ∧
          (res (some t) none (path ++ [k])).map canon = some (remT (path ++ [k]) t) := by
        intro k t hm
        simpa [compareAt] using hres (some t) none (path ++ [k]) (wfEs_mem hw.2 hm) trivial
          (by have := depth_mem hm; simp only [depthO, depthT] at hd ⊢; omega)
      simp only [isDict, isStr, items, mkNode, Option.isNone_some, Option.isNone_none, Bool.not_false, Bool.not_true,
        Bool.and_false, Bool.false_and, Bool.and_true, Bool.true_and,
        Bool.false_eq_true, if_false, Bool.false_or, Bool.or_false, Bool.and_self, if_true, pure_eq_ok, ok_bind]
      rw [loop_removed_items hord hw.1 (fun k t => res (some t) none (path ++ [k])) (fun k t hm => (hr k t hm).2)]
      · refine ⟨_, rfl, ?_⟩
        simp only [Option.map_some, canon, canonL, sortedByPath,
          canon_removed_items hord hw.1 _ (fun k t hm => (hr k t hm).2), compareAt, cmpT]
      · intro rm k t hm
        obtain ⟨d, hd'⟩ := Option.map_eq_some_iff.mp (hr k t hm).2
        simp [pathJoin, DNode.path, (hr k t hm).1, hd'.1]
    · -- dir -> dir
      have hwe := (wf_dir es).mp hp
      have hwf := (wf_dir fs).mp hc
      have hde : ∀ {k t}, AL.get es k = some t → depthT t < fuel := by
        intro k t h; have := depth_get h; simp only [depthO, depthT] at hd; omega
      have hdf : ∀ {k t}, AL.get fs k = some t → depthT t < fuel := by
        intro k t h; have := depth_get h; simp only [depthO, depthT] at hd; omega
      -- the recursive calls of the three loops
      have hra : ∀ k u, AL.get fs k = some u → Gen.Diff.compare ord fuel none (some u) (path ++ [k]) =
            .ok (res none (some u) (path ++ [k])) ∧
          (res none (some u) (path ++ [k])).map canon = some (addT (path ++ [k]) u) := by
        intro k u hg
        simpa [compareAt] using hres none (some u) (path ++ [k]) trivial (wfEs_get hwf.2 hg)
          (by have := hdf hg; simp only [depthO]; omega)
      have hrr : ∀ k t, AL.get es k = some t → Gen.Diff.compare ord fuel (some t) none (path ++ [k]) =
            .ok (res (some t) none (path ++ [k])) ∧
          (res (some t) none (path ++ [k])).map canon = some (remT (path ++ [k]) t) := by
        intro k t hg
        simpa [compareAt] using hres (some t) none (path ++ [k]) (wfEs_get hwe.2 hg) trivial
          (by have := hde hg; simp only [depthO]; omega)
      have hrm : ∀ k t u, AL.get es k = some t → AL.get fs k = some u →
          Gen.Diff.compare ord fuel (some t) (some u) (path ++ [k]) =
            .ok (res (some t) (some u) (path ++ [k])) ∧
          (res (some t) (some u) (path ++ [k])).map canon = cmpT (path ++ [k]) t u := by
        intro k t u hgt hgu
        simpa [compareAt] using hres (some t) (some u) (path ++ [k]) (wfEs_get hwe.2 hgt) (wfEs_get hwf.2 hgu)
          (by have := hde hgt; have := hdf hgu; simp only [depthO]; omega)
      -- what the `modified` loop stores for the key of the entry (k, t) of prev
      let cm : String → DirTree → Option DNode := fun k t =>
        (AL.get fs k).bind (fun u => res (some t) (some u) (path ++ [k]))
      have hcm : ∀ k t, AL.get es k = some t → (cm k t).map canon = (AL.get fs k).bind (cmpT (path ++ [k]) t) := by
        intro k t hgt
        simp only [cm]
        cases hgu : AL.get fs k with
        | none => rfl
        | some u => simpa using (hrm k t u hgt hgu).2
      simp only [isDict, isStr, keys, mkNode, Option.isNone_some, Bool.not_false, Bool.not_true,
        Bool.and_false, Bool.false_and, Bool.and_true, Bool.true_and,
        Bool.false_eq_true, if_false, Bool.false_or, Bool.or_false, Bool.and_self, if_true, pure_eq_ok, ok_bind]
      -- the three loops, in whatever order the source has them
      iterate 3
        first
        | (rw [loop_added_keys hord hwe.1 hwf.1 (fun k u => res none (some u) (path ++ [k]))
             (fun k u hg => (hra k u hg).2)]
           on_goal 2 =>
             intro ad k u hgu
             obtain ⟨d, hd'⟩ := Option.map_eq_some_iff.mp (hra k u hgu).2
             simp [pathJoin, DNode.path, getItem, hgu, (hra k u hgu).1, hd'.1]
           simp only [ok_bind])
        | (rw [loop_removed_keys hord hwe.1 hwf.1 (fun k t => res (some t) none (path ++ [k]))
             (fun k t hg => (hrr k t hg).2)]
           on_goal 2 =>
             intro rm k t hgt
             obtain ⟨d, hd'⟩ := Option.map_eq_some_iff.mp (hrr k t hgt).2
             simp [pathJoin, DNode.path, getItem, hgt, (hrr k t hgt).1, hd'.1]
           simp only [ok_bind])
        | (rw [loop_modified_keys hord hwe.1 hwf.1 cm hcm]
           on_goal 2 =>
             intro md k t u hgt hgu
             simp only [pathJoin, DNode.path, getItem, hgt, hgu, (hrm k t u hgt hgu).1, pure_eq_ok, ok_bind,
               cm, Option.bind_some]
             cases res (some t) (some u) (path ++ [k]) <;> simp
           simp only [ok_bind])
      have h1 := canon_added_keys hord hwe.1 hwf.1 (path := path) _ (fun k u hg => (hra k u hg).2)
      have h2 := canon_removed_keys hord hwe.1 hwf.1 (path := path) _ (fun k t hg => (hrr k t hg).2)
      have h3 := canon_modified_keys hord hwe.1 hwf.1 (path := path) cm hcm
      simp only [compareAt, cmpT_dir_dir, DNode.added, DNode.removed, DNode.modified, Bool.not_not,
        isEmpty_of_canon h1, isEmpty_of_canon h2, isEmpty_of_canon h3]
      cases (addSel path fs es).isEmpty <;> cases (remSel path es fs).isEmpty <;>
        cases (cmpEs path es fs).isEmpty <;> simp [canon, h1, h2, h3]

/-- `DirDiff.compare(prev, curr)._diff_root` = `DiffNode.compare(prev, curr, Path(""))` -/
theorem gen_compare_top (ord : IterOrd) (hord : PermOrd ord) (fuel : Nat) (a b : DirTree)
    (ha : a.wf = true) (hb : b.wf = true) (hd : max (depthT a) (depthT b) < fuel) :
    ∃ r, Gen.Diff.compare ord fuel (some a) (some b) [] = .ok r ∧ r.map canon = Diff.compare a b :=
  gen_compare ord hord fuel (some a) (some b) [] ha hb hd

end MetadorModel.Bridge.Diff
