import MetadorModel.Gen.BytesFns
import MetadorModel.Proofs.Bytes
/-! Bridge theorems for `DEL_VALUE`, `_is_del_mark`, `_node_is_del_mark`, `IH5Node._guard_value` (part of `Bridge/BytesFns.lean`, which explains the set-up; a separate
module so that a broken proof is attributed to the function group that changed). -/
namespace MetadorModel.Bridge.BytesFns
open MetadorModel MetadorModel.Bytes MetadorModel.BytesPy
/-! ## deletion marker -/

theorem gen_del_value : Gen.BytesFns.DEL_VALUE = delMark := by decide

/-- `_is_del_mark` is the model's `isDelMark` on values and `False` on everything that is not a
value (datasets, groups, nodes, links) -/
theorem gen_is_del_mark (o : PyObj) :
    Gen.BytesFns._is_del_mark o = (match o with | .value v => isDelMark v | _ => false) := by
  cases o with
  | value v => cases v <;> simp [Gen.BytesFns._is_del_mark, isDelMark]
  | _ => simp [Gen.BytesFns._is_del_mark]

/-- `_node_is_del_mark` looks into a dataset and otherwise takes the object itself -/
theorem gen_node_is_del_mark (o : PyObj) :
    Gen.BytesFns._node_is_del_mark o =
      (match o with | .value v => isDelMark v | .dataset v => isDelMark v | _ => false) := by
  cases o <;> simp [Gen.BytesFns._node_is_del_mark, gen_is_del_mark]

/-- `_guard_value`: on values it is the model's `guardValue` (only the marker is refused),
nodes and links are refused, raw h5py datasets and groups pass -/
theorem gen_guard_value (o : PyObj) :
    Gen.BytesFns._guard_value o =
      (match o with
       | .value v => guardValue v
       | .dataset _ => .ok ()
       | .group => .ok ()
       | _ => .error .valueError) := by
  cases o <;> simp [Gen.BytesFns._guard_value, gen_is_del_mark, guardValue]

end MetadorModel.Bridge.BytesFns
