import MetadorModel.Bridge.DiffCompare
import MetadorModel.Bridge.DiffGet
/-! Bridge (C18): the generated `DiffNode.compare` and `DirDiff.get` composed. -/
set_option linter.unusedSimpArgs false
namespace MetadorModel.Bridge.Diff
open MetadorModel MetadorModel.Diff MetadorModel.DiffPy

/-- `DirDiff.compare(prev, curr).get(p)`: the translated functions composed find the node the
model finds (with the insertion order of its buckets forgotten), whatever the iteration order. -/
theorem gen_get_compare (ord : IterOrd) (hord : PermOrd ord) (fuel : Nat) (a b : DirTree)
    (ha : a.wf = true) (hb : b.wf = true) (hd : max (depthT a) (depthT b) < fuel) (p : Path) :
    ∃ r g, Gen.Diff.compare ord fuel (some a) (some b) [] = .ok r ∧ Gen.Diff.get r p = .ok g ∧
      g.map canon = Diff.get (Diff.compare a b) p := by
  obtain ⟨r, h1, h2⟩ := gen_compare_top ord hord fuel a b ha hb hd
  refine ⟨r, Diff.get r p, h1, gen_get r p, ?_⟩
  rw [← h2, get_canon r p]
  intro d hr
  subst hr
  exact sortedD_compareAt (x := some a) (y := some b) ha hb [] h2.symm

end MetadorModel.Bridge.Diff
