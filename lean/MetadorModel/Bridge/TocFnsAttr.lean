import Mathlib.Tactic.Attr.Register
/-! simp set used by the bridge proofs of the translated container bookkeeping: evaluation of the
state-and-exception monad `M` on a state -/
register_simp_attr mrun
