import MetadorModel.Model.Crash
import MetadorModel.Bridge.PatchStepsModel
/-!
# From step sequences to crash states (C11 translation tie; hand-written side)

`Model/Crash.lean` defines the crash states of a patching session directly (`Reach`, six constructors). The
translation (`Gen/PatchSteps.lean`) yields *sequences of file-system actions*. This file gives the sequences
a crash semantics — the assumptions about the file system stated in the header of `Model/Crash.lean`, one
rule per action — and proves that **every crash state of the session's step sequence is a `Reach` state**
(`session_crash_reach`, `discard_crash_reach`, `recover_crash_reach`). With the bridge theorems
(`gen_create_patch`, `gen_commit_patch`, `gen_mf_commit_patch`: the regenerated methods perform exactly
`createTrace`, `commitTrace`, `… ++ [writeManifest]`) the theorems of `Props/C11.lean`, which are about
`Reach`, apply to what the source does now.

Rules (`Mid`: states while an action is in progress, `Done`: states after it):
* `create f 1024` — the file appears; while it grows its user-block region is a prefix of zeros; afterwards
  it is 1024 zero bytes; payload and "is HDF5" arbitrary;
* `h5close f true` / `reopen f true` / `h5write f` — HDF5 may write: payload arbitrary, user block untouched;
* `h5close f false`, `reopen f false`, `hashPayload f n` — nothing is written;
* `writeUB f u` — in-place write of `frame u` at offset 0, cut after any number of bytes (`torn k`);
* `writeManifest g a b` with `g` the sidecar of `f` — the sidecar of `f` is absent, partial or complete;
* `unlink f` — the file is gone.
No action touches a file other than the one it names.
-/
set_option linter.unusedVariables false
namespace MetadorModel.Bridge.PatchCrash
open MetadorModel.Chain MetadorModel.UBlock MetadorModel.Crash MetadorModel.PatchPy

variable {P M : Type}

abbrev CAct := Act Crash.Name UBT

def delC (d : Disk P M) (n : Crash.Name) : Disk P M :=
  { d with cont := fun x => if x = n then none else d.cont x }

/-- the disk while action `a` is in progress -/
inductive Mid (side : Crash.Name → Crash.Name) : Disk P M → CAct → Disk P M → Prop
  | create (d : Disk P M) (f : Crash.Name) (n : Nat) (hn : n ≤ UBSIZE) (p : P) (ok : Bool) :
      Mid side d (.create f UBSIZE) (d.setC f ⟨zeros n, p, ok⟩)
  | h5close (d : Disk P M) (f : Crash.Name) (c : CFile P) (hc : d.cont f = some c) (p : P) (ok : Bool) :
      Mid side d (.h5close f true) (d.setC f ⟨c.head, p, ok⟩)
  | reopen (d : Disk P M) (f : Crash.Name) (c : CFile P) (hc : d.cont f = some c) (p : P) (ok : Bool) :
      Mid side d (.reopen f true) (d.setC f ⟨c.head, p, ok⟩)
  | h5write (d : Disk P M) (f : Crash.Name) (c : CFile P) (hc : d.cont f = some c) (p : P) (ok : Bool) :
      Mid side d (.h5write f) (d.setC f ⟨c.head, p, ok⟩)
  | writeUB (d : Disk P M) (f : Crash.Name) (u : UBT) (c : CFile P) (hc : d.cont f = some c) (k : Nat) :
      Mid side d (.writeUB f u) (d.setC f ⟨torn k c.head (frame SZ1024 u), c.payload, c.h5ok⟩)
  | writeManifest (d : Disk P M) (g f : Crash.Name) (hg : g = side f) (a b : Nat) (m : Option M) :
      Mid side d (.writeManifest g a b) (d.setM f m)

/-- the disk after action `a` -/
inductive Done (side : Crash.Name → Crash.Name) : Disk P M → CAct → Disk P M → Prop
  | create (d : Disk P M) (f : Crash.Name) (p : P) (ok : Bool) :
      Done side d (.create f UBSIZE) (d.setC f ⟨zeros UBSIZE, p, ok⟩)
  | h5closeRW (d : Disk P M) (f : Crash.Name) (c : CFile P) (hc : d.cont f = some c) (p : P) (ok : Bool) :
      Done side d (.h5close f true) (d.setC f ⟨c.head, p, ok⟩)
  | h5closeRO (d : Disk P M) (f : Crash.Name) : Done side d (.h5close f false) d
  | reopenRW (d : Disk P M) (f : Crash.Name) (c : CFile P) (hc : d.cont f = some c) (p : P) (ok : Bool) :
      Done side d (.reopen f true) (d.setC f ⟨c.head, p, ok⟩)
  | reopenRO (d : Disk P M) (f : Crash.Name) : Done side d (.reopen f false) d
  | h5write (d : Disk P M) (f : Crash.Name) (c : CFile P) (hc : d.cont f = some c) (p : P) (ok : Bool) :
      Done side d (.h5write f) (d.setC f ⟨c.head, p, ok⟩)
  | hash (d : Disk P M) (f : Crash.Name) (n : Nat) : Done side d (.hashPayload f n) d
  | writeUB (d : Disk P M) (f : Crash.Name) (u : UBT) (c : CFile P) (hc : d.cont f = some c) :
      Done side d (.writeUB f u) (d.setC f ⟨written c.head u, c.payload, c.h5ok⟩)
  | writeManifest (d : Disk P M) (g f : Crash.Name) (hg : g = side f) (a b : Nat) (m : M) :
      Done side d (.writeManifest g a b) (d.setM f (some m))
  | unlink (d : Disk P M) (f : Crash.Name) : Done side d (.unlink f) (delC d f)

/-- the disk when the process is killed somewhere along the step sequence `tr`, started on `d` -/
inductive CrashOf (side : Crash.Name → Crash.Name) : Disk P M → List CAct → Disk P M → Prop
  | here (d : Disk P M) (tr : List CAct) : CrashOf side d tr d
  | mid (d : Disk P M) (a : CAct) (tr : List CAct) (d' : Disk P M) : Mid side d a d' → CrashOf side d (a :: tr) d'
  | step (d : Disk P M) (a : CAct) (tr : List CAct) (d1 d' : Disk P M) :
      Done side d a d1 → CrashOf side d1 tr d' → CrashOf side d (a :: tr) d'

/-- a killed call that performed only a prefix of a step sequence leaves a crash state of that sequence -/
theorem CrashOf.of_prefix {side : Crash.Name → Crash.Name} {d d' : Disk P M} {pre tr : List CAct}
    (h : CrashOf side d pre d') (hp : pre <+: tr) : CrashOf side d tr d' := by
  obtain ⟨rest, rfl⟩ := hp
  induction h with
  | here d tr => exact .here _ _
  | mid d a tr d' hm => exact .mid _ _ _ _ hm
  | step d a tr d1 d' hd _ ih => exact .step _ _ _ _ _ hd ih

/-! ## disk algebra -/

theorem setC_setC (d : Disk P M) (n : Crash.Name) (a b : CFile P) : (d.setC n a).setC n b = d.setC n b := by
  simp only [Disk.setC]
  congr 1
  funext x
  by_cases h : x = n <;> simp [h]

theorem setC_cont (d : Disk P M) (n : Crash.Name) (a : CFile P) : (d.setC n a).cont n = some a := by
  simp [Disk.setC]

theorem setM_self (d : Disk P M) (n : Crash.Name) : d.setM n (d.mf n) = d := by
  cases d with
  | mk c m =>
    simp only [Disk.setM]
    congr 1
    funext x
    by_cases h : x = n <;> simp [h]

theorem delC_setC (d : Disk P M) (n : Crash.Name) (a : CFile P) (h : d.cont n = none) : delC (d.setC n a) n = d := by
  cases d with
  | mk c m =>
    simp only [delC, Disk.setC]
    congr 1
    funext x
    by_cases hx : x = n
    · subst hx; simp only [if_true]; exact h.symm
    · simp [hx]

/-! ## inversion of the rules -/

section Inv
variable {side : Crash.Name → Crash.Name} {d d' : Disk P M} {f : Crash.Name}

theorem mid_create {n : Nat} (h : Mid side d (.create f n) d') :
    ∃ k p ok, k ≤ UBSIZE ∧ d' = d.setC f ⟨zeros k, p, ok⟩ := by
  cases h; exact ⟨_, _, _, ‹_›, rfl⟩
theorem done_create {n : Nat} (h : Done side d (.create f n) d') : ∃ p ok, d' = d.setC f ⟨zeros UBSIZE, p, ok⟩ := by
  cases h; exact ⟨_, _, rfl⟩
theorem mid_h5close {rw : Bool} (h : Mid side d (.h5close f rw) d') :
    ∃ c p ok, d.cont f = some c ∧ d' = d.setC f ⟨c.head, p, ok⟩ := by
  cases h; exact ⟨_, _, _, ‹_›, rfl⟩
theorem done_h5close_rw (h : Done side d (.h5close f true) d') :
    ∃ c p ok, d.cont f = some c ∧ d' = d.setC f ⟨c.head, p, ok⟩ := by
  cases h; exact ⟨_, _, _, ‹_›, rfl⟩
theorem mid_reopen {rw : Bool} (h : Mid side d (.reopen f rw) d') :
    ∃ c p ok, d.cont f = some c ∧ d' = d.setC f ⟨c.head, p, ok⟩ := by
  cases h; exact ⟨_, _, _, ‹_›, rfl⟩
theorem done_reopen_rw (h : Done side d (.reopen f true) d') :
    ∃ c p ok, d.cont f = some c ∧ d' = d.setC f ⟨c.head, p, ok⟩ := by
  cases h; exact ⟨_, _, _, ‹_›, rfl⟩
theorem done_reopen_ro (h : Done side d (.reopen f false) d') : d' = d := by
  cases h; rfl
theorem mid_h5write (h : Mid side d (.h5write f) d') :
    ∃ c p ok, d.cont f = some c ∧ d' = d.setC f ⟨c.head, p, ok⟩ := by
  cases h; exact ⟨_, _, _, ‹_›, rfl⟩
theorem done_h5write (h : Done side d (.h5write f) d') :
    ∃ c p ok, d.cont f = some c ∧ d' = d.setC f ⟨c.head, p, ok⟩ := by
  cases h; exact ⟨_, _, _, ‹_›, rfl⟩
theorem mid_hash {n : Nat} (h : Mid side d (.hashPayload f n) d') : False := by cases h
theorem done_hash {n : Nat} (h : Done side d (.hashPayload f n) d') : d' = d := by cases h; rfl
theorem mid_writeUB {u : UBT} (h : Mid side d (.writeUB f u) d') :
    ∃ c k, d.cont f = some c ∧ d' = d.setC f ⟨torn k c.head (frame SZ1024 u), c.payload, c.h5ok⟩ := by
  cases h; exact ⟨_, _, ‹_›, rfl⟩
theorem done_writeUB {u : UBT} (h : Done side d (.writeUB f u) d') :
    ∃ c, d.cont f = some c ∧ d' = d.setC f ⟨written c.head u, c.payload, c.h5ok⟩ := by
  cases h; exact ⟨_, ‹_›, rfl⟩
theorem mid_writeManifest {g : Crash.Name} {a b : Nat} (h : Mid side d (.writeManifest g a b) d') :
    ∃ f m, g = side f ∧ d' = d.setM f m := by
  cases h; exact ⟨_, _, ‹_›, rfl⟩
theorem done_writeManifest {g : Crash.Name} {a b : Nat} (h : Done side d (.writeManifest g a b) d') :
    ∃ f m, g = side f ∧ d' = d.setM f (some m) := by
  cases h; exact ⟨_, _, ‹_›, rfl⟩
theorem mid_unlink (h : Mid side d (.unlink f) d') : False := by cases h
theorem done_unlink (h : Done side d (.unlink f) d') : d' = delC d f := by cases h; rfl

/-- one step of a crash: nothing yet, in the middle of the first action, or after it -/
theorem crash_cons {a : CAct} {tr : List CAct} (h : CrashOf side d (a :: tr) d') :
    d' = d ∨ Mid side d a d' ∨ ∃ d1, Done side d a d1 ∧ CrashOf side d1 tr d' := by
  cases h with
  | here => exact Or.inl rfl
  | mid _ _ _ _ hm => exact Or.inr (Or.inl hm)
  | step _ _ _ d1 _ hd hr => exact Or.inr (Or.inr ⟨d1, hd, hr⟩)

theorem crash_nil (h : CrashOf side d [] d') : d' = d := by
  cases h; rfl
end Inv

/-! ## the session -/

section Session
variable (side : Crash.Name → Crash.Name) (hside : Function.Injective side)
variable (d0 : Disk P M) (nn : Crash.Name) (uOld uNew : UBT)

/-- steps 1–3 -/
def createSteps : List CAct := [.create nn 1024, .h5close nn true, .writeUB nn uOld, .reopen nn true]
/-- steps 4–7 -/
def commitSteps : List CAct := [.h5close nn true, .hashPayload nn 1024, .writeUB nn uNew, .reopen nn false]
/-- step 8 (manifest class only) -/
def mfSteps : Option (Nat × Nat) → List CAct
  | some (a, b) => [.writeManifest (side nn) a b]
  | none => []

/-- the new container with the given user-block region -/
def At (hd : Bytes) (d : Disk P M) : Prop := ∃ p ok, d = d0.setC nn ⟨hd, p, ok⟩

/-- HDF5 may be writing: the user-block region stays, the rest is arbitrary -/
theorem at_payload {hd : Bytes} {d d' : Disk P M} (h : At d0 nn hd d)
    (h' : ∃ c p ok, d.cont nn = some c ∧ d' = d.setC nn ⟨c.head, p, ok⟩) : At d0 nn hd d' := by
  obtain ⟨p0, ok0, rfl⟩ := h
  obtain ⟨c, p, ok, hc, rfl⟩ := h'
  rw [setC_cont] at hc; cases hc
  rw [setC_setC]
  exact ⟨p, ok, rfl⟩

theorem filling_reach {d : Disk P M} (h : At d0 nn (written (zeros UBSIZE) uOld) d) (pf : P) :
    Reach d0 nn uOld uNew pf d := by
  obtain ⟨p, ok, rfl⟩ := h
  exact .filling p ok

theorem creating_reach {d : Disk P M} (h : At d0 nn (zeros UBSIZE) d) (pf : P) : Reach d0 nn uOld uNew pf d := by
  obtain ⟨p, ok, rfl⟩ := h
  exact .creating UBSIZE (Nat.le_refl _) p ok

theorem committed_reach {d : Disk P M} (h : At d0 nn (written (written (zeros UBSIZE) uOld) uNew) d) :
    ∃ pf, Reach d0 nn uOld uNew pf d := by
  obtain ⟨p, ok, rfl⟩ := h
  refine ⟨p, ?_⟩
  have := Reach.manifest (d0 := d0) (nn := nn) (uOld := uOld) (uNew := uNew) (pf := p) (d0.mf nn) ok
  have e : (d0.setC nn ⟨written (written (zeros UBSIZE) uOld) uNew, p, ok⟩).setM nn (d0.mf nn)
      = d0.setC nn ⟨written (written (zeros UBSIZE) uOld) uNew, p, ok⟩ := by
    have := setM_self (d0.setC nn ⟨written (written (zeros UBSIZE) uOld) uNew, p, ok⟩) nn
    simpa [Disk.setC] using this
  rw [e] at this
  exact this

include hside in
/-- step 8 -/
theorem mf_crash {d d' : Disk P M} (mf : Option (Nat × Nat))
    (hd : At d0 nn (written (written (zeros UBSIZE) uOld) uNew) d)
    (h : CrashOf side d (mfSteps side nn mf) d') : ∃ pf, Reach d0 nn uOld uNew pf d' := by
  cases mf with
  | none => rw [crash_nil h]; exact committed_reach d0 nn uOld uNew hd
  | some ab =>
    obtain ⟨a, b⟩ := ab
    simp only [mfSteps] at h
    rcases crash_cons h with rfl | hm | ⟨d1, hdone, hr⟩
    · exact committed_reach d0 nn uOld uNew hd
    · obtain ⟨f, m, hg, rfl⟩ := mid_writeManifest hm
      have := hside hg; subst this
      obtain ⟨p, ok, rfl⟩ := hd
      exact ⟨p, .manifest m ok⟩
    · obtain ⟨f, m, hg, rfl⟩ := done_writeManifest hdone
      have := hside hg; subst this
      rw [crash_nil hr]
      obtain ⟨p, ok, rfl⟩ := hd
      exact ⟨p, .manifest (some m) ok⟩

include hside in
/-- steps 4–8, from a state with the uncommitted block in place -/
theorem commit_crash {d d' : Disk P M} (p0 : P) (mf : Option (Nat × Nat))
    (hd : At d0 nn (written (zeros UBSIZE) uOld) d)
    (h : CrashOf side d (commitSteps nn uNew ++ mfSteps side nn mf) d') : ∃ pf, Reach d0 nn uOld uNew pf d' := by
  simp only [commitSteps, List.cons_append, List.nil_append] at h
  -- close of the writable handle
  rcases crash_cons h with rfl | hm | ⟨d1, hdone, h⟩
  · exact ⟨p0, filling_reach d0 nn uOld uNew hd p0⟩
  · exact ⟨p0, filling_reach d0 nn uOld uNew (at_payload d0 nn hd (mid_h5close hm)) p0⟩
  · have hd1 := at_payload d0 nn hd (done_h5close_rw hdone)
    -- hashsum_file
    rcases crash_cons h with rfl | hm | ⟨d2, hdone, h⟩
    · exact ⟨p0, filling_reach d0 nn uOld uNew hd1 p0⟩
    · exact (mid_hash hm).elim
    · rw [done_hash hdone] at h
      -- the committing save
      obtain ⟨p1, ok1, rfl⟩ := hd1
      rcases crash_cons h with rfl | hm | ⟨d3, hdone, h⟩
      · exact ⟨p0, .filling p1 ok1⟩
      · obtain ⟨c, k, hc, rfl⟩ := mid_writeUB hm
        rw [setC_cont] at hc; cases hc
        rw [setC_setC]; exact ⟨p1, .committing k ok1⟩
      · obtain ⟨c, hc, rfl⟩ := done_writeUB hdone
        rw [setC_cont] at hc; cases hc
        rw [setC_setC] at h
        -- reopen read-only
        rcases crash_cons h with rfl | hm | ⟨d4, hdone, h⟩
        · exact committed_reach d0 nn uOld uNew ⟨p1, ok1, rfl⟩
        · obtain ⟨c, p, ok, hc, rfl⟩ := mid_reopen hm
          rw [setC_cont] at hc; cases hc
          rw [setC_setC]; exact committed_reach d0 nn uOld uNew ⟨p, ok, rfl⟩
        · rw [done_reopen_ro hdone] at h
          exact mf_crash side hside d0 nn uOld uNew mf ⟨p1, ok1, rfl⟩ h

/-- HDF5 writes between `create_patch` and `commit_patch` keep the uncommitted block in place -/
theorem writes_crash {d d' : Disk P M} (p0 : P) (n : Nat) (rest : List CAct)
    (hd : At d0 nn (written (zeros UBSIZE) uOld) d)
    (hrest : ∀ d1, At d0 nn (written (zeros UBSIZE) uOld) d1 → CrashOf side d1 rest d' →
      ∃ pf, Reach d0 nn uOld uNew pf d')
    (h : CrashOf side d (List.replicate n (.h5write nn) ++ rest) d') : ∃ pf, Reach d0 nn uOld uNew pf d' := by
  induction n generalizing d with
  | zero => exact hrest d hd (by simpa using h)
  | succ n ih =>
    simp only [List.replicate_succ, List.cons_append] at h
    rcases crash_cons h with rfl | hm | ⟨d1, hdone, h⟩
    · exact ⟨p0, filling_reach d0 nn uOld uNew hd p0⟩
    · exact ⟨p0, filling_reach d0 nn uOld uNew (at_payload d0 nn hd (mid_h5write hm)) p0⟩
    · exact ih (at_payload d0 nn hd (done_h5write hdone)) h

include hside in
/-- **the whole session**: `create_patch`, any number of HDF5 writes, `commit_patch` (with or without the
manifest sidecar). Every crash state of this step sequence is a crash state of `Model/Crash.lean`.
(`p0`: some payload, to name the session while no payload exists yet.) -/
theorem session_crash_reach {d : Disk P M} (p0 : P) (n : Nat) (mf : Option (Nat × Nat))
    (h : CrashOf side d0 (createSteps nn uOld ++ (List.replicate n (.h5write nn) ++
          (commitSteps nn uNew ++ mfSteps side nn mf))) d) :
    ∃ pf, Reach d0 nn uOld uNew pf d := by
  simp only [createSteps, List.cons_append, List.nil_append] at h
  -- create with mode x
  rcases crash_cons h with rfl | hm | ⟨d1, hdone, h⟩
  · exact ⟨p0, .absent⟩
  · obtain ⟨k, p, ok, hk, rfl⟩ := mid_create hm
    exact ⟨p0, .creating k hk p ok⟩
  · obtain ⟨p1, ok1, rfl⟩ := done_create hdone
    have hd1 : At d0 nn (zeros UBSIZE) (d0.setC nn ⟨zeros UBSIZE, p1, ok1⟩) := ⟨p1, ok1, rfl⟩
    -- close of the fresh handle
    rcases crash_cons h with rfl | hm | ⟨d2, hdone, h⟩
    · exact ⟨p0, creating_reach d0 nn uOld uNew hd1 p0⟩
    · exact ⟨p0, creating_reach d0 nn uOld uNew (at_payload d0 nn hd1 (mid_h5close hm)) p0⟩
    · obtain ⟨p2, ok2, rfl⟩ := at_payload d0 nn hd1 (done_h5close_rw hdone)
      -- the first save
      rcases crash_cons h with rfl | hm | ⟨d3, hdone, h⟩
      · exact ⟨p0, .creating UBSIZE (Nat.le_refl _) p2 ok2⟩
      · obtain ⟨c, k, hc, rfl⟩ := mid_writeUB hm
        rw [setC_cont] at hc; cases hc
        rw [setC_setC]; exact ⟨p0, .initUB k p2 ok2⟩
      · obtain ⟨c, hc, rfl⟩ := done_writeUB hdone
        rw [setC_cont] at hc; cases hc
        rw [setC_setC] at h
        have hd3 : At d0 nn (written (zeros UBSIZE) uOld) (d0.setC nn ⟨written (zeros UBSIZE) uOld, p2, ok2⟩) :=
          ⟨p2, ok2, rfl⟩
        -- reopen r+
        rcases crash_cons h with rfl | hm | ⟨d4, hdone, h⟩
        · exact ⟨p0, .filling p2 ok2⟩
        · exact ⟨p0, filling_reach d0 nn uOld uNew (at_payload d0 nn hd3 (mid_reopen hm)) p0⟩
        · exact writes_crash side d0 nn uOld uNew p0 n _ (at_payload d0 nn hd3 (done_reopen_rw hdone))
            (fun d1 hd1 hc1 => commit_crash side hside d0 nn uOld uNew p0 mf hd1 hc1) h

include hside in
/-- **recovery**: an interrupted patch (uncommitted block in place) is re-opened `r+`, written to and
committed: the crash states are again crash states of the same session -/
theorem recover_crash_reach {d1 d : Disk P M} (p0 : P) (n : Nat) (mf : Option (Nat × Nat))
    (hd : At d0 nn (written (zeros UBSIZE) uOld) d1)
    (h : CrashOf side d1 (.reopen nn true :: (List.replicate n (.h5write nn) ++
          (commitSteps nn uNew ++ mfSteps side nn mf))) d) :
    ∃ pf, Reach d0 nn uOld uNew pf d := by
  rcases crash_cons h with rfl | hm | ⟨d4, hdone, h⟩
  · exact ⟨p0, filling_reach d0 nn uOld uNew hd p0⟩
  · exact ⟨p0, filling_reach d0 nn uOld uNew (at_payload d0 nn hd (mid_reopen hm)) p0⟩
  · exact writes_crash side d0 nn uOld uNew p0 n _ (at_payload d0 nn hd (done_reopen_rw hdone))
      (fun d1 hd1 hc1 => commit_crash side hside d0 nn uOld uNew p0 mf hd1 hc1) h

/-- **discard**: closing and unlinking the uncommitted container leads back to the disk before the session
(`hfresh`: the name was free, `h5py.File(path, "x")`) -/
theorem discard_crash_reach {d1 d : Disk P M} (p0 : P) (hfresh : d0.cont nn = none)
    (hd : At d0 nn (written (zeros UBSIZE) uOld) d1)
    (h : CrashOf side d1 [.h5close nn true, .unlink nn] d) :
    ∃ pf, Reach d0 nn uOld uNew pf d := by
  rcases crash_cons h with rfl | hm | ⟨d2, hdone, h⟩
  · exact ⟨p0, filling_reach d0 nn uOld uNew hd p0⟩
  · exact ⟨p0, filling_reach d0 nn uOld uNew (at_payload d0 nn hd (mid_h5close hm)) p0⟩
  · have hd2 := at_payload d0 nn hd (done_h5close_rw hdone)
    rcases crash_cons h with rfl | hm | ⟨d3, hdone3, h3⟩
    · exact ⟨p0, filling_reach d0 nn uOld uNew hd2 p0⟩
    · exact (mid_unlink hm).elim
    · obtain ⟨p2, ok2, rfl⟩ := hd2
      rw [done_unlink hdone3, delC_setC _ _ _ hfresh] at h3
      rw [crash_nil h3]
      exact ⟨p0, .absent⟩

end Session

/-! ## the step sequences of `Bridge/PatchStepsModel.lean` (= of the regenerated methods) are these sessions

File names of the record model are `List Char`, user blocks are `Record.UB`; the crash model has `String` names
and textual user blocks `UBT`. `fn` and `ρ` translate (any injective naming and any rendering will do). -/

section Link
open MetadorModel.Bridge.PatchSteps
variable (fn : FindFiles.Name → Crash.Name) (ρ : Record.UB → UBT)

theorem map_createTrace (path : FindFiles.Name) (ub : Record.UB) :
    (createTrace path ub).map (Act.map fn ρ) = createSteps (fn path) (ρ ub) := rfl

theorem map_commitTrace (f : FindFiles.Name) (ub : Record.UB) :
    (commitTrace f ub).map (Act.map fn ρ) = commitSteps (fn f) (ρ ub) := rfl

/-- the sidecar step of `commitMFW` -/
def mfTrace (f : FindFiles.Name) : Option (Nat × Nat) → List (Act FindFiles.Name Record.UB)
  | some (a, b) => [.writeManifest (FindFiles.manifestFile f) a b]
  | none => []

/-- **every crash state of `create_patch … writes … commit_patch`, as the regenerated methods perform them,
is a crash state of `Model/Crash.lean`** — so `crash_frame`, `crash_committed_opens` and `crash_trichotomy`
(Props/C11) apply to it. -/
theorem steps_session_crash {side : Crash.Name → Crash.Name} (hside : Function.Injective side)
    (hsn : ∀ f, fn (FindFiles.manifestFile f) = side (fn f))
    {d0 d : Disk P M} (p0 : P) (path : FindFiles.Name) (ub ub' : Record.UB) (n : Nat) (mfid : Option (Nat × Nat))
    (h : CrashOf side d0
      ((createTrace path ub ++ (List.replicate n (Act.h5write path) ++ (commitTrace path ub' ++ mfTrace path mfid))).map
        (Act.map fn ρ)) d) :
    ∃ pf, Reach d0 (fn path) (ρ ub) (ρ ub') pf d := by
  apply session_crash_reach side hside d0 (fn path) (ρ ub) (ρ ub') p0 n mfid
  have e : (mfTrace path mfid).map (Act.map fn ρ) = mfSteps side (fn path) mfid := by
    cases mfid with
    | none => rfl
    | some ab => obtain ⟨a, b⟩ := ab; simp [mfTrace, mfSteps, Act.map, hsn]
  simpa only [List.map_append, map_createTrace, map_commitTrace, e, List.map_replicate, Act.map] using h

/-- the trace of `create_patch`: nothing at all when it refuses, steps 1–3 on a fresh name when it goes through -/
theorem createPatchW_trace (s : Record.State) :
    ((createPatchW s).1 ≠ .ok () ∧ (createPatchW s).2.trace = []) ∨
    ∃ path ul, (createPatchW s).1 = .ok () ∧ Record.getF s.disk path = none ∧
      (createPatchW s).2.trace = createTrace path (Record.newPatchUB ul s.next) ∧
      (Record.newPatchUB ul s.next).hash = none := by
  unfold createPatchW
  simp only
  split
  · left; exact ⟨by simp, rfl⟩
  · split
    · left; exact ⟨by simp, rfl⟩
    · split
      · left; exact ⟨by simp, rfl⟩
      · split
        · rename_i f0 u0 rest fl ul hfs hl
          split
          · left; exact ⟨by simp, rfl⟩
          · split
            · left; exact ⟨by simp, rfl⟩
            · rename_i h1 h2
              right
              refine ⟨_, ul, rfl, ?_, rfl, rfl⟩
              cases hg : Record.getF s.disk (FindFiles.patchFile (FindFiles.inferName f0) (ul.idx + 1)) with
              | none => rfl
              | some v => simp [hg] at h2
        · left; exact ⟨by simp, rfl⟩

/-- the trace of `IH5Record.commit_patch`: a prefix of steps 4–7 on the newest container, all of them when it
goes through -/
theorem commitPlainW_trace (s : Record.State) (kw : Kw) :
    (commitPlainW s kw).2.trace = [] ∨
    ∃ f ub p, Record.lastFile s.h.files = some (f, ub) ∧
      (commitPlainW s kw).2.trace <+: commitTrace f { ub with hash := some p } ∧
      ((commitPlainW s kw).1 = .ok () → (commitPlainW s kw).2.trace = commitTrace f { ub with hash := some p }) := by
  unfold commitPlainW
  simp only
  split
  · left; rfl
  · split
    · left; rfl
    · split
      · left; rfl
      · split
        · left; rfl
        · split
          · left; rfl
          · rename_i f ub hl
            split
            · right
              exact ⟨f, ub, [], hl, ⟨_, rfl⟩, by simp⟩
            · rename_i p hpay
              right
              exact ⟨f, ub, p, hl, List.prefix_refl _, fun _ => rfl⟩

end Link

end MetadorModel.Bridge.PatchCrash
