import MetadorModel.Gen.CodecFns
/-! Tactics shared by the C12 bridge modules: the proofs split on the constructors of the inputs and then on
every `match` / `if` of both sides, so that they do not depend on the shape the source (hence the generated
term) happens to have. -/
namespace MetadorModel.Bridge.CodecFns

/-- case analysis on every `match` / `if` of the goal until both sides agree -/
macro "crunch" : tactic =>
  `(tactic| repeat' (first | rfl | (split <;> (try subst_vars) <;> (try simp_all))))

/-- close a goal `generated = model` after unfolding: directly, by `simp`, or by case analysis -/
macro "bridge_close" : tactic =>
  `(tactic| first | rfl | (simp; done) | crunch)

end MetadorModel.Bridge.CodecFns
