import MetadorModel.Bridge.PatchSteps
/-!
# Bridge for C11: `_delete_latest_container`, `discard_patch` as regenerated from the source

Only the writable (uncommitted) newest container is ever closed and unlinked, never the base container.
-/
set_option linter.unusedSimpArgs false
set_option linter.unusedVariables false
namespace MetadorModel.Bridge.PatchSteps
open MetadorModel.FindFiles MetadorModel.Record MetadorModel.RecordPy MetadorModel.PatchPy
open MetadorModel.Gen.PatchSteps

/-! ## `discard_patch` -/

theorem gen_delete_latest_container (w : World) (hs : List H5) (x : H5) (hf : w.self.files = hs ++ [x]) :
    IH5Record._delete_latest_container w =
      match pyDictDel w.self.ublocks x.name with
      | .error e => (.error e, { w with self := { w.self with files := hs } })
      | .ok d =>
        let w1 : World := { w with self := { w.self with files := hs, ublocks := d },
                                   trace := if x.live then w.trace ++ [.h5close x.name x.rw] else w.trace }
        match getF w.disk x.name with
        | none => (.error .fileNotFound, w1)
        | some _ => (.ok (), { w1 with disk := eraseF w.disk x.name, trace := w1.trace ++ [.unlink x.name] }) := by
  unfold IH5Record._delete_latest_container
  cases hd : pyDictDel w.self.ublocks x.name with
  | error e => simp [hf, pyPop_snoc, pySetFiles, hd]
  | ok d =>
    cases hg : getF w.disk x.name <;> cases hl : x.live <;>
      simp [hf, pyPop_snoc, pySetFiles, pySetUblocks, hd, pyH5Close, pyUnlink, hg, hl]

/-- **`discard_patch`** as regenerated from the source is the step sequence `discardW` -/
theorem gen_discard_patch (s : State) (hp : PyRep s.h) :
    IH5Record.discard_patch (World.ofState s) = discardW s := by
  have hcl : (World.ofState s).self.closed = s.h.closed := rfl
  have hal : (World.ofState s).self.allow = s.h.allow := rfl
  have hwr : lastIsRW (World.ofState s).self.files = hasWritable s.h := (hasWritable_eq s.h).symm
  have hlen : (World.ofState s).self.files.length = s.h.files.length := by rw [ofState_files, mkHandles_length]
  unfold IH5Record.discard_patch discardW
  cases hc : s.h.closed
  case true => simp [gen_expect_open, hcl, hc]
  case false =>
    cases ha : s.h.allow
    case false => simp [gen_expect_open, gen_expect_not_ro, hcl, hal, hc, ha]
    case true =>
      cases hw : hasWritable s.h
      case false => simp [gen_expect_open, gen_expect_not_ro, gen_has_writable, hcl, hal, hwr, hc, ha, hw]
      case true =>
        by_cases hone : s.h.files.length = 1
        · have hone' : (s.h.files.length == 1) = true := by simpa using hone
          simp only [run_bind, run_pure, run_pySelf, gen_expect_open, gen_expect_not_ro, gen_has_writable, hcl, hal, hwr,
            hc, ha, hw, hlen, hone', Bool.false_eq_true, if_false, if_true, Bool.not_true]
          simp
        · have hone' : (s.h.files.length == 1) = false := by simpa using hone
          simp only [run_bind, run_pure, run_pySelf, gen_expect_open, gen_expect_not_ro, gen_has_writable, hcl, hal, hwr,
            hc, ha, hw, hlen, hone', Bool.false_eq_true, if_false, if_true, Bool.not_true]
          rcases nil_or_snoc s.h.files with hnil | ⟨init, ⟨f, ub⟩, hsn⟩
          · simp [hasWritable, hnil] at hw
          · have hl : lastFile s.h.files = some (f, ub) := by rw [hsn]; exact lastFile_append_single _ _
            have hrw : s.h.lastRW = true := by simpa [hasWritable, hsn] using hw
            have hfiles : (World.ofState s).self.files = init.map ro ++ [⟨f, true, true⟩] := by
              rw [ofState_files, hsn, mkHandles_snoc, hrw]
            have hni : f ∉ init.map Prod.fst := by
              apply nodup_snoc_notin (u := ub); rw [← hsn]; exact hp.1
            have hdel : pyDictDel (World.ofState s).self.ublocks f = .ok init := by
              show pyDictDel s.h.files f = .ok init
              rw [hsn]; exact pyDictDel_snoc _ _ _ hni
            rw [gen_delete_latest_container _ _ _ hfiles]
            simp only [hdel, hl]
            have hdl : dropLastF (World.ofState s).self.ublocks = init := by
              show dropLastF s.h.files = init
              rw [hsn]; exact dropLastF_snoc _ _
            have hdisk : (World.ofState s).disk = s.disk := rfl
            have hc2 : (Obj.ofHandle s.h).closed = false := hc
            have ha2 : (Obj.ofHandle s.h).allow = true := ha
            have hf2 : (Obj.ofHandle s.h).files = init.map ro ++ [⟨f, true, true⟩] := hfiles
            have hdl2 : dropLastF (Obj.ofHandle s.h).ublocks = init := hdl
            cases hg : getF s.disk f <;>
              simp [hdisk, hg, hf2, hdl2, hc2, ha2, World.ofState]

theorem gen_discard_patch_model (s : State) (hp : PyRep s.h) (hd : OnDisk s) :
    resOf s (IH5Record.discard_patch (World.ofState s)) = discardPatch s := by
  rw [gen_discard_patch s hp]; exact discardW_res s hp hd

end MetadorModel.Bridge.PatchSteps
