import MetadorModel.Bridge.TocFnsPaths
import MetadorModel.Proofs.ContainerTreeOps
import MetadorModel.Proofs.ContainerInv
import Mathlib.Data.List.Forall2
/-!
# Bridge: translated `MetadorMeta` = the model's `Handle.*`

`self` of a `MetadorMeta` method is the model's `Handle` (`_base_dir`, `_objs`); a method that updates
`self._objs` returns the new handle, as the model's functions do.
-/
namespace MetadorModel.Bridge.TocFns
open MetadorModel.Container MetadorModel.CtrPy MetadorModel.Gen.TocFns


/-- the model's `_require_schema` as an operation of `M` -/
def requireSchemaM (e : Env) (name : String) (ver : Option Ver) : M SInfo := fun s => liftE (e.requireSchema name ver) s

theorem gen_require_schema (e : Env) : MetadorMeta._require_schema e = requireSchemaM e := by
  funext name ver s
  simp only [MetadorMeta._require_schema, requireSchemaM, Env.requireSchema, envGetUnsafe, run_bind]
  cases hr : e.resolve name ver with
  | none => rfl
  | some r =>
    simp only []
    cases hi : e.info r with
    | none => rfl
    | some i =>
      simp only [run_ofOpt_some]
      cases ha : i.aux <;> simp [liftE]

theorem gen_get_raw (h : Handle) (name : String) (ver : Option Ver) :
    MetadorMeta._get_raw h name ver = h.getRaw name ver := by
  simp only [MetadorMeta._get_raw, Handle.getRaw]
  cases ver with
  | none => cases alGet h.objs name <;> rfl
  | some v =>
    cases alGet h.objs name with
    | none => simp
    | some st => simp

/-- the model's `register` on a `StoredMetadata` -/
def linkRegisterM (e : Env) (st : Stored) : M Unit := linkRegister e st.schema st.uuid st.path

theorem rawCreate_has {t t' : Tree} {p : Path} {n : Node} (h : rawCreate t p n = .ok t') : get? t' p = some n := by
  have hp := (rawCreate_inv h).1
  rw [rawCreate_get? h p hp]; simp

theorem gen_set_raw (e : Env) (h : Handle) (ref : SRef) (tok : String) :
    MetadorMeta._set_raw freshUuid (linkRegisterM e) h ref tok = h.setRaw e ref tok := by
  funext s
  simp only [MetadorMeta._set_raw, Handle.setRaw, run_bind, joinObj, gen_ep_name_for, run_rawSetItem, run_liftRaw,
    linkRegisterM]
  rcases freshUuid s with ⟨ru, s1⟩
  cases ru with
  | error er => rfl
  | ok u =>
    simp only []
    cases hc : rawCreate s1.raw (h.baseDir ++ [Key.obj ⟨ref.name, ref.ver⟩ u]) (Node.ds (Val.data tok)) with
    | error er => rfl
    | ok t1 =>
      have hg := rawCreate_has hc
      simp only [run_getSt, run_rawGetItem, has, hg, Option.isSome_some, if_true, isDataset, run_pyAssert_true]

theorem gen_del_raw (h : Handle) (name : String) (unlink : Bool)
    (hk : ∀ st, alGet h.objs name = some st → (alGet h.objs st.schema.name).isSome) :
    MetadorMeta._del_raw linkUnregister h name unlink = h.delRaw name unlink := by
  funext s
  simp only [MetadorMeta._del_raw, Handle.delRaw, mrun]
  cases ho : alGet h.objs name with
  | none => rfl
  | some st =>
    have hks := hk st ho
    simp only [mrun, hks]
    cases unlink with
    | false =>
      simp only [Bool.false_eq_true, if_false, mrun]
      cases rawDel s.raw st.path with
      | error er => rfl
      | ok t1 =>
        simp only []
        by_cases he : (alErase h.objs st.schema.name).isEmpty = true
        · simp only [he, if_true, mrun]
        · simp only [he, Bool.false_eq_true, if_false, mrun]
    | true =>
      simp only [if_true, mrun]
      rcases linkUnregister st.uuid s with ⟨r1, s1⟩
      cases r1 with
      | error er => rfl
      | ok u =>
        simp only [mrun]
        cases rawDel s1.raw st.path with
        | error er => rfl
        | ok t1 =>
          simp only []
          by_cases he : (alErase h.objs st.schema.name).isEmpty = true
          · simp only [he, if_true, mrun]
          · simp only [he, Bool.false_eq_true, if_false, mrun]

/-! ### `_destroy` -/

theorem destroy_loop (unlink : Bool) : ∀ (l : List String) (h : Handle),
    (do let _ ← pyFoldM l h (fun h n => do let h ← Handle.delRaw h n unlink; pure h); pure ()) =
      Handle.destroy.go unlink h l
  | [], h => rfl
  | n :: ns, h => by
    funext s
    have ih := fun h' => congrFun (destroy_loop unlink ns h')
    simp only [pyFoldM, Handle.destroy.go, mrun] at ih ⊢
    rcases Handle.delRaw h n unlink s with ⟨r, s1⟩
    cases r with
    | error er => rfl
    | ok h' => exact ih h' s1

/-- `_destroy` (the handle it returns is dropped: the model's `destroy` returns nothing) -/
theorem gen_destroy (h : Handle) (unlink : Bool) :
    (do let _ ← MetadorMeta._destroy (fun h n u => Handle.delRaw h n u) h unlink; pure ()) = h.destroy unlink := by
  simp only [MetadorMeta._destroy, Handle.destroy]
  rw [← destroy_loop]

/-! ### `__setitem__`, `__delitem__` -/

theorem gen_setitem (e : Env) (h : Handle) (name : String) (ver : Option Ver) (valid : Bool) (tok : String) :
    MetadorMeta.__setitem__ (requireSchemaM e) (fun h r t => Handle.setRaw e h r t) h (name, ver) (valid, tok)
      = h.set e name ver valid tok := by
  funext s
  simp only [MetadorMeta.__setitem__, Handle.set, pluginArgs, gen_get_raw, mrun, requireSchemaM, parseValue]
  cases hg : h.getRaw name none with
  | some st => simp
  | none =>
    simp only [Option.isSome_none, Bool.false_eq_true, if_false, mrun]
    cases hr : e.requireSchema name ver with
    | error er => rfl
    | ok info =>
      simp only [liftE, mrun]
      cases valid with
      | false => simp
      | true =>
        simp only [if_true, Bool.not_true, Bool.false_eq_true, if_false, mrun]

theorem gen_delitem (h : Handle) (name : String) (ver : Option Ver) :
    MetadorMeta.__delitem__ (fun h n u => Handle.delRaw h n u) h (name, ver) = h.del name := by
  funext s
  simp only [MetadorMeta.__delitem__, Handle.del, pluginArgs, gen_get_raw, mrun]
  cases hg : h.getRaw name none with
  | none => simp
  | some st =>
    simp only [Option.isNone_some, Bool.false_eq_true, if_false, mrun]



/-! ### `query` -/

theorem find?_foldl_setAdd {α : Type} [DecidableEq α] (p : α → Bool) : ∀ (l acc : List α),
    (l.foldl setAdd acc).find? p = (acc ++ l).find? p
  | [], acc => by simp
  | a :: l, acc => by
    rw [List.foldl_cons, find?_foldl_setAdd p l]
    by_cases ha : a ∈ acc
    · simp only [setAdd, ha, if_true, List.find?_append, List.find?_cons]
      cases hf : acc.find? p with
      | some x => simp
      | none =>
        have : p a = false := by
          have := List.find?_eq_none.mp hf a ha
          simpa using this
        simp [this]
    · simp [setAdd, ha]

theorem head?_filter_pySetOf {α : Type} [DecidableEq α] (p : α → Bool) (l : List α) :
    ((pySetOf l).filter p).head? = (l.filter p).head? := by
  simp [List.head?_filter, pySetOf, find?_foldl_setAdd]

theorem mem_pySetOf {α : Type} [DecidableEq α] (x : α) (l : List α) : x ∈ pySetOf l ↔ x ∈ l := by
  simp [pySetOf, mem_foldl_setAdd]

/-- a comprehension over a read-only callee -/
theorem pyMapM_spec {α β : Type} (f : α → M β) (P : α → β → Prop) (s : St) : ∀ (l : List α),
    (∀ a ∈ l, ∃ b, f a s = (.ok b, s) ∧ P a b) →
    ∃ bs, pyMapM l f s = (.ok bs, s) ∧ List.Forall₂ P l bs
  | [], _ => ⟨[], rfl, List.Forall₂.nil⟩
  | a :: l, h => by
    obtain ⟨b, hb, hp⟩ := h a (by simp)
    obtain ⟨bs, hbs, hps⟩ := pyMapM_spec f P s l (fun a' ha' => h a' (by simp [ha']))
    refine ⟨b :: bs, ?_, List.Forall₂.cons hp hps⟩
    simp [pyMapM, mrun, hb, hbs]

/-- the model's `versions` as an operation of `M` -/
def versionsM (name : String) (ver : Option Ver) : M (List SRef) := fun s => (.ok (tocVersions s.c name ver), s)

/-- what `MetadorMeta.query` needs of `TOCSchemas.children` (a set: only membership counts); `gen_children`
shows that the translated `children` has it when the keys of `_children` are distinct -/
def ChildrenSpec (ch : (String × Option Ver) → Option Ver → M (List SRef)) (s : St) : Prop :=
  ∀ r : SRef, ∃ l, ch (r.name, some r.ver) none s = (.ok l, s) ∧ ∀ x, x ∈ l ↔ x ∈ tocChildren s.c r

theorem avail_eq (f : String → Option Stored) : ∀ (l : List (String × Stored)) (bs : List SRef),
    (∀ e ∈ l, f e.1 = some e.2) →
    List.Forall₂ (fun k b => ∃ st, f k = some st ∧ b = st.schema) (l.map (·.1)) bs →
    bs = l.map (·.2.schema)
  | [], bs, _, h => by cases h; rfl
  | e :: l, bs, hf, h => by
    simp only [List.map_cons] at h ⊢
    cases h with
    | cons hb hrest =>
      obtain ⟨st, hst, rfl⟩ := hb
      rw [hf e (by simp)] at hst
      cases hst
      rw [avail_eq f l _ (fun e' he' => hf e' (by simp [he'])) hrest]

theorem mem_of_forall₂_children {s : St} : ∀ (rs : List SRef) (ls : List (List SRef)),
    List.Forall₂ (fun r l => ∀ x, x ∈ l ↔ x ∈ tocChildren s.c r) rs ls →
    ∀ x, (∃ l ∈ ls, x ∈ l) ↔ x ∈ (rs.map (tocChildren s.c)).flatten
  | [], _, h, x => by cases h; simp
  | r :: rs, _, h, x => by
    cases h with
    | cons hb hrest =>
      have ih := mem_of_forall₂_children rs _ hrest x
      simp only [List.mem_cons, exists_eq_or_imp, List.map_cons, List.flatten_cons, List.mem_append, hb x, ih]

theorem gen_query (ch : (String × Option Ver) → Option Ver → M (List SRef)) (h : Handle)
    (name : String) (kv ver : Option Ver) (s : St)
    (hch : ChildrenSpec ch s) (hn : name ≠ "") (hk : (alKeys h.objs).Nodup) :
    ∃ l, MetadorMeta.query ch versionsM h (name, kv) ver s = (.ok l, s) ∧
      l.head? = (h.query s.c name (pluginArgs (name, kv) ver).2).head? ∧
      ∀ x, x ∈ l ↔ x ∈ h.query s.c name (pluginArgs (name, kv) ver).2 := by
  generalize hv : (pluginArgs (name, kv) ver).2 = v'
  have hpa : pluginArgs (name, kv) ver = (name, v') := by rw [← hv]; rfl
  -- the two comprehensions
  obtain ⟨ls, hls, hP⟩ := pyMapM_spec
    (fun ref_ : SRef => ch (ref_.name, some ref_.ver) none)
    (fun r l => ∀ x, x ∈ l ↔ x ∈ tocChildren s.c r) s (tocVersions s.c name v')
    (fun r _ => by
      obtain ⟨l, hl, hm⟩ := hch r
      exact ⟨l, hl, hm⟩)
  obtain ⟨bs, hbs, hQ⟩ := pyMapM_spec
    (fun s_ : String => do let tmp4 ← optAttr (h.getRaw s_ none); pure tmp4.schema)
    (fun k b => ∃ st, alGet h.objs k = some st ∧ b = st.schema) s (h.objs.map (·.1))
    (fun k hkm => by
      have : (alGet h.objs k).isSome := (alGet_isSome_iff _ _).mpr hkm
      obtain ⟨st, hst⟩ := Option.isSome_iff_exists.mp this
      exact ⟨st.schema, by simp [Handle.getRaw, hst, optAttr, mrun], st, hst, rfl⟩)
  have hbs' : bs = h.objs.map (·.2.schema) :=
    avail_eq (alGet h.objs) h.objs bs (fun e he => (mem_iff_alGet _ hk _ _).mp he) hQ
  have hcompat : ∀ x, x ∈ pyUnion ls ↔ x ∈ ((tocVersions s.c name v').map (tocChildren s.c)).flatten := by
    intro x; rw [mem_pyUnion]; exact mem_of_forall₂_children _ _ hP x
  have hfilter : ∀ (l : List SRef), l.filter (fun x => decide (x ∈ pyUnion ls)) =
      l.filter (fun x => decide (x ∈ ((tocVersions s.c name v').map (tocChildren s.c)).flatten)) := by
    intro l; apply List.filter_congr; intro x _; simp [hcompat x]
  have hne : (!(name != "")) = false := by simpa using hn
  simp only [MetadorMeta.query, hpa, gen_get_raw, Handle.query, List.map_id', hne, Bool.false_eq_true, if_false]
  cases hg : h.getRaw name v' with
  | none =>
    refine ⟨_, (by simp only [mrun, versionsM, hls, hbs]; rfl), ?_, fun x => ?_⟩
    · simp only [List.nil_append, hfilter, head?_filter_pySetOf, hbs']
    · simp only [List.nil_append, List.mem_filter, mem_pySetOf, hcompat x, decide_eq_true_eq, hbs']
  | some st =>
    refine ⟨_, (by simp only [mrun, versionsM, hls, hbs]; rfl), ?_, fun x => ?_⟩
    · simp
    · simp only [List.nil_append, List.mem_append, List.mem_filter, mem_pySetOf, hcompat x, decide_eq_true_eq,
        List.mem_singleton, List.mem_cons, List.not_mem_nil, or_false, hbs']

/-! ### `__contains__`, `get` -/

theorem gen_contains (qM : Handle → (String × Option Ver) → Option Ver → M (List SRef)) (h : Handle)
    (name : String) (ver : Option Ver) (s : St)
    (hq : name ≠ "" → ∃ l, qM h (name, ver) none s = (.ok l, s) ∧ l.head? = (h.query s.c name ver).head?) :
    MetadorMeta.__contains__ qM h (name, ver) s = (.ok (h.contains s.c name ver), s) := by
  simp only [MetadorMeta.__contains__, Handle.contains, Bool.false_or, Bool.true_and]
  by_cases hn : name = ""
  · simp [hn]
  · obtain ⟨l, hl, hh⟩ := hq hn
    simp only [beq_iff_eq, hn, if_false, mrun, hl, hh]
    cases h.query s.c name ver <;> simp

/-- `get`: Python parses the first candidate `query` yields; the model tries the candidates in turn. They agree
when the first candidate can be read (which `Inv` guarantees for every candidate). -/
theorem gen_get (e : Env) (qM : Handle → (String × Option Ver) → Option Ver → M (List SRef)) (h : Handle)
    (name : String) (kv ver : Option Ver) (s : St)
    (hq : ∃ l, qM h (name, none) (pluginArgs (name, kv) ver).2 s = (.ok l, s) ∧
      l.head? = (h.query s.c name (pluginArgs (name, kv) ver).2).head?)
    (hfirst : ∀ q, (h.query s.c name (pluginArgs (name, kv) ver).2).head? = some q →
      ∃ st tok, h.getRaw q.name (some q.ver) = some st ∧ get? s.raw st.path = some (.ds (.data tok))) :
    MetadorMeta.get qM (requireSchemaM e) h (name, kv) ver s =
      liftE ((h.get e s name (pluginArgs (name, kv) ver).2).map (Option.map fun r => (r.parsedAs, r.tok))) s := by
  generalize hv : (pluginArgs (name, kv) ver).2 = v' at hq hfirst ⊢
  have hpa : pluginArgs (name, kv) ver = (name, v') := by rw [← hv]; rfl
  obtain ⟨l, hl, hh⟩ := hq
  simp only [MetadorMeta.get, hpa, mrun, hl, hh, gen_get_raw, Handle.get, Handle.getAll, requireSchemaM]
  cases hqs : h.query s.c name v' with
  | nil => simp [liftE, Except.map]
  | cons q rest =>
    obtain ⟨st, tok, hst, hd⟩ := hfirst q (by simp [hqs])
    simp only [List.head?_cons]
    cases hr : e.requireSchema name v' with
    | error er => simp [liftE, Except.map, requireSchemaM, hr]
    | ok info =>
      simp [liftE, mrun, hst, dsRead, hd, parseStored, Except.map, requireSchemaM, hr]



/-! ### `MetadorMeta.__init__` -/

/-- what `MetadorMeta.__init__` relies on: a metadata directory holds metadata objects only -/
structure MetaDirOK (t : Tree) (base : Path) : Prop where
  keys : KeysOK t
  closed : PClosed t
  objs : ∀ k n, get? t (base ++ [k]) = some n → ∃ r u v, k = .obj r u ∧ n = .ds v

/-- one iteration of the load loop of `MetadorMeta.__init__` -/
def metaInitStep : Handle → Path → M Handle := fun h p => do
  let s ← getSt
  pyAssert (isDataset s.raw p)
  let obj ← storedFromNode p
  pure { h with objs := alSet h.objs obj.schema.name obj }

theorem metaInitStep_loop (s : St) (base : Path) : ∀ (l : List (Key × Node)) (h : Handle),
    (∀ kn ∈ l, get? s.raw (base ++ [kn.1]) = some kn.2 ∧ ∃ r u v, kn = (.obj r u, .ds v)) →
    pyFoldM (l.map fun kn => base ++ [kn.1]) h metaInitStep s
      = (.ok { h with objs := l.foldl (loadStep base) h.objs }, s)
  | [], h, _ => rfl
  | kn :: rest, h, hl => by
    obtain ⟨hg, r, u, v, rfl⟩ := hl kn (by simp)
    have hstep : metaInitStep h (base ++ [Key.obj r u]) s
        = (.ok { h with objs := alSet h.objs r.name ⟨u, r, base ++ [.obj r u]⟩ }, s) := by
      simp [metaInitStep, mrun, isDataset, hg, storedFromNode, objOfPath]
    simp only [List.map_cons, pyFoldM, mrun, hstep]
    rw [metaInitStep_loop s base rest _ (fun kn' hm => hl kn' (by simp [hm]))]
    simp [loadStep]

theorem gen_meta_init (node : Path) (s : St) (h : MetaDirOK s.raw (metaBase node (isDataset s.raw node))) :
    MetadorMeta.__init__ node s = (.ok (openHandle s node (isDataset s.raw node)), s) := by
  simp only [MetadorMeta.__init__, mrun, openHandle_eq]
  rw [pyFoldM_congr metaInitStep (by intro h p; rfl)]
  generalize hb : metaBase node (isDataset s.raw node) = base at h ⊢
  have hmem : ∀ kn ∈ children s.raw base,
      get? s.raw (base ++ [kn.1]) = some kn.2 ∧ ∃ r u v, kn = (.obj r u, .ds v) := by
    intro kn hm
    have hg := (mem_children h.keys (k := kn.1) (n := kn.2)).mp hm
    obtain ⟨r, u, v, hk, hn⟩ := h.objs kn.1 kn.2 hg
    exact ⟨hg, r, u, v, Prod.ext hk hn⟩
  cases hg : rawGet s.raw base with
  | some g =>
    have : g = base := by
      simp only [rawGet] at hg; split at hg <;> simp_all
    subst this
    simp only [groupValues]
    rw [metaInitStep_loop s g _ _ hmem]
  | none =>
    have hch : children s.raw base = [] := by
      rw [List.eq_nil_iff_forall_not_mem]
      rintro ⟨k, n⟩ hm
      have hgk := (mem_children h.keys).mp hm
      have := h.closed base k (by rw [hgk]; simp)
      have hh : has s.raw base = true := by simp [has, this]
      simp [rawGet, hh] at hg
    simp [hch, pyFoldM, mrun]

end MetadorModel.Bridge.TocFns
