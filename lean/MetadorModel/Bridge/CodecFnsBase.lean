import MetadorModel.Bridge.CodecFnsTac
import MetadorModel.Proofs.Codec
/-! Bridge (C12), `schema/base.py`: the functions regenerated from the source on every run
(`Gen/CodecFns.lean`, `harness/translate_c12.py`) equal the hand-written model functions of
`Model/CodecParsers.lean`. One theorem per source function, so that a broken proof names it. -/
set_option linter.unusedSimpArgs false
namespace MetadorModel.Bridge.CodecFns
open MetadorModel MetadorModel.Codec MetadorModel.CodecParsers MetadorModel.CodecPy

theorem hasKey_setKey_self (k : Str) (x : Json) (d : Dict) : hasKey k (setKey k x d) = true := by
  induction d with
  | nil => simp [setKey, hasKey]
  | cons p d ih =>
    obtain ⟨k', v⟩ := p
    by_cases e : k = k'
    · simp [setKey, hasKey, e]
    · have e' : (k == k') = false := by simpa using e
      simp only [setKey, e', hasKey, List.any_cons] at ih ⊢
      simp [ih]

theorem hasKey_setKey_ne (k k' : Str) (x : Json) (d : Dict) (h : k' ≠ k) : hasKey k' (setKey k x d) = hasKey k' d := by
  induction d with
  | nil =>
    have : (k == k') = false := by simpa using h.symm
    simp [setKey, hasKey, this]
  | cons p d ih =>
    obtain ⟨k2, v⟩ := p
    by_cases e : k = k2
    · subst e; simp [setKey, hasKey]
    · have e' : (k == k2) = false := by simpa using e
      simp only [setKey, e', hasKey, List.any_cons] at ih ⊢
      simp [ih]

theorem lookup_setKey_self (k : Str) (x : Json) (d : Dict) : lookup k (setKey k x d) = some x := by
  induction d with
  | nil => simp [setKey, lookup]
  | cons p d ih =>
    obtain ⟨k', v⟩ := p
    by_cases e : k = k'
    · simp [setKey, lookup, e]
    · simp [setKey, lookup, e, ih]

theorem kwRest_setKey_alias (x : Json) (d : Dict) : kwRest (setKey kByAlias x d) = kwRest d :=
  filter_setKey _ kByAlias x d (fun y => by simp)

theorem kwRest_setKey_none (x : Json) (d : Dict) : kwRest (setKey kExcludeNone x d) = kwRest d :=
  filter_setKey _ kExcludeNone x d (fun y => by simp)

theorem kwFlag_of_hasKey_false (k : Str) (d : Dict) (h : hasKey k d = false) : kwFlag k d = false := by
  simp [kwFlag, lookup_none_of_hasKey k d h]

/-- `pydantic.json(**kw)` reads `kw` only through the two flags and the remaining keywords -/
theorem pydJson_congr (L : Lib) (leaf : EncLeaf) (v : PyVal) (kw kw' : Dict)
    (h1 : dumpOpts kw' = dumpOpts kw) (h2 : kwRest kw' = kwRest kw) : pydJson L leaf v kw' = pydJson L leaf v kw := by
  simp only [pydJson, h1, h2]

/-- `_mod_def_dump_args`: `by_alias` and `exclude_none` become `True` unless given, nothing else changes, it never
raises (stated through what pydantic reads, so that the order in which the two keys are added does not matter) -/
theorem gen_mod_def_dump_args (kw : Dict) : ∃ kw', Gen.CodecFns._mod_def_dump_args kw = .ok kw' ∧
    dumpOpts kw' = dumpOpts (forcedKw kw) ∧ kwRest kw' = kwRest (forcedKw kw) := by
  have hne : kByAlias ≠ kExcludeNone := by decide
  have h1 : (['b', 'y', '_', 'a', 'l', 'i', 'a', 's'] : Str) = kByAlias := rfl
  have h2 : (['e', 'x', 'c', 'l', 'u', 'd', 'e', '_', 'n', 'o', 'n', 'e'] : Str) = kExcludeNone := rfl
  refine ⟨_, rfl, ?_, ?_⟩ <;>
  · simp only [forcedKw, h1, h2, dumpOpts]
    cases ha : hasKey kByAlias kw <;> cases hn : hasKey kExcludeNone kw <;>
      simp [ha, hn, hasKey_setKey_ne, hasKey_setKey_self, hne, hne.symm, kwRest_setKey_alias, kwRest_setKey_none, kwFlag,
        lookup_setKey_self, lookup_setKey_ne, lookup_none_of_hasKey]

/-- `BaseModelPlus.json(**kw)` is pydantic's `json` with the forced options -/
theorem gen_json (L : Lib) (leaf : EncLeaf) (v : PyVal) (kw : Dict) :
    Gen.CodecFns.BaseModelPlus.json L leaf v kw = jsonText L leaf v kw := by
  obtain ⟨kw', h0, h1, h2⟩ := gen_mod_def_dump_args kw
  simp only [Gen.CodecFns.BaseModelPlus.json, h0, jsonText, pydJson_congr L leaf v _ _ h1 h2]
  bridge_close

theorem gen_json_dict (L : Lib) (leaf : EncLeaf) (v : PyVal) (kw : Dict) :
    Gen.CodecFns.BaseModelPlus.json_dict L leaf v kw = jsonDict L leaf v kw := by
  simp only [Gen.CodecFns.BaseModelPlus.json_dict, gen_json, jsonDict, CodecPy.jsonLoads]
  bridge_close

/-- `.yaml()` ignores its keyword arguments and dumps the default JSON form -/
theorem gen_yaml (L : Lib) (leaf : EncLeaf) (v : PyVal) (kw : Dict) :
    Gen.CodecFns.BaseModelPlus.yaml L leaf v kw = yamlText L leaf v := by
  simp only [Gen.CodecFns.BaseModelPlus.yaml, gen_json, yamlText, jsonDict, toYamlStr]
  bridge_close

theorem gen_bytes (L : Lib) (leaf : EncLeaf) (v : PyVal) :
    Gen.CodecFns.BaseModelPlus.__bytes__ L leaf v = bytesOf L leaf v := by
  simp only [Gen.CodecFns.BaseModelPlus.__bytes__, gen_json, bytesOf, utf8]
  bridge_close

theorem gen_str (L : Lib) (leaf : EncLeaf) (v : PyVal) :
    Gen.CodecFns.BaseModelPlus.__str__ L leaf v = strOf L leaf v := by
  simp only [Gen.CodecFns.BaseModelPlus.__str__, gen_json, strOf]
  try bridge_close

theorem gen_parse_file (L : Lib) (t : Ty) (path : Str) :
    Gen.CodecFns.BaseModelPlus.parse_file L t path = parseFile L t path := by
  simp only [Gen.CodecFns.BaseModelPlus.parse_file, parseFile]
  try bridge_close

/-- `parse_raw`: JSON first, the YAML parser exactly after a `ValidationError`, everything else
is passed on -/
theorem gen_parse_raw (L : Lib) (t : Ty) (dat : Str) (kw : Dict) :
    Gen.CodecFns.BaseModelPlus.parse_raw L t dat kw = parseRaw L t dat kw := by
  simp only [Gen.CodecFns.BaseModelPlus.parse_raw, parseRaw]
  cases pydParseRaw L t dat kw with
  | ok v => bridge_close
  | error e => cases e <;> simp [catches, ExcName.catches] <;> bridge_close

theorem gen_config : Gen.CodecFns.BaseModelPlus.Config = baseConfig := rfl

theorem gen_metaclass_BaseModelPlus : Gen.CodecFns.BaseModelPlus.metaclass = "DynEncoderModelMetaclass" := rfl

end MetadorModel.Bridge.CodecFns
