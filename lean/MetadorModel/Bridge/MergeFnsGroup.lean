import MetadorModel.Proofs.OverlayWriteSorted
import MetadorModel.Proofs.OverlayWriteLook
import MetadorModel.Py.MergePy
/-!
# Bridge for C05, part 1: the listing of a record is the concatenation of the listings of its
top-level subtrees

`IH5Record.merge_files` copies the source key by key (`for name in source_node.keys():
h5_copy_from_to(source_node[name], target_node, name)`), the model replays the whole listing at
once (`Merge.materialise`). Both write the same sequence because the listing is sorted by
`pathLt` (a path precedes its extensions, siblings in string order) and every visible node has a
visible top-level ancestor: the entries below one top-level key are contiguous.
-/
namespace MetadorModel.Bridge.MergeFns
open MetadorModel.Tree MetadorModel.Overlay MetadorModel.Merge MetadorModel.MergePy
variable {V : Type}

theorem pathLt_total : ∀ (a b : Path), a ≠ b → pathLt a b = true ∨ pathLt b a = true
  | [], [], h => absurd rfl h
  | [], _ :: _, _ => Or.inl rfl
  | _ :: _, [], _ => Or.inr rfl
  | x :: xs, y :: ys, h => by
    simp only [pathLt]
    rcases lt_trichotomy x y with hlt | heq | hgt
    · simp [hlt]
    · subst heq
      have hne : xs ≠ ys := fun h' => h (by rw [h'])
      simpa using pathLt_total xs ys hne
    · simp [hgt]

theorem childKey_nil (q : Path) (k : Key) : childKey [] q = some k ↔ q = [k] := by
  cases q with
  | nil => simp [childKey]
  | cons a t =>
    cases t with
    | nil => simp [childKey]
    | cons b t' => simp [childKey]

theorem isPre_single (k : Key) (q : Path) : isPre [k] q = true ↔ ∃ s, q = k :: s := by
  rw [isPre_iff]; simp

section grouping
variable {β : Type}

/-- the blocks of a sorted, duplicate-free path-keyed list below its top-level keys, in order, are the
list without its root entry -/
theorem flatMap_blocks (L : List (Path × β))
    (hs : Srt pathLt (L.map (·.1))) (hn : (L.map (·.1)).Nodup)
    (htop : ∀ e ∈ L, ∀ k s, e.1 = k :: s → ∃ e' ∈ L, e'.1 = [k]) :
    (L.filterMap (fun e => childKey [] e.1)).flatMap (fun k => L.filter (fun e => isPre [k] e.1)) =
      L.filter (fun e => e.1 != []) := by
  -- strictly increasing paths
  have hS : L.Pairwise (fun a b => pathLt a.1 b.1 = true) := by
    have h1 : L.Pairwise (fun a b => pathLt b.1 a.1 = false) := by
      have := hs
      unfold Srt at this
      rwa [List.pairwise_map] at this
    have h2 : L.Pairwise (fun a b => a.1 ≠ b.1) := by
      have := hn
      unfold List.Nodup at this
      rwa [List.pairwise_map] at this
    refine (h1.and h2).imp ?_
    intro a b ⟨hab, hne⟩
    rcases pathLt_total a.1 b.1 hne with h | h
    · exact h
    · rw [h] at hab; cases hab
  have hirr : ∀ (a b : Path × β), pathLt a.1 b.1 = true → a ≠ b := by
    intro a b h hab
    subst hab
    rw [pathLt_irrefl] at h; cases h
  apply List.Perm.eq_of_pairwise (le := fun a b => pathLt a.1 b.1 = true)
  · intro a b _ _ h1 h2
    rw [pathLt_asymm _ _ h1] at h2; cases h2
  · -- the concatenation of the blocks is increasing
    rw [List.pairwise_flatMap]
    refine ⟨fun k _ => hS.sublist List.filter_sublist, ?_⟩
    rw [List.pairwise_filterMap]
    refine hS.imp ?_
    intro a b hab k1 hk1 k2 hk2 x hx y hy
    rw [childKey_nil] at hk1 hk2
    rw [hk1, hk2] at hab
    have hlt : k1 < k2 := by
      simp only [pathLt] at hab
      by_cases h : k1 < k2
      · exact h
      · by_cases h' : k1 = k2 <;> simp [h, h'] at hab
    simp only [List.mem_filter] at hx hy
    obtain ⟨s, hxs⟩ := (isPre_single k1 x.1).1 hx.2
    obtain ⟨s', hys⟩ := (isPre_single k2 y.1).1 hy.2
    rw [hxs, hys]
    simp [pathLt, hlt]
  · exact hS.sublist List.filter_sublist
  · rw [List.perm_ext_iff_of_nodup]
    · intro x
      simp only [List.mem_flatMap, List.mem_filterMap, List.mem_filter, childKey_nil, bne_iff_ne, ne_eq]
      constructor
      · rintro ⟨k, _, hx, hpre⟩
        obtain ⟨s, hs'⟩ := (isPre_single k x.1).1 hpre
        exact ⟨hx, by rw [hs']; simp⟩
      · rintro ⟨hx, hne⟩
        cases hx1 : x.1 with
        | nil => exact absurd hx1 hne
        | cons k s =>
          obtain ⟨e', he', hk⟩ := htop x hx k s hx1
          exact ⟨k, ⟨e', he', hk⟩, hx, (isPre_single k _).2 ⟨s, rfl⟩⟩
    · -- no duplicates: both sides are strictly increasing
      have : ((L.filterMap (fun e => childKey [] e.1)).flatMap (fun k => L.filter (fun e => isPre [k] e.1))).Pairwise
          (fun a b => pathLt a.1 b.1 = true) := by
        rw [List.pairwise_flatMap]
        refine ⟨fun k _ => hS.sublist List.filter_sublist, ?_⟩
        rw [List.pairwise_filterMap]
        refine hS.imp ?_
        intro a b hab k1 hk1 k2 hk2 x hx y hy
        rw [childKey_nil] at hk1 hk2
        rw [hk1, hk2] at hab
        have hlt : k1 < k2 := by
          simp only [pathLt] at hab
          by_cases h : k1 < k2
          · exact h
          · by_cases h' : k1 = k2 <;> simp [h, h'] at hab
        simp only [List.mem_filter] at hx hy
        obtain ⟨s, hxs⟩ := (isPre_single k1 x.1).1 hx.2
        obtain ⟨s', hys⟩ := (isPre_single k2 y.1).1 hy.2
        rw [hxs, hys]
        simp [pathLt, hlt]
      exact this.imp (fun {a b} h => hirr a b h)
    · exact (hS.sublist List.filter_sublist).imp (fun {a b} h => hirr a b h)
end grouping

end MetadorModel.Bridge.MergeFns
