import MetadorModel.Py.PluginPy
import MetadorModel.Proofs.Plugin
/-!
Bridge, part 0 (C16): lemmas about the Python value dictionary `Py/PluginPy.lean` alone. Nothing
generated is imported here, so this module builds whatever the source looks like.

* `Re.test_iff`: the derivative-based matcher decides the language `Re.Matches` of a pattern.
* the dictionary's string functions agree with the model's hand-written ones: `pyStrNat = natToDigits`,
  `pyInt` = `digitsToNat` on digit strings, `pySplit · "." = splitChar '.'`, `pySplit · "__" = splitUU`,
  `pySplitMax · "." 1` has more than one piece iff there is a dot.
* the dict operations on `Table` agree with `Table.get` / `Table.set`.
-/
namespace MetadorModel.Bridge.PluginGroupFns
open MetadorModel MetadorModel.Plugin MetadorModel.PluginPy

/-! ## regular expressions -/


theorem flatten_cons_iff {P : Str → Prop} (c : Char) (s : Str) :
    (∃ l : List Str, c :: s = l.flatten ∧ ∀ x ∈ l, P x) ↔
    ∃ s1 s2, s = s1 ++ s2 ∧ P (c :: s1) ∧ ∃ l : List Str, s2 = l.flatten ∧ ∀ x ∈ l, P x := by
  constructor
  · rintro ⟨l, hl, hP⟩
    induction l with
    | nil => simp at hl
    | cons x l ih =>
      cases x with
      | nil =>
        apply ih
        · simpa using hl
        · intro y hy; exact hP y (List.mem_cons_of_mem _ hy)
      | cons d x =>
        simp only [List.flatten_cons, List.cons_append, List.cons.injEq] at hl
        obtain ⟨rfl, rfl⟩ := hl
        exact ⟨x, l.flatten, rfl, hP _ (List.mem_cons_self), l, rfl,
          fun y hy => hP y (List.mem_cons_of_mem _ hy)⟩
  · rintro ⟨s1, s2, rfl, h1, l, rfl, hl⟩
    refine ⟨(c :: s1) :: l, by simp, ?_⟩
    intro x hx
    rcases List.mem_cons.mp hx with rfl | hx
    · exact h1
    · exact hl x hx

theorem Re.nullable_iff (r : Re) : r.nullable = true ↔ r.Matches [] := by
  induction r with
  | empty => simp [Re.nullable, Re.Matches]
  | eps => simp [Re.nullable, Re.Matches]
  | atom a => simp [Re.nullable, Re.Matches]
  | seq r q ihr ihq => simp [Re.nullable, Re.Matches, ihr, ihq]
  | alt r q ihr ihq => simp [Re.nullable, Re.Matches, ihr, ihq]
  | opt r ih => simp [Re.nullable, Re.Matches]
  | star r ih => simp only [Re.nullable, Re.Matches, true_iff]; exact ⟨[], rfl, by simp⟩
  | plus r ih =>
    simp only [Re.nullable, Re.Matches, ih]
    constructor
    · intro h; exact ⟨[], [], rfl, h, by simp⟩
    · rintro ⟨s1, l, h, h1, _⟩
      have : s1 = [] := by
        have := congrArg List.length h
        simp at this
        exact List.eq_nil_of_length_eq_zero (by omega)
      subst this; exact h1

theorem Re.deriv_iff (r : Re) (c : Char) (s : Str) : (r.deriv c).Matches s ↔ r.Matches (c :: s) := by
  induction r generalizing s with
  | empty => simp [Re.deriv, Re.Matches]
  | eps => simp [Re.deriv, Re.Matches]
  | atom a =>
    simp only [Re.deriv]
    split_ifs with h
    · simp [Re.Matches, h]
    · simp [Re.Matches]
      intro _; simpa using h
  | seq r q ihr ihq =>
    have key : (Re.seq r q).Matches (c :: s) ↔
        (r.Matches [] ∧ q.Matches (c :: s)) ∨
        ∃ s1 s2, s = s1 ++ s2 ∧ r.Matches (c :: s1) ∧ q.Matches s2 := by
      simp only [Re.Matches]
      constructor
      · rintro ⟨s1, s2, h, h1, h2⟩
        cases s1 with
        | nil => left; simp at h; subst h; exact ⟨h1, h2⟩
        | cons d s1 =>
          simp only [List.cons_append, List.cons.injEq] at h
          obtain ⟨rfl, rfl⟩ := h
          right; exact ⟨s1, s2, rfl, h1, h2⟩
      · rintro (⟨h1, h2⟩ | ⟨s1, s2, rfl, h1, h2⟩)
        · exact ⟨[], c :: s, rfl, h1, h2⟩
        · exact ⟨c :: s1, s2, rfl, h1, h2⟩
    rw [key]
    simp only [Re.deriv]
    split_ifs with hn
    · simp only [Re.Matches, ihr, ihq]
      rw [Re.nullable_iff] at hn
      constructor
      · rintro (h | h)
        · right; exact h
        · left; exact ⟨hn, h⟩
      · rintro (⟨_, h⟩ | h)
        · right; exact h
        · left; exact h
    · simp only [Re.Matches, ihr]
      rw [Re.nullable_iff] at hn
      constructor
      · intro h; right; exact h
      · rintro (⟨h, _⟩ | h)
        · exact absurd h hn
        · exact h
  | alt r q ihr ihq => simp [Re.deriv, Re.Matches, ihr, ihq]
  | opt r ih => simp [Re.deriv, Re.Matches, ih]
  | star r ih =>
    simp only [Re.deriv, Re.Matches, ih]
    exact (flatten_cons_iff (P := r.Matches) c s).symm
  | plus r ih =>
    simp only [Re.deriv, Re.Matches, ih]
    constructor
    · rintro ⟨s1, s2, rfl, h1, l, rfl, hl⟩
      exact ⟨c :: s1, l, rfl, h1, hl⟩
    · rintro ⟨s1, l, h, h1, hl⟩
      cases s1 with
      | nil =>
        simp only [List.nil_append] at h
        exact (flatten_cons_iff (P := r.Matches) c s).mp ⟨l, h, hl⟩
      | cons d s1 =>
        simp only [List.cons_append, List.cons.injEq] at h
        obtain ⟨rfl, rfl⟩ := h
        exact ⟨s1, l.flatten, rfl, h1, l, rfl, hl⟩

theorem Re.test_iff (r : Re) (s : Str) : r.test s = true ↔ r.Matches s := by
  induction s generalizing r with
  | nil => simp [Re.test, Re.nullable_iff]
  | cons c s ih => simp [Re.test, ih, Re.deriv_iff]



/-! ## strings -/

theorem digitChar_eq : ∀ d, d < 10 → Nat.digitChar d = digitChar d := by decide

theorem pyStrNat_eq (n : Nat) : pyStrNat n = natToDigits n := by
  unfold pyStrNat
  induction n using Nat.strong_induction_on with
  | _ n ih =>
    rw [natToDigits]
    split_ifs with h
    · rw [Nat.toDigits_of_lt_base h]
      congr 1
      exact digitChar_eq n h
    · have h1 : n = 10 * (n / 10) + n % 10 := by omega
      have h2 : n % 10 < 10 := by omega
      conv_lhs => rw [h1]
      rw [← Nat.toDigits_append_toDigits (by omega) (by omega) h2, ih (n / 10) (by omega),
        Nat.toDigits_of_lt_base h2]
      rw [digitChar_eq _ h2]

theorem pyIsAsciiDigit_eq : pyIsAsciiDigit = isDigit := by
  funext c; simp [pyIsAsciiDigit, isDigit]

theorem pyInt_eq (s : Str) :
    pyInt s = if isDigits s then .ok (digitsToNat s) else .error .unmodelled := by
  simp only [pyInt, isDigits, pyIsAsciiDigit_eq, digitsToNat]
  split_ifs <;> simp_all [Nat.mul_comm]

theorem pySplit_char (d : Char) (s cur : Str) :
    pySplitGo [d] none 0 s cur =
      match splitChar d s with
      | [] => []
      | h :: t => (cur.reverse ++ h) :: t := by
  induction s generalizing cur with
  | nil => simp [pySplitGo, splitChar]
  | cons c s ih =>
    simp only [pySplitGo, pyStartswith, splitChar, Bool.and_true, List.length_cons, List.length_nil]
    by_cases h : c = d
    · subst h
      simp only [beq_self_eq_true, if_true]
      have := ih []
      simp only [List.reverse_nil, List.nil_append] at this
      rw [show (0 + 1 - 1) = 0 from rfl, this]
      cases hs : splitChar c s with
      | nil => exact absurd hs (splitChar_ne_nil c s)
      | cons a b => simp
    · simp only [beq_iff_eq, h, if_false]
      rw [ih]
      cases hs : splitChar d s with
      | nil => exact absurd hs (splitChar_ne_nil d s)
      | cons a b => simp

theorem pySplit_dot (s : Str) : pySplit s ['.'] = splitChar '.' s := by
  unfold pySplit
  rw [pySplit_char]
  cases hs : splitChar '.' s with
  | nil => exact absurd hs (splitChar_ne_nil '.' s)
  | cons a b => simp

theorem pySplit_uu_go (s cur : Str) :
    pySplitGo ['_', '_'] none 0 s cur = splitUU s cur := by
  fun_induction splitUU s cur with
  | case1 acc => simp [pySplitGo]
  | case2 rest acc ih =>
    simp only [pySplitGo, pyStartswith, beq_self_eq_true, Bool.and_true, Bool.true_and, if_true,
      List.length_cons, List.length_nil]
    rw [ih]
  | case3 c rest acc hne ih =>
    rw [pySplitGo]
    have hs : pyStartswith (c :: rest) ['_', '_'] = false := by
      cases rest with
      | nil => simp [pyStartswith]
      | cons d rest =>
        simp only [pyStartswith, Bool.and_true]
        by_contra h
        simp at h
        exact hne _ h.1 (by rw [h.2])
    rw [hs]
    simpa using ih

theorem pySplit_uu (s : Str) : pySplit s ['_', '_'] = splitUU s [] := pySplit_uu_go s []


/-! ## more about patterns: single-character items, sequences -/

theorem matches_star_atom (a : Atom) (s : Str) :
    (Re.star (.atom a)).Matches s ↔ ∀ c ∈ s, a.ok c = true := by
  simp only [Re.Matches]
  constructor
  · rintro ⟨l, rfl, hl⟩ c hc
    simp only [List.mem_flatten] at hc
    obtain ⟨x, hx, hcx⟩ := hc
    obtain ⟨d, rfl, hd⟩ := hl x hx
    simp only [List.mem_singleton] at hcx
    subst hcx; exact hd
  · intro h
    refine ⟨s.map (fun c => [c]), ?_, ?_⟩
    · induction s with
      | nil => rfl
      | cons c s ih => simp [← ih (fun d hd => h d (List.mem_cons_of_mem _ hd))]
    · intro x hx
      simp only [List.mem_map] at hx
      obtain ⟨c, hc, rfl⟩ := hx
      exact ⟨c, rfl, h c hc⟩

theorem matches_plus_atom (a : Atom) (s : Str) :
    (Re.plus (.atom a)).Matches s ↔ s ≠ [] ∧ ∀ c ∈ s, a.ok c = true := by
  have hs := matches_star_atom a
  simp only [Re.Matches] at hs ⊢
  constructor
  · rintro ⟨s1, l, rfl, ⟨c, rfl, hc⟩, hl⟩
    refine ⟨by simp, ?_⟩
    intro d hd
    simp only [List.cons_append, List.nil_append, List.mem_cons] at hd
    rcases hd with rfl | hd
    · exact hc
    · exact (hs _).mp ⟨l, rfl, hl⟩ d hd
  · rintro ⟨hne, h⟩
    cases s with
    | nil => exact absurd rfl hne
    | cons c s =>
      obtain ⟨l, hl, hl2⟩ := (hs s).mpr (fun d hd => h d (List.mem_cons_of_mem _ hd))
      exact ⟨[c], l, by simp [hl], ⟨c, rfl, h c (List.mem_cons_self)⟩, hl2⟩

theorem matches_seqOf_cons (r r' : Re) (rs : List Re) (s : Str) :
    (Re.seqOf (r :: r' :: rs)).Matches s ↔
    ∃ s1 s2, s = s1 ++ s2 ∧ r.Matches s1 ∧ (Re.seqOf (r' :: rs)).Matches s2 := Iff.rfl

theorem matches_seqOf_append (xs ys : List Re) (hx : xs ≠ []) (hy : ys ≠ []) (s : Str) :
    (Re.seqOf (xs ++ ys)).Matches s ↔
    ∃ s1 s2, s = s1 ++ s2 ∧ (Re.seqOf xs).Matches s1 ∧ (Re.seqOf ys).Matches s2 := by
  induction xs generalizing s with
  | nil => exact absurd rfl hx
  | cons r xs ih =>
    cases xs with
    | nil =>
      cases ys with
      | nil => exact absurd rfl hy
      | cons y ys => exact Iff.rfl
    | cons r' xs =>
      have ih' := ih (by simp)
      simp only [List.cons_append] at ih' ⊢
      rw [matches_seqOf_cons]
      constructor
      · rintro ⟨s1, s2, rfl, h1, h2⟩
        obtain ⟨t1, t2, rfl, h3, h4⟩ := (ih' s2).mp h2
        exact ⟨s1 ++ t1, t2, by simp, (matches_seqOf_cons _ _ _ _).mpr ⟨s1, t1, rfl, h1, h3⟩, h4⟩
      · rintro ⟨s1, s2, rfl, h12, h4⟩
        obtain ⟨t1, t2, rfl, h1, h3⟩ := (matches_seqOf_cons _ _ _ _).mp h12
        exact ⟨t1, t2 ++ s2, by simp, h1, (ih' _).mpr ⟨t2, s2, rfl, h3, h4⟩⟩

/-! ## `self._VERSIONS` -/

theorem pyDictSet_eq (t : Table) (n : String) (l : List Ref) : pyDictSet t n l = t.set n l := by
  induction t with
  | nil => rfl
  | cons e t ih => obtain ⟨k, l'⟩ := e; simp only [pyDictSet, Table.set, ih]

theorem pyDictGet_getD (t : Table) (n : String) : (pyDictGet t n).getD [] = t.get n := by
  induction t with
  | nil => rfl
  | cons e t ih =>
    obtain ⟨k, l'⟩ := e
    simp only [pyDictGet, Table.get]
    split_ifs <;> simp_all

theorem pyOrList_get (t : Table) (n : String) : pyOrList (pyDictGet t n) [] = t.get n := by
  rw [← pyDictGet_getD]
  cases h : pyDictGet t n with
  | none => rfl
  | some l => cases l <;> simp [pyOrList]

theorem pyDictGet_set_self (t : Table) (n : String) (l : List Ref) :
    pyDictGet (pyDictSet t n l) n = some l := by
  induction t with
  | nil => simp [pyDictSet, pyDictGet]
  | cons e t ih =>
    obtain ⟨k, l'⟩ := e
    simp only [pyDictSet]
    split_ifs with h <;> simp [pyDictGet, h, ih]

theorem pyDictSet_set (t : Table) (n : String) (l l' : List Ref) :
    pyDictSet (pyDictSet t n l) n l' = pyDictSet t n l' := by
  induction t with
  | nil => simp [pyDictSet]
  | cons e t ih =>
    obtain ⟨k, l0⟩ := e
    simp only [pyDictSet]
    split_ifs with h <;> simp [pyDictSet, h, ih]

theorem pyDictSet_of_get (t : Table) (n : String) (l : List Ref) (h : pyDictGet t n = some l) :
    pyDictSet t n l = t := by
  induction t with
  | nil => simp [pyDictGet] at h
  | cons e t ih =>
    obtain ⟨k, l0⟩ := e
    simp only [pyDictGet] at h
    simp only [pyDictSet]
    split_ifs with hk
    · simp only [hk, if_true, Option.some.injEq] at h; rw [h]
    · simp only [hk] at h; rw [ih h]

end MetadorModel.Bridge.PluginGroupFns
