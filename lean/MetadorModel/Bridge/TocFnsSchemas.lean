import MetadorModel.Bridge.TocFnsPaths
/-!
# Bridge: translated `TOCSchemas` = model
-/
namespace MetadorModel.Bridge.TocFns
open MetadorModel.Container MetadorModel.CtrPy MetadorModel.Gen.TocFns

/-! ### `_update_parents_children` -/

/-- the model's two index updates as one state transition (what `schemaRegister` / `schemaUnregister` do in line) -/
def upcM (ref : SRef) : Option (List SRef) → M Unit
  | some ps => modC fun c =>
      { c with parents := (upcAdd ref c.parents c.children [] ps).1,
               children := (upcAdd ref c.parents c.children [] ps).2 }
  | none => do
    let s ← getSt
    let ps ← ofOpt .key (alGet s.c.parents ref)
    match upcRemove ref s.c.schemas s.c.parents s.c.children ps with
    | .error e => raise e
    | .ok (par, chi) => modC fun c => { c with parents := par, children := chi }

/-- one iteration of the `add` loop -/
def upcAddStep (ref : SRef) (parents : List SRef) (ip : Nat × SRef) : M Unit :=
  modC fun c =>
    let par := if (alGet c.parents ip.2).isNone then alSet c.parents ip.2 (parents.take (ip.1 + 1)) else c.parents
    let chi := if (alGet c.children ip.2).isNone then alSet c.children ip.2 [] else c.children
    let chi := if ip.2 ≠ ref then alSet chi ip.2 (setAdd ((alGet chi ip.2).getD []) ref) else chi
    { c with parents := par, children := chi }

theorem upcAddStep_loop (ref : SRef) (parents : List SRef) : ∀ (rest done : List SRef) (s : St),
    parents = done ++ rest →
    forEachM (pyEnumFrom done.length rest) (upcAddStep ref parents) s
      = (.ok (), { s with c := { s.c with parents := (upcAdd ref s.c.parents s.c.children done rest).1,
                                           children := (upcAdd ref s.c.parents s.c.children done rest).2 } })
  | [], done, s, _ => by simp [pyEnumFrom, upcAdd]
  | p :: rest, done, s, h => by
    have ht : parents.take (done.length + 1) = done ++ [p] := by
      rw [h]; simp [List.take_append, List.take_of_length_le]
    simp only [pyEnumFrom, forEachM_cons, run_bind]
    have hl : done.length + 1 = (done ++ [p]).length := by simp
    rw [hl, show upcAddStep ref parents (done.length, p) s = (.ok (), _) from rfl]
    simp only []
    rw [upcAddStep_loop ref parents rest (done ++ [p]) _ (by simp [h])]
    simp only [upcAdd, ht]

theorem gen_upc_add (ref : SRef) (ps : List SRef) :
    TOCSchemas._update_parents_children ref (some ps) = upcM ref (some ps) := by
  funext s
  simp only [TOCSchemas._update_parents_children, bind_pure_unit]
  rw [forEachM_congr (upcAddStep ref ps)]
  · have := upcAddStep_loop ref ps ps [] s (by simp)
    simp only [List.length_nil] at this
    rw [pyEnumerate, this]; rfl
  · rintro ⟨i, p⟩; funext s
    by_cases hr : p = ref
    · subst hr
      cases h1 : alGet s.c.parents p <;> cases h2 : alGet s.c.children p <;>
        simp [upcAddStep, h1, h2, run_dictGetItem, alGet_alSet_same]
    · cases h1 : alGet s.c.parents p <;> cases h2 : alGet s.c.children p <;>
        simp [upcAddStep, hr, h1, h2, run_dictGetItem, alGet_alSet_same]

/-- one iteration of the `remove` loop, as the source has it (the entries are updated in place) -/
def upcRmStep (ref : SRef) (p : SRef) : M Unit := do
  if p ≠ ref then do
    let s ← getSt
    let cs ← ofOpt .key (alGet s.c.children p)
    modC fun c => { c with children := alSet c.children p (setRemove cs ref) }
  let s ← getSt
  if p ∈ s.c.schemas then pure ()
  else do
    let cs ← ofOpt .key (alGet s.c.children p)
    if cs.all (fun ch => decide (ch ∉ s.c.schemas)) then do
      if (alGet s.c.parents p).isNone then raise .key
      modC fun c => { c with parents := alErase c.parents p, children := alErase c.children p }

/-- state with new `_parents` / `_children` -/
def setPC (s : St) (par chi : List (SRef × List SRef)) : St :=
  { s with c := { s.c with parents := par, children := chi } }

@[simp] theorem setPC_raw (s : St) (par chi) : (setPC s par chi).raw = s.raw := rfl
@[simp] theorem setPC_next (s : St) (par chi) : (setPC s par chi).next = s.next := rfl
@[simp] theorem setPC_schemas (s : St) (par chi) : (setPC s par chi).c.schemas = s.c.schemas := rfl
@[simp] theorem setPC_parents (s : St) (par chi) : (setPC s par chi).c.parents = par := rfl
@[simp] theorem setPC_children (s : St) (par chi) : (setPC s par chi).c.children = chi := rfl
@[simp] theorem setPC_setPC (s : St) (par chi par' chi') : setPC (setPC s par chi) par' chi' = setPC s par' chi' := rfl

/-- one iteration of the `remove` loop on a state in which `ref` is not registered any more -/
theorem run_upcRmStep (ref p : SRef) (s : St) (hs : ref ∉ s.c.schemas) :
    upcRmStep ref p s =
      match alGet s.c.children p with
      | none => (.error .key, s)
      | some cs =>
        let cs' := if p ≠ ref then setRemove cs ref else cs
        let chi := if p ≠ ref then alSet s.c.children p cs' else s.c.children
        if p ∈ s.c.schemas then (.ok (), setPC s s.c.parents chi)
        else if cs'.all (fun ch => decide (ch ∉ s.c.schemas)) then
          if (alGet s.c.parents p).isNone then (.error .key, setPC s s.c.parents chi)
          else (.ok (), setPC s (alErase s.c.parents p) (alErase chi p))
        else (.ok (), setPC s s.c.parents chi) := by
  by_cases hr : p = ref
  · subst hr
    cases hc : alGet s.c.children p with
    | none => simp [upcRmStep, hs, hc]
    | some cs =>
      simp only [upcRmStep, ne_eq, not_true_eq_false, if_false, run_bind, run_pure, run_getSt, hs, hc,
        run_ofOpt_some, setPC, ite_apply]
      cases hall : (cs.all fun ch => decide (ch ∉ s.c.schemas)) <;> cases hp : alGet s.c.parents p <;>
        simp [hall, hp]
  · cases hc : alGet s.c.children p with
    | none => simp [upcRmStep, hr, hc]
    | some cs =>
      by_cases hps : p ∈ s.c.schemas
      · simp [upcRmStep, hr, hc, hps, setPC]
      · simp only [upcRmStep, ne_eq, hr, not_false_eq_true, if_true, run_bind, run_pure, run_getSt, hc,
          run_ofOpt_some, run_modC, alGet_alSet_same, setPC, ite_apply, hps, if_false]
        cases hall : ((setRemove cs ref).all fun ch => decide (ch ∉ s.c.schemas)) <;> cases hp : alGet s.c.parents p <;>
          simp [hall, hp]
theorem upcRmStep_loop (ref : SRef) : ∀ (l : List SRef) (s : St), ref ∉ s.c.schemas →
    match upcRemove ref s.c.schemas s.c.parents s.c.children l with
    | .ok (par, chi) => forEachM l (upcRmStep ref) s = (.ok (), setPC s par chi)
    | .error e => ∃ s', forEachM l (upcRmStep ref) s = (.error e, s') ∧ s'.raw = s.raw ∧ s'.next = s.next
  | [], s, _ => by simp [upcRemove, setPC]
  | p :: rest, s, hs => by
    rw [forEachM_cons]
    simp only [upcRemove, run_bind, run_upcRmStep ref p s hs]
    cases hc : alGet s.c.children p with
    | none => exact ⟨s, rfl, rfl, rfl⟩
    | some cs =>
      simp only
      generalize (if p ≠ ref then setRemove cs ref else cs) = cs'
      generalize (if p ≠ ref then alSet s.c.children p cs' else s.c.children) = chi
      have key : ∀ par chi, match upcRemove ref s.c.schemas par chi rest with
          | .ok (par', chi') => forEachM rest (upcRmStep ref) (setPC s par chi) = (.ok (), setPC s par' chi')
          | .error e => ∃ s', forEachM rest (upcRmStep ref) (setPC s par chi) = (.error e, s') ∧
              s'.raw = s.raw ∧ s'.next = s.next := by
        intro par chi
        have := upcRmStep_loop ref rest (setPC s par chi) hs
        simpa using this
      by_cases hps : p ∈ s.c.schemas
      · simp only [hps, if_true]; exact key _ _
      · simp only [hps, if_false]
        by_cases hall : (cs'.all fun ch => decide (ch ∉ s.c.schemas)) = true
        · simp only [hall, if_true]
          cases hp : alGet s.c.parents p with
          | none => exact ⟨_, rfl, rfl, rfl⟩
          | some pl => simp only [Option.isNone_some, Bool.false_eq_true, if_false]; exact key _ _
        · simp only [hall, Bool.false_eq_true, if_false]; exact key _ _

/-- the `remove` branch: as `Agree` (a `KeyError` half-way leaves the entries visited so far updated) -/
theorem gen_upc_remove (ref : SRef) (s : St) (hs : ref ∉ s.c.schemas) :
    Agree (TOCSchemas._update_parents_children ref none s) (upcM ref none s) := by
  simp only [TOCSchemas._update_parents_children, upcM, bind_pure_unit, run_bind, run_getSt, run_dictGetItem]
  cases hp : alGet s.c.parents ref with
  | none => exact Agree.rfl' rfl
  | some ps =>
    simp only [run_ofOpt_some]
    rw [forEachM_congr (upcRmStep ref)]
    · have := upcRmStep_loop ref ps s hs
      revert this
      cases upcRemove ref s.c.schemas s.c.parents s.c.children ps with
      | ok r =>
        obtain ⟨par, chi⟩ := r
        intro h; dsimp only at h
        rw [h]; exact Agree.rfl' rfl
      | error e =>
        rintro ⟨s', h, hr, hn⟩
        rw [h]; exact ⟨rfl, hr, hn, fun a h => by cases h⟩
    · intro p; funext s
      by_cases hr : p = ref
      · subst hr
        by_cases hps : p ∈ s.c.schemas
        · simp [upcRmStep, hps]
        · cases hc : alGet s.c.children p <;> cases hp : alGet s.c.parents p <;>
            simp [upcRmStep, hps, hc, hp, run_dictGetItem, run_requireKey, List.all_map, Function.comp_def,
              alGet_alErase] <;> split_ifs <;> simp_all
      · cases hc : alGet s.c.children p with
        | none => simp [upcRmStep, hr, hc, run_dictGetItem]
        | some cs =>
          by_cases hps : p ∈ s.c.schemas
          · simp [upcRmStep, hr, hps, hc, run_dictGetItem]
          · cases hp : alGet s.c.parents p <;>
              simp [upcRmStep, hr, hps, hc, hp, run_dictGetItem, run_requireKey, List.all_map, Function.comp_def,
                alGet_alErase, alGet_alSet_same] <;> split_ifs <;> simp_all [alGet_alSet_same]

/-! ### `_register` -/


/-- loop body of `_register` over the providers: mark the schema as used -/
def usedAddStep (ref : SRef) (pkg : PkgId) : M Unit := do
  let s ← getSt
  let cur ← ofOpt .key (alGet s.c.used pkg)
  modC fun c => { c with used := alSet c.used pkg (setAdd cur ref) }

theorem gen_schema_register (e : Env) (ref : SRef) :
    TOCSchemas._register e upcM (fun pkg info => pkgRegister pkg info.plugins) ref = schemaRegister e ref := by
  funext s
  simp only [TOCSchemas._register, schemaRegister, bind_pure_unit, gen_jsonschema_path_for, gen_schema_path_for,
    joinKey, envGet, optAttr, envParentPath, envProvider, dictGetItem]
  by_cases hin : ref ∈ s.c.schemas
  · simp [hin]
  · cases hi : e.info ref with
    | none => simp [hin, hi]
    | some i =>
      have hir := info_ref hi
      simp only [run_bind, run_getSt, hin, decide_false, Bool.false_eq_true, if_false, hi, run_ofOpt_some,
        run_rawSetItem, run_liftRaw, hir, run_pure]
      cases h1 : rawCreate s.raw (schemaDir ref ++ [Key.jsonschema]) (Node.ds (Val.jsonschema ref)) with
      | error er => simp
      | ok t1 =>
        simp only []
        cases h2 : rawCreate t1 (schemaDir ref ++ [Key.compat]) (Node.ds (Val.compat i.parents)) with
        | error er => simp
        | ok t2 =>
          simp only [run_modC, upcM, run_getSt, run_bind, hi, run_ofOpt_some, hir, run_pure]
          by_cases hemp : ((alGet s.c.providers ref).getD []).isEmpty = true
          · simp only [hemp, if_true, run_bind, run_ofOpt_some, hi, hir, run_pure]
            rcases pkgRegister i.pkg (e.pkgPlugins i.pkg) _ with ⟨r, s'⟩
            cases r <;> rfl
          · simp only [hemp, if_false, run_pure, Bool.false_eq_true]
            rfl

/-! ### `_unregister` -/


/-! ### operations that leave a given node of the raw tree alone -/
def Keeps {α : Type} (q : Path) (m : M α) : Prop := ∀ s, get? (m s).2.raw q = get? s.raw q

theorem Keeps.pure {α : Type} (q : Path) (a : α) : Keeps q (pure a : M α) := fun _ => rfl
theorem Keeps.raise {α : Type} (q : Path) (e : Err) : Keeps q (raise e : M α) := fun _ => rfl
theorem Keeps.getSt (q : Path) : Keeps q getSt := fun _ => rfl
theorem Keeps.modC (q : Path) (f : Caches → Caches) : Keeps q (modC f) := fun _ => rfl
theorem Keeps.ofOpt {α : Type} (q : Path) (e : Err) (o : Option α) : Keeps q (ofOpt e o) := by
  intro s; cases o <;> rfl
theorem Keeps.bind {α β : Type} {q : Path} {m : M α} {f : α → M β} (hm : Keeps q m) (hf : ∀ a, Keeps q (f a)) :
    Keeps q (m >>= f) := by
  intro s
  have h1 := hm s
  simp only [run_bind]
  rcases hms : m s with ⟨r, s'⟩
  rw [hms] at h1
  cases r with
  | ok a => simp only []; rw [hf a s']; exact h1
  | error e => exact h1
theorem Keeps.ite {α : Type} {q : Path} {c : Prop} [Decidable c] {m m' : M α} (h : Keeps q m) (h' : Keeps q m') :
    Keeps q (if c then m else m') := by
  split <;> assumption
theorem Keeps.forEachM {α : Type} {q : Path} {f : α → M Unit} (hf : ∀ a, Keeps q (f a)) :
    ∀ l : List α, Keeps q (forEachM l f)
  | [] => Keeps.pure q ()
  | a :: l => by
    rw [forEachM_cons]
    exact Keeps.bind (hf a) fun _ => Keeps.forEachM hf l
theorem Keeps.liftDel {q p : Path} (hq : q ≠ []) (hu : under p q = false) : Keeps q (liftRaw fun t => rawDel t p) := by
  intro s
  simp only [run_liftRaw]
  cases h : rawDel s.raw p with
  | error e => rfl
  | ok t => simp only []; rw [rawDel_get? h q hq, hu]; simp

theorem pkgUnregister_keeps (pkg : PkgId) : Keeps schemasP (pkgUnregister pkg) := by
  unfold pkgUnregister
  refine Keeps.bind (Keeps.liftDel (by simp [schemasP]) (by simp [under, pkgPath, schemasP, List.isPrefixOf])) fun _ => ?_
  refine Keeps.bind (Keeps.getSt _) fun s => ?_
  refine Keeps.bind (Keeps.ofOpt _ _ _) fun info => ?_
  refine Keeps.bind (Keeps.modC _ _) fun _ => ?_
  refine Keeps.bind (Keeps.getSt _) fun s => ?_
  split
  · exact Keeps.raise _ _
  · refine Keeps.bind (Keeps.modC _ _) fun _ => ?_
    refine Keeps.bind (Keeps.getSt _) fun s => ?_
    exact Keeps.ite (Keeps.liftDel (by simp [schemasP]) (by simp [under, packagesP, schemasP, List.isPrefixOf])) (Keeps.pure _ _)

/-- loop body of `schemaUnregister` over the providers -/
def usedRmStep (ref : SRef) : PkgId → M Unit := fun pkg => do
  let s ← getSt
  let cur ← ofOpt .key (alGet s.c.used pkg)
  modC fun c => { c with used := alSet c.used pkg (setRemove cur ref) }
  if (setRemove cur ref).isEmpty then pkgUnregister pkg

theorem usedRmStep_keeps (ref : SRef) (pkg : PkgId) : Keeps schemasP (usedRmStep ref pkg) := by
  unfold usedRmStep
  refine Keeps.bind (Keeps.getSt _) fun s => ?_
  refine Keeps.bind (Keeps.ofOpt _ _ _) fun cur => ?_
  refine Keeps.bind (Keeps.modC _ _) fun _ => ?_
  exact Keeps.ite (pkgUnregister_keeps pkg) (Keeps.pure _ _)

theorem schemasP_after_del {t t1 : Tree} {ref : SRef} (hc : PClosed t) (h : rawDel t (schemaDir ref) = .ok t1) :
    get? t1 schemasP = some .grp := by
  obtain ⟨_, hex, _⟩ := rawDel_inv h
  have hg : get? t schemasP = some .grp := hc schemasP (.ep ref) hex
  rw [rawDel_get? h schemasP (by simp [schemasP])]
  have : under (schemaDir ref) schemasP = false := by
    simp [under, schemaDir, schemasP]
  simp [this, hg]

theorem gen_schema_unregister (ref : SRef) (s : St) (hc : PClosed s.raw) :
    TOCSchemas._unregister upcM pkgUnregister ref s = schemaUnregister ref s := by
  simp only [TOCSchemas._unregister, schemaUnregister, bind_pure_unit, gen_schema_path_for, dictGetItem]
  simp only [run_bind, run_rawDelItem, run_liftRaw]
  cases h1 : rawDel s.raw (schemaDir ref) with
  | error er => rfl
  | ok t1 =>
    simp only [run_getSt]
    by_cases hin : ref ∈ s.c.schemas
    · simp only [hin, decide_true, run_requireKey_true, not_true_eq_false, if_false, run_bind, run_modC, upcM,
        run_getSt]
      cases hp : alGet s.c.parents ref with
      | none => rfl
      | some ps =>
        simp only [run_ofOpt_some]
        cases hu : upcRemove ref (setRemove s.c.schemas ref) s.c.parents s.c.children ps with
        | error er => rfl
        | ok r =>
          obtain ⟨par, chi⟩ := r
          simp only [run_bind, run_modC, run_getSt]
          cases hpr : alGet s.c.providers ref with
          | none => rfl
          | some provs =>
            simp only [run_ofOpt_some]
            rw [forEachM_congr (usedRmStep ref)]
            · delta usedRmStep
              rcases hloop : forEachM provs _ _ with ⟨r, s4⟩
              have hk : get? s4.raw schemasP = get? t1 schemasP := by
                have := Keeps.forEachM (usedRmStep_keeps ref) provs
                  { raw := t1, c := { s.c with schemas := setRemove s.c.schemas ref, parents := par, children := chi },
                    next := s.next }
                rw [show forEachM provs (usedRmStep ref) _ = _ from hloop] at this
                exact this
              cases r with
              | error er => rfl
              | ok u =>
                have hg : get? s4.raw schemasP = some .grp := by
                  rw [hk]; exact schemasP_after_del hc h1
                simp only [run_rawRequireGroup_grp hg, run_getSt, groupKeys, List.isEmpty_map]
                rfl
            · intro pkg; funext s
              simp only [usedRmStep, run_bind, run_getSt]
              cases hu : alGet s.c.used pkg with
              | none => rfl
              | some cur =>
                by_cases hm : ref ∈ cur
                · simp [hm, run_pySetRemove]
                · simp [hm, setRemove_not_mem, alSet_same _ _ _ hu]
    · simp [hin]


/-! ### `versions`, `children`, `parent_path` -/

theorem gen_versions (name : String) (ver : Option Ver) (s : St) :
    TOCSchemas.versions name ver s = (.ok (tocVersions s.c name ver), s) := by
  cases ver <;> simp [TOCSchemas.versions, tocVersions]

theorem gen_parent_path (name : String) (v : Ver) (s : St) :
    TOCSchemas.parent_path (name, some v) none s = ofOpt .key (alGet s.c.parents ⟨name, v⟩) s := by
  simp [TOCSchemas.parent_path, pluginArgs, optValue, dictGetItem]

theorem gen_children (name : String) (kv ver : Option Ver) (s : St) (hk : (alKeys s.c.children).Nodup) :
    ∃ l, TOCSchemas.children (name, kv) ver s = (.ok l, s) ∧
      ∀ x, x ∈ l ↔ match (pluginArgs (name, kv) ver).2 with
        | some v => x ∈ tocChildren s.c ⟨name, v⟩
        | none => x ∈ tocChildrenByName s.c name := by
  simp only [TOCSchemas.children]
  cases hv : (pluginArgs (name, kv) ver).2 with
  | none =>
    refine ⟨_, rfl, fun x => ?_⟩
    simp only [mem_pyUnion, tocChildrenByName, List.mem_flatten, List.mem_map, List.mem_filter, List.mem_filterMap,
      pluginArgs, id, beq_iff_eq, decide_eq_true_eq]
    constructor
    · rintro ⟨l, ⟨o, ⟨r, ⟨⟨a, hm, rfl⟩, hn⟩, rfl⟩, ho⟩, hx⟩
      exact ⟨l, ⟨(a.1, l), ⟨(mem_iff_alGet _ hk _ _).mpr ho, hn⟩, rfl⟩, hx⟩
    · rintro ⟨l, ⟨⟨r, cs⟩, ⟨hm, hn⟩, rfl⟩, hx⟩
      exact ⟨cs, ⟨some cs, ⟨r, ⟨⟨(r, cs), hm, rfl⟩, hn⟩, (mem_iff_alGet _ hk _ _).mp hm⟩, rfl⟩, hx⟩
  | some v =>
    refine ⟨_, rfl, fun x => ?_⟩
    simp only [mem_pyUnion, tocChildren, pluginArgs]
    cases h : alGet s.c.children ⟨name, v⟩ <;> simp [h]



/-! ### `TOCSchemas.__init__` (load loop) -/

theorem alSet_absent {α β : Type} [DecidableEq α] : ∀ (l : List (α × β)) (a : α) (b : β), a ∉ alKeys l →
    alSet l a b = l ++ [(a, b)]
  | [], a, b, _ => rfl
  | (k, v) :: t, a, b, h => by
    simp only [alKeys, List.map_cons, List.mem_cons, not_or] at h
    have hk : ¬ k = a := fun e => h.1 e.symm
    simp only [alSet, hk, if_false, List.cons_append]
    rw [alSet_absent t a b h.2]

/-- the loop `for pkg in self._pkgs.keys(): self._used[pkg] = set()` -/
def usedInitStep : PkgId → M Unit := fun pkg => modC fun c => { c with used := alSet c.used pkg [] }

theorem usedInitStep_loop : ∀ (l : List PkgId) (s : St), l.Nodup → (∀ k ∈ l, k ∉ alKeys s.c.used) →
    forEachM l usedInitStep s = (.ok (), { s with c := { s.c with used := s.c.used ++ l.map fun k => (k, []) } })
  | [], s, _, _ => by simp
  | k :: l, s, hn, hf => by
    simp only [List.nodup_cons] at hn
    have hstep : usedInitStep k s = (.ok (), { s with c := { s.c with used := alSet s.c.used k [] } }) := rfl
    simp only [forEachM_cons, mrun, hstep]
    rw [usedInitStep_loop l _ hn.2]
    · simp [alSet_absent _ k _ (hf k (by simp))]
    · intro k' hk'
      simp only [alSet_absent _ k _ (hf k (by simp)), alKeys, List.map_append, List.map_cons, List.map_nil,
        List.mem_append, List.mem_singleton, not_or]
      exact ⟨hf k' (by simp [hk']), fun e => hn.1 (e ▸ hk')⟩

/-- the fold of `loadSchemas` over the providers of a schema -/
def loadUsedF (r : SRef) (u : List (PkgId × List SRef)) (pkg : PkgId) : List (PkgId × List SRef) :=
  alSet u pkg (setAdd ((alGet u pkg).getD []) r)

theorem usedAddStep_loop (r : SRef) : ∀ (l : List PkgId) (s : St), (∀ pk ∈ l, (alGet s.c.used pk).isSome) →
    forEachM l (usedAddStep r) s = (.ok (), { s with c := { s.c with used := l.foldl (loadUsedF r) s.c.used } })
  | [], s, _ => by simp
  | pk :: l, s, h => by
    obtain ⟨cur, hcur⟩ := Option.isSome_iff_exists.mp (h pk (by simp))
    have hstep : usedAddStep r pk s
        = (.ok (), { s with c := { s.c with used := alSet s.c.used pk (setAdd cur r) } }) := by
      simp [usedAddStep, mrun, hcur]
    simp only [forEachM_cons, mrun, hstep]
    rw [usedAddStep_loop r l]
    · simp [loadUsedF, hcur]
    · intro pk' hm
      simp only [alGet_alSet]
      split
      · simp
      · exact h pk' (by simp [hm])

theorem usedAddStep_fun (ref : SRef) : usedAddStep ref = (fun pkg => do
    let s ← getSt
    let cur ← ofOpt .key (alGet s.c.used pkg)
    modC fun c => { c with used := alSet c.used pkg (setAdd cur ref) }) := rfl

/-- the fold function of `loadSchemas` -/
def loadSchemaF (t : Tree) (c : Caches) (kn : Key × Node) : Caches :=
  match kn.1 with
  | .ep r =>
    match get? t (schemaDir r ++ [.compat]) with
    | some (.ds (.compat parents)) =>
      { c with schemas := setAdd c.schemas r,
               parents := (upcAdd r c.parents c.children [] parents).1,
               children := (upcAdd r c.parents c.children [] parents).2,
               used := ((alGet c.providers r).getD []).foldl (loadUsedF r) c.used }
    | _ => c
  | _ => c

theorem loadSchemas_eq (t : Tree) (pi : List (PkgId × List SRef)) (pv : List (SRef × List PkgId)) :
    loadSchemas t pi pv = (children t schemasP).foldl (loadSchemaF t)
      { pkginfos := pi, providers := pv, used := pi.map fun e => (e.1, []) } := rfl

/-- every package that provides something has a `_used` entry -/
def UsedDom (pv : List (SRef × List PkgId)) (used : List (PkgId × List SRef)) : Prop :=
  ∀ r ps pk, alGet pv r = some ps → pk ∈ ps → (alGet used pk).isSome

theorem isSome_foldl_loadUsedF (r : SRef) (pk : PkgId) : ∀ (l : List PkgId) (u : List (PkgId × List SRef)),
    (alGet u pk).isSome → (alGet (l.foldl (loadUsedF r) u) pk).isSome
  | [], u, h => h
  | a :: l, u, h => by
    apply isSome_foldl_loadUsedF r pk l
    simp only [loadUsedF, alGet_alSet]
    split <;> simp [h]

/-- one iteration of the load loop of `TOCSchemas.__init__` -/
def schemaInitStep : Key × Path → M Unit := fun kn => do
  let ep ← Key.epName kn.1
  let s ← getSt
  pyAssert (isGroup s.raw kn.2)
  let cp ← rawGetItem s.raw (joinKey kn.2 Key.compat)
  pyAssert (isDataset s.raw cp)
  let v ← dsRead s.raw cp
  let parents ← Val.jsonRefs v
  modC fun c => { c with schemas := setAdd c.schemas (_schema_ref_for ep) }
  upcM (_schema_ref_for ep) (some parents)
  let s ← getSt
  let provs ← ofOpt .key (alGet s.c.providers (_schema_ref_for ep))
  forEachM provs (usedAddStep (_schema_ref_for ep))

theorem run_schemaInitStep (t : Tree) (s : St) (r : SRef) (ps : List SRef) (provs : List PkgId) (hs : s.raw = t)
    (hg : get? t (schemaDir r) = some .grp) (hc : get? t (schemaDir r ++ [.compat]) = some (.ds (.compat ps)))
    (hp : alGet s.c.providers r = some provs) (hu : ∀ pk ∈ provs, (alGet s.c.used pk).isSome) :
    schemaInitStep (.ep r, schemasP ++ [.ep r]) s = (.ok (), { s with c := loadSchemaF t s.c (.ep r, .grp) }) := by
  have hg' : get? s.raw (schemasP ++ [Key.ep r]) = some .grp := by rw [hs]; exact hg
  have hc' : get? s.raw (joinKey (schemasP ++ [Key.ep r]) Key.compat) = some (.ds (.compat ps)) := by rw [hs]; exact hc
  have href : _schema_ref_for (r.name, r.ver) = r := rfl
  simp only [schemaInitStep, Key.epName, mrun, isGroup, hg', beq_self_eq_true, has, hc', Option.isSome_some, if_true,
    isDataset, dsRead, Val.jsonRefs, href, upcM, hp]
  rw [usedAddStep_loop r provs]
  · simp [loadSchemaF, hc, hp]
  · exact hu

/-- what `TOCSchemas.__init__` relies on (tree shape below `schemas/`, and the package caches loaded before) -/
structure SchemaInitOK (s : St) : Prop where
  keys : KeysOK s.raw
  closed : PClosed s.raw
  dir : get? s.raw schemasP = none ∨ get? s.raw schemasP = some .grp
  ep : ∀ k n, get? s.raw (schemasP ++ [k]) = some n → ∃ r, k = .ep r ∧ n = .grp
  compat : ∀ r, get? s.raw (schemaDir r) ≠ none → ∃ ps, get? s.raw (schemaDir r ++ [.compat]) = some (.ds (.compat ps))
  prov : ∀ r, get? s.raw (schemaDir r) ≠ none → (alGet s.c.providers r).isSome
  provpk : ∀ r ps pk, alGet s.c.providers r = some ps → pk ∈ ps → pk ∈ alKeys s.c.pkginfos
  pkgs_nodup : (alKeys s.c.pkginfos).Nodup

theorem loadSchemaF_keeps (t : Tree) (c : Caches) (kn : Key × Node) :
    (loadSchemaF t c kn).providers = c.providers ∧ (loadSchemaF t c kn).pkginfos = c.pkginfos ∧
      (loadSchemaF t c kn).tocPath = c.tocPath := by
  unfold loadSchemaF; split
  · split <;> simp
  · simp

theorem loadSchemaF_usedDom (t : Tree) (c : Caches) (kn : Key × Node) (pv) (h : UsedDom pv c.used) :
    UsedDom pv (loadSchemaF t c kn).used := by
  unfold loadSchemaF; split
  · split
    · intro r ps pk h1 h2; exact isSome_foldl_loadUsedF _ _ _ _ (h r ps pk h1 h2)
    · exact h
  · exact h

theorem schemaInitStep_loop (t : Tree) (hcompat : ∀ r, get? t (schemaDir r) ≠ none →
      ∃ ps, get? t (schemaDir r ++ [.compat]) = some (.ds (.compat ps)))
    (pv : List (SRef × List PkgId)) (hprov : ∀ r, get? t (schemaDir r) ≠ none → (alGet pv r).isSome) :
    ∀ (l : List (Key × Node)) (s : St), s.raw = t → s.c.providers = pv → UsedDom pv s.c.used →
    (∀ kn ∈ l, get? t (schemasP ++ [kn.1]) = some kn.2 ∧ ∃ r, kn = (.ep r, .grp)) →
    forEachM (l.map fun kn => (kn.1, schemasP ++ [kn.1])) schemaInitStep s
      = (.ok (), { s with c := l.foldl (loadSchemaF t) s.c })
  | [], s, _, _, _, _ => rfl
  | kn :: rest, s, hs, hpv, hud, h => by
    obtain ⟨hg, r, rfl⟩ := h kn (by simp)
    have hg' : get? t (schemaDir r) = some .grp := hg
    obtain ⟨ps, hps⟩ := hcompat r (by rw [hg']; simp)
    obtain ⟨provs, hprovs⟩ := Option.isSome_iff_exists.mp (hprov r (by rw [hg']; simp))
    have hp : alGet s.c.providers r = some provs := by rw [hpv]; exact hprovs
    have hstep := run_schemaInitStep t s r ps provs hs hg' hps hp (fun pk hm => hud r provs pk hprovs hm)
    simp only [List.map_cons, forEachM_cons, mrun, hstep]
    have hk := loadSchemaF_keeps t s.c (Key.ep r, Node.grp)
    rw [schemaInitStep_loop t hcompat pv hprov rest { s with c := loadSchemaF t s.c (Key.ep r, Node.grp) } hs
      (by simp [hk.1, hpv]) (loadSchemaF_usedDom t s.c _ pv hud) (fun kn' hm => h kn' (by simp [hm]))]
    simp

theorem loadSchemaF_tocPath (t : Tree) (x : List (Nat × Path)) (c : Caches) (kn : Key × Node) :
    loadSchemaF t { c with tocPath := x } kn = { loadSchemaF t c kn with tocPath := x } := by
  unfold loadSchemaF; split
  · split <;> rfl
  · rfl

theorem foldl_loadSchemaF_tocPath (t : Tree) (x : List (Nat × Path)) : ∀ (l : List (Key × Node)) (c : Caches),
    l.foldl (loadSchemaF t) { c with tocPath := x } = { l.foldl (loadSchemaF t) c with tocPath := x }
  | [], c => rfl
  | kn :: l, c => by
    simp only [List.foldl_cons, loadSchemaF_tocPath]
    exact foldl_loadSchemaF_tocPath t x l _

/-- the caches `loadSchemas` starts from -/
def schemaC0 (s : St) : Caches :=
  { pkginfos := s.c.pkginfos, providers := s.c.providers, used := s.c.pkginfos.map fun e => (e.1, []) }

/-- the state `TOCSchemas.__init__` starts its load loop from -/
def schemaInitSt (s : St) : St :=
  { s with c := { tocPath := s.c.tocPath, pkginfos := s.c.pkginfos, providers := s.c.providers,
                  used := s.c.pkginfos.map fun e => (e.1, []) } }

theorem gen_schemas_init (s : St) (h : SchemaInitOK s) :
    TOCSchemas.__init__ upcM s =
      (.ok (), { s with c := { loadSchemas s.raw s.c.pkginfos s.c.providers with tocPath := s.c.tocPath } }) := by
  simp only [TOCSchemas.__init__, mrun]
  rw [forEachM_congr usedInitStep]
  swap
  · intro _; rfl
  rw [usedInitStep_loop (s.c.pkginfos.map fun x => x.fst) _ (by simpa [alKeys] using h.pkgs_nodup) (by simp [alKeys])]
  have hs0 : ∀ x : St, x = schemaInitSt s → x.raw = s.raw ∧ x.c.providers = s.c.providers ∧
      UsedDom s.c.providers x.c.used := by
    rintro x rfl
    refine ⟨rfl, rfl, fun r ps pk h1 h2 => ?_⟩
    have hm := h.provpk r ps pk h1 h2
    simp only [schemaInitSt]
    rw [alGet_isSome_iff]
    simpa [alKeys] using hm
  have hst : ({ raw := s.raw, c := { s.c with schemas := [], parents := [], children := [], used := [] ++ (s.c.pkginfos.map fun x => x.fst).map fun k => (k, []) }, next := s.next } : St) = schemaInitSt s := by
    simp [schemaInitSt, alKeys]
  rw [hst]
  obtain ⟨hraw, hpv, hud⟩ := hs0 _ rfl
  have htarget : ∀ l : List (Key × Node),
      ({ schemaInitSt s with c := l.foldl (loadSchemaF s.raw) (schemaInitSt s).c } : St) =
      { s with c := { l.foldl (loadSchemaF s.raw) (schemaC0 s) with tocPath := s.c.tocPath } } := by
    intro l
    have := foldl_loadSchemaF_tocPath s.raw s.c.tocPath l (schemaC0 s)
    simp only [schemaInitSt]
    rw [← this]
    rfl
  rcases h.dir with hd | hd
  · have hch : children s.raw schemasP = [] := by
      rw [List.eq_nil_iff_forall_not_mem]
      rintro ⟨k, n⟩ hm
      have hgk := (mem_children h.keys).mp hm
      have hg := h.closed schemasP k (by rw [hgk]; simp)
      rw [hd] at hg; cases hg
    have hhas : has (schemaInitSt s).raw schemasP = false := by simp [has, hraw, hd]
    simp only [mrun]
    rw [if_neg (by simp [hhas])]
    simp only [mrun, loadSchemas_eq, hch, List.foldl_nil]
    rfl
  · have hhas : has (schemaInitSt s).raw schemasP = true := by simp [has, hraw, hd]
    simp only [hhas, if_true, mrun]
    rw [run_rawRequireGroup_grp (by rw [hraw]; simpa using hd)]
    simp only [mrun, groupItems]
    rw [forEachM_congr schemaInitStep]
    · rw [hraw, schemaInitStep_loop s.raw h.compat s.c.providers h.prov (children s.raw schemasP) (schemaInitSt s)
        hraw hpv hud
        (fun kn hm => by
          have hg := (mem_children h.keys (k := kn.1) (n := kn.2)).mp hm
          obtain ⟨r, hk', hn'⟩ := h.ep kn.1 kn.2 hg
          exact ⟨hg, r, Prod.ext hk' hn'⟩)]
      rw [loadSchemas_eq, htarget]; rfl
    · rintro ⟨k, n⟩
      simp only [schemaInitStep, usedAddStep_fun, dictGetItem, bind_pure_unit]

end MetadorModel.Bridge.TocFns
