import MetadorModel.Bridge.PluginGroupFnsEp
import MetadorModel.Bridge.PluginGroupFnsCmp
/-!
Bridge, part 4 (C16): the two registration paths as translated on every run
(`Gen/PluginGroupFns.lean`: `PluginGroup._add_ep`, `register_in_group` with its inner
`manual_register`) are the model's `addEp` / `registerManual` (`Model/Plugin.lean`), i.e. where they
succeed they do to the version table exactly what the C16 theorems assume of `register`
(`gen_registration_is_register`): append the reference to the list of its name, sort that list.
-/
namespace MetadorModel.Bridge.PluginGroupFns
open MetadorModel MetadorModel.Plugin MetadorModel.PluginPy

/-! The statements both registration paths share (`if name not in d: d[name] = []`,
`d[name].append(r)`, `d[name].sort()`) are the model's `register`; the `KeyError` of `d[name]` is
unreachable. Proved by cases on whether the name is in the table, with these rewrite rules. -/
section
attribute [local simp] pyDictHas pyDictGetItem pyDictGet_set_self pyDictSet_set pySort_gen register

theorem gen_add_ep (grp : String) (b : Bool) (t : Table) (e : Str) :
    Gen.PluginGroupFns.add_ep grp b t e =
      match addEp grp b t e with
      | some t' => .ok t'
      | none => .error .valueError := by
  simp only [Gen.PluginGroupFns.add_ep, addEp, pyFullMatch, gen_EP_NAME_REGEX]
  by_cases he : isEpName e = true
  · obtain ⟨n, vs, v, hs, hp, hf, hq⟩ := fromEpName_of_isEpName e he
    have hg : Gen.PluginGroupFns.from_ep_name e = .ok (n, v) := by
      rw [gen_from_ep_name, hs]; simp [hp]
    simp only [he, if_true, gen_ep_name_has_namespace, hg, hf]
    cases hd : pyDictGet t (String.ofList n) <;> cases b <;> cases hn : hasNamespace n <;>
      simp [← pyDictGet_getD, ← pyDictSet_eq, hd]
  · simp [he]

theorem gen_manual_register (grp : String) (b : Bool) (t : Table) (violently : Bool) (n : Str) (v : Ver) :
    Gen.PluginGroupFns.manual_register grp b t violently (n, v) =
      match registerManual grp t n v with
      | some t' => .ok t'
      | none => .error .typeError := by
  simp only [Gen.PluginGroupFns.manual_register, registerManual, gen_to_ep_name]
  by_cases he : isEpName (toEpName n v) = true
  · cases hd : pyDictGet t (String.ofList n) <;> simp [he, ← pyDictGet_getD, ← pyDictSet_eq, hd]
  · simp [he]

end

theorem gen_register_in_group (grp : String) (b : Bool) (t : Table) (plugin : Option (Str × Ver))
    (violently notebook pluginlike : Bool) :
    Gen.PluginGroupFns.register_in_group grp b t plugin violently notebook pluginlike =
      if !violently && !notebook then .error .runtimeError
      else match plugin with
        | none => .ok t
        | some (n, v) =>
          if pluginlike then
            (match registerManual grp t n v with
             | some t' => .ok t'
             | none => .error .typeError)
          else .error .runtimeError := by
  simp only [Gen.PluginGroupFns.register_in_group]
  rcases plugin with _ | ⟨n, v⟩ <;> cases violently <;> cases notebook <;> cases pluginlike <;>
    simp [gen_manual_register]

/-- both registration paths, where they succeed, do to the version table what the C16 theorems assume of
`register`: append the reference to the list of its name and sort -/
theorem gen_registration_is_register (grp : String) (b : Bool) (t t' : Table) :
    (∀ e, Gen.PluginGroupFns.add_ep grp b t e = .ok t' →
      ∃ n v, fromEpName e = some (n, v) ∧ t' = register t ⟨grp, String.ofList n, v⟩) ∧
    (∀ viol n v, Gen.PluginGroupFns.manual_register grp b t viol (n, v) = .ok t' →
      t' = register t ⟨grp, String.ofList n, v⟩) := by
  constructor
  · intro e h
    rw [gen_add_ep] at h
    cases ha : addEp grp b t e with
    | none => rw [ha] at h; cases h
    | some t'' =>
      rw [ha] at h
      cases h
      simp only [addEp] at ha
      split at ha
      · split at ha
        · rename_i n v hf
          split at ha
          · cases ha
          · cases ha; exact ⟨n, v, hf, rfl⟩
        · cases ha
      · cases ha
  · intro viol n v h
    rw [gen_manual_register] at h
    cases ha : registerManual grp t n v with
    | none => rw [ha] at h; cases h
    | some t'' =>
      rw [ha] at h
      cases h
      simp only [registerManual] at ha
      split at ha
      · cases ha; rfl
      · cases ha

end MetadorModel.Bridge.PluginGroupFns
