import MetadorModel.Bridge.CodecFnsBase
import MetadorModel.Bridge.CodecFnsCore
import MetadorModel.Bridge.CodecFnsMeta
import MetadorModel.Bridge.CodecFnsParser
import MetadorModel.Bridge.CodecFnsNum
import MetadorModel.Proofs.CodecParsers
/-!
# Bridge (C12): the C12 theorems, stated about the functions translated from the source

`Gen/CodecFns.lean` is regenerated from `/repo` on every `./check C12` run (`harness/translate_c12.py`). The
modules `Bridge/CodecFnsBase|Enc|Core|Meta|Parser|Num.lean` prove each generated function equal to its hand-written
model in `Model/CodecParsers.lean` (one theorem per source function). Here the property-level facts
(`Props/C12.lean`, `Proofs/CodecParsers.lean`) are transferred to the generated functions, so that they are
statements about what the source says now:

* every class created by `DynEncoderModelMetaclass`, `SchemaMagic` or `SchemaMetaclass` dumps with the dynamic
  encoder registry that `schema/types.py` fills (`gen_encoder_reaches_all_classes`, cf. F4);
* `parse_raw(o.json())`, `parse_raw(bytes(o))`, `parse_raw(o.yaml())` give `o` back (`gen_roundtrip_*`);
* the `Env` of the C12 theorems is the one the translated parser pipeline defines (`gen_env_norm`, `gen_env_crash`);
* `override_consts` leaves `decode` unchanged and `json_dict` shows the constants; `NumValue` accepts its own output.
-/
namespace MetadorModel.Bridge.CodecFns
open MetadorModel MetadorModel.Codec MetadorModel.CodecParsers MetadorModel.CodecPy MetadorModel.C12

/-- the metaclasses the source defines for schema classes -/
def schemaMetaclasses : List String := ["DynEncoderModelMetaclass", "SchemaMagic", "SchemaMetaclass"]

/-- **every class produced by the metaclass chain gets the registry** (the pinned tree failed here for
`SchemaMagic`, F4): whatever metaclass of the chain creates the class, starting from pydantic's own encoder,
`.json()` of an instance is the dump of `Model/Codec.lean` — durations, units and quantities included -/
theorem gen_encoder_reaches_all_classes (L : Lib) (m : String) (hm : m ∈ schemaMetaclasses)
    (reg : Registry) (hreg : Gen.CodecFns.registry = .ok reg) (cs : Dict) (bases : List ClsSt) (v : PyVal) :
    ∃ st, Gen.CodecFns.classInit L reg m ⟨pydanticLeaf, cs⟩ bases = .ok st ∧
      Gen.CodecFns.BaseModelPlus.json L st.jsonEncoder v [] = .ok (L.jsonDumps [] (encode v)) := by
  rw [gen_registry] at hreg
  cases hreg
  simp only [schemaMetaclasses, List.mem_cons, List.not_mem_nil, or_false] at hm
  rcases hm with rfl | rfl | rfl
  · exact ⟨_, gen_class_init_DynEncoderModelMetaclass L _ _ _, by rw [gen_json]; exact jsonText_default L v⟩
  · exact ⟨_, gen_class_init_SchemaMagic L _ _ _, by rw [gen_json]; exact jsonText_default L v⟩
  · exact ⟨_, gen_class_init_SchemaMetaclass L _ _ _, by rw [gen_json]; exact jsonText_default L v⟩

/-- the declared metaclasses of `BaseModelPlus` and `MetadataSchema` are among them -/
theorem gen_declared_metaclasses :
    Gen.CodecFns.BaseModelPlus.metaclass ∈ schemaMetaclasses ∧ Gen.CodecFns.MetadataSchema.metaclass ∈ schemaMetaclasses := by
  decide

/-- `S.parse_raw(o.json()) == o` for the translated `json` / `parse_raw` -/
theorem gen_roundtrip_json (L : Lib) (hl : TextLaws L) (t : Ty) (v : PyVal) (h : Valid (envOf L) t v) :
    ∃ s, Gen.CodecFns.BaseModelPlus.json L (classLeaf L registryModel) v [] = .ok s ∧
      Gen.CodecFns.BaseModelPlus.parse_raw L t s [] = .ok v := by
  simpa only [gen_json, gen_parse_raw] using parseRaw_own_json L hl t v h

/-- `S.parse_raw(bytes(o)) == o` -/
theorem gen_roundtrip_bytes (L : Lib) (hl : TextLaws L) (t : Ty) (v : PyVal) (h : Valid (envOf L) t v) :
    ∃ s, Gen.CodecFns.BaseModelPlus.__bytes__ L (classLeaf L registryModel) v = .ok s ∧
      Gen.CodecFns.BaseModelPlus.parse_raw L t s [] = .ok v := by
  simpa only [gen_bytes, gen_parse_raw] using parseRaw_own_bytes L hl t v h

/-- `S.parse_raw(o.yaml()) == o` -/
theorem gen_roundtrip_yaml (L : Lib) (hl : TextLaws L) (t : Ty) (v : PyVal) (h : Valid (envOf L) t v) (kw : Dict) :
    ∃ s, Gen.CodecFns.BaseModelPlus.yaml L (classLeaf L registryModel) v kw = .ok s ∧
      Gen.CodecFns.BaseModelPlus.parse_raw L t s [] = .ok v := by
  simpa only [gen_yaml, gen_parse_raw] using parseRaw_own_yaml L hl t v h

/-- `o.json_dict()` of a parsed schema instance has every constant with its constant value -/
theorem gen_json_dict_constants (L : Lib) (hl : TextLaws L) (n : Str) (ex : Extra) (fs : List Field) (cs : Dict)
    (j : Json) (v : PyVal) (hdisj : ∀ f ∈ fs, hasKey (fieldName f) cs = false)
    (h : decode (envOf L) (.model n ex fs cs) j = .ok v) :
    Gen.CodecFns.BaseModelPlus.json_dict L (classLeaf L registryModel) v [] = .ok (.obj (dumped v)) ∧
      ∀ k, hasKey k cs = true → lookup k (dumped v) = lookup k cs := by
  refine ⟨?_, constants_forced (envOf L) n ex fs cs j v hdisj h⟩
  rw [gen_json_dict, jsonDict_default L hl v]
  obtain ⟨_, fvs, xs, _, _, rfl⟩ := decode_model_shape (envOf L) n ex fs cs j v h
  rw [encode_obj]

/-- constants on input are ignored: the translated pre-validator does not change what `decode` returns -/
theorem gen_override_consts_decode (L : Lib) (n : Str) (ex : Extra) (fs : List Field) (cls : SchemaCls) (kvs : Dict)
    (hdisj : ∀ f ∈ fs, hasKey (fieldName f) cls.constants = false) :
    ∃ kvs', Gen.CodecFns.SchemaBase.override_consts cls kvs = .ok kvs' ∧
      decode (envOf L) (.model n ex fs cls.constants) (.obj kvs') = decode (envOf L) (.model n ex fs cls.constants) (.obj kvs) :=
  ⟨_, gen_override_consts cls kvs, decode_overrideConsts (envOf L) n ex fs cls.constants kvs hdisj⟩

/-- the `Env` of the C12 theorems, read off the translated parser pipeline: `norm k s` is the text of the instance
that `run_parser(Parser, field.type_, s)` returns … -/
theorem gen_env_norm (L : Lib) (k : Opq) (s : Str) :
    (envOf L).norm k s = (match Gen.CodecFns.run_parser (genParserCls L k) (.opq k) (.json (.str s)) with
      | .ok (.inst _ n) => some n
      | _ => none) := by
  rw [gen_validate_opq]; rfl

/-- … and `crash` an exception of it that pydantic does not turn into a validation error -/
theorem gen_env_crash (L : Lib) (k : Opq) (s : Str) :
    (envOf L).crash k s = (match Gen.CodecFns.run_parser (genParserCls L k) (.opq k) (.json (.str s)) with
      | .error e => !e.isValidation
      | .ok _ => false) := by
  rw [gen_validate_opq]; rfl

/-- `NumValue`: the translated parser refuses booleans (F20) and accepts its own output, giving back an equal
value (F29) -/
theorem gen_num_own_output (L : Lib) (hl : NumLaws L) (cfg : NumCfg) (q : QV) (h : GoodOut cfg q) (b : Bool) :
    Gen.CodecFns.NumValue.Parser.parse L cfg (.json (.obj (dumpQV q))) = .ok (.qv q) ∧
      Gen.CodecFns.NumValue.Parser.parse L cfg (.json (.bool b)) = .error .typeError := by
  simp only [gen_num_parse]
  exact ⟨numParse_own_output L hl cfg q h, rfl⟩

end MetadorModel.Bridge.CodecFns
