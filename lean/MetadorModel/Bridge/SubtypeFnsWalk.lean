import MetadorModel.Bridge.SubtypeFnsChecks
/-!
Bridge for `check_types` (schema/core.py), translated on every `./check C13` run into `Gen.SubtypeFns.check_types`:
a function in the state monad `SM` (the `__types_checked__` marks of all classes; the list object `_walk` shared
between the recursive calls lives on a heap of list objects), recursive on the interpreter's remaining stack (`fuel`).

  an inner call `check_types(d, _walk=walk)`  =  the model's `checkTypesF`  (marks, result; the newly marked classes are
                                                 appended to `walk` in order)                gen_check_types_inner
  the call `PGSchema.check_plugin` makes       =  the model's `loadPlugin` (a refused walk takes back every mark it set)
                                                                                              gen_check_types, gen_check_types_loadPlugin
for every iteration order of the set of undeclared overrides, under `TableOk` (acyclic table, public names, hints
nested less than `D` deep) and with `fuel ≥ D + number of unexamined classes`.
-/
namespace MetadorModel.Bridge.SubtypeFns
open MetadorModel MetadorModel.Codec MetadorModel.Subtype MetadorModel.SubtypePy

/-! ## the state monad of `check_types` -/

def run {α : Type} (m : SM α) (s : St) : Except PyErr α × St := m s

theorem SM.ext {α : Type} (m m' : SM α) (h : ∀ s, run m s = run m' s) : m = m' := funext h

@[simp] theorem run_pure {α : Type} (a : α) (s : St) : run (pure a : SM α) s = (.ok a, s) := rfl
theorem run_bind {α β : Type} (m : SM α) (f : α → SM β) (s : St) :
    run (m >>= f) s = (match run m s with
      | (.ok a, s') => run (f a) s'
      | (.error e, s') => (.error e, s')) := by
  show (bind m f) s = _
  simp only [bind, run]
  split <;> simp_all
@[simp] theorem run_throw {α : Type} (e : PyErr) (s : St) : run (SM.throw e : SM α) s = (.error e, s) := rfl
theorem run_tryCatch {α : Type} (m : SM α) (h : PyErr → SM α) (s : St) :
    run (SM.tryCatch m h) s = (match run m s with
      | (.ok a, s') => (.ok a, s')
      | (.error e, s') => run (h e) s') := by
  simp only [SM.tryCatch, run]
  split <;> simp_all
@[simp] theorem run_liftE {α : Type} (m : E α) (s : St) : run (liftE m) s = (m, s) := rfl

instance : LawfulMonad SM := LawfulMonad.mk'
  (id_map := by
    intro α x; apply SM.ext; intro s
    show run (x >>= fun a => pure (id a)) s = run x s
    rw [run_bind]; rcases h : run x s with ⟨r, s'⟩; cases r <;> simp)
  (pure_bind := by intro α β x f; apply SM.ext; intro s; rw [run_bind]; simp)
  (bind_assoc := by
    intro α β γ x f g; apply SM.ext; intro s
    simp only [run_bind]
    rcases h : run x s with ⟨r, s'⟩; cases r <;> simp)

theorem bind_pure_unit (m : SM Unit) : (m >>= fun _ => pure ()) = m := by
  apply SM.ext; intro s; rw [run_bind]; rcases h : run m s with ⟨r, s'⟩; cases r <;> simp


/-! ## what a walk leaves behind -/

/-- outcome `out` of a piece of the walk that the model describes by `res`, started with the marks `marks` and the
heap `heap`, the list object `r` being the `_walk` list: the result and the marks are the model's, the classes
newly marked (none of them was marked before) have been appended to `r` in the order of marking, no other
list object has changed -/
def WalkPost (marks : List Str) (heap : List (List PyCls)) (r : Ref) (res : List Str × Except Refusal Unit)
    (out : Except PyErr Unit × St) : Prop :=
  out.1 = ofRefusal res.2 ∧ out.2.marks = res.1 ∧
  ∃ new : List Str, res.1 = new.reverse ++ marks ∧ (∀ x ∈ new, x ∉ marks) ∧
    out.2.heap = heap.set r (heap[r]?.getD [] ++ new.map PyCls.cls)

theorem set_self {α : Type} (l : List α) (r : Nat) (x : α) (h : l[r]? = some x) : l.set r x = l := by
  apply List.ext_getElem?
  intro i
  rw [List.getElem?_set]
  split
  · rename_i hri; subst hri
    have : r < l.length := by
      rcases Nat.lt_or_ge r l.length with h' | h'
      · exact h'
      · rw [List.getElem?_eq_none_iff.mpr h'] at h; cases h
    rw [List.getElem?_eq_getElem this] at h
    simp [this, Option.some.inj h]
  · rfl

theorem WalkPost.refl (marks : List Str) (heap : List (List PyCls)) (r : Ref) :
    WalkPost marks heap r (marks, .ok ()) (.ok (), ⟨marks, heap⟩) := by
  refine ⟨rfl, rfl, [], rfl, by simp, ?_⟩
  simp only [List.map_nil, List.append_nil]
  cases h : heap[r]? with
  | none => simp [List.set_eq_of_length_le (List.getElem?_eq_none_iff.mp h)]
  | some l => simp [set_self heap r l h]


theorem WalkPost.heap_length {marks : List Str} {heap : List (List PyCls)} {r : Ref}
    {res : List Str × Except Refusal Unit} {out : Except PyErr Unit × St} (h : WalkPost marks heap r res out) :
    out.2.heap.length = heap.length := by
  obtain ⟨_, _, new, _, _, hh⟩ := h
  rw [hh, List.length_set]

theorem WalkPost.sub {marks : List Str} {heap : List (List PyCls)} {r : Ref}
    {res : List Str × Except Refusal Unit} {out : Except PyErr Unit × St} (h : WalkPost marks heap r res out) :
    ∀ b ∈ marks, b ∈ res.1 := by
  obtain ⟨_, _, new, hn, _, _⟩ := h
  intro b hb; rw [hn]; simp [hb]

theorem WalkPost.trans {marks : List Str} {heap : List (List PyCls)} {r : Ref} (hr : r < heap.length)
    {res1 res2 : List Str × Except Refusal Unit} {out1 out2 : Except PyErr Unit × St}
    (h1 : WalkPost marks heap r res1 out1) (h2 : WalkPost res1.1 out1.2.heap r res2 out2) :
    WalkPost marks heap r res2 out2 := by
  obtain ⟨_, _, new1, hn1, hd1, hh1⟩ := h1
  obtain ⟨ho2, hm2, new2, hn2, hd2, hh2⟩ := h2
  refine ⟨ho2, hm2, new1 ++ new2, ?_, ?_, ?_⟩
  · rw [hn2, hn1]; simp
  · intro x hx
    rcases List.mem_append.mp hx with hx | hx
    · exact hd1 x hx
    · intro hm; exact hd2 x hx (by rw [hn1]; simp [hm])
  · rw [hh2, hh1]
    have : (heap.set r (heap[r]?.getD [] ++ new1.map PyCls.cls))[r]? = some (heap[r]?.getD [] ++ new1.map PyCls.cls) := by
      rw [List.getElem?_set]; simp [hr]
    rw [this]
    simp [List.set_set, List.append_assoc]

def stepCls (T : Table) (fuel : Nat) (acc : List Str × Except Refusal Unit) : PyCls → List Str × Except Refusal Unit
  | .root => acc
  | .cls d => C13.ctStep T fuel acc d

theorem foldl_stepCls_error (T : Table) (fuel : Nat) (ds : List PyCls) (s : List Str) (e : Refusal) :
    List.foldl (stepCls T fuel) (s, .error e) ds = (s, .error e) := by
  induction ds with
  | nil => rfl
  | cons d ds ih => cases d <;> simpa [List.foldl, stepCls, C13.ctStep] using ih

/-- a loop over classes whose body calls `check_types` (the inner calls being described by `hcall`) is the model's
fold over the dependencies -/
theorem fold_spec (T : Table) (D fuel : Nat) (r : Ref) (call : PyCls → SM Unit)
    (hcall : ∀ d marks heap, r < heap.length → D + C13.unexamined T marks ≤ fuel →
      WalkPost marks heap r (checkTypesF T fuel marks d) (run (call (.cls d)) ⟨marks, heap⟩))
    (hroot : ∀ st, run (call .root) st = (.ok (), st)) :
    ∀ (ds : List PyCls) (F : Unit → PyCls → SM Unit) (keep : PyCls → Bool),
      (∀ it, F () it = if keep it then call it else pure ()) →
      ∀ marks heap, r < heap.length → D + C13.unexamined T marks ≤ fuel →
        WalkPost marks heap r ((ds.filter keep).foldl (stepCls T fuel) (marks, .ok ()))
          (run (List.foldlM F () ds) ⟨marks, heap⟩) := by
  intro ds F keep hF
  induction ds with
  | nil => intro marks heap _ _; exact WalkPost.refl marks heap r
  | cons it ds ih =>
    intro marks heap hr hfu
    rw [List.foldlM_cons, run_bind, hF it]
    cases hk : keep it with
    | false =>
      simp only [Bool.false_eq_true, if_false, run_pure, List.filter_cons, hk]
      exact ih marks heap hr hfu
    | true =>
      simp only [if_true, List.filter_cons, hk, List.foldl_cons]
      cases it with
      | root =>
        rw [hroot]
        exact ih marks heap hr hfu
      | cls d =>
        have h1 := hcall d marks heap hr hfu
        simp only [stepCls, C13.ctStep]
        rcases hres : checkTypesF T fuel marks d with ⟨m1, r1⟩
        rcases hout : run (call (.cls d)) ⟨marks, heap⟩ with ⟨o1, s1⟩
        rw [hres, hout] at h1
        cases r1 with
        | error e =>
          obtain ⟨e', ho⟩ : ∃ e', o1 = .error e' := by
            have := h1.1; cases e <;> exact ⟨_, this⟩
          rw [foldl_stepCls_error]
          subst ho
          exact h1
        | ok u =>
          cases u
          have ho : o1 = .ok () := h1.1
          subst ho
          have hm : s1.marks = m1 := h1.2.1
          have hlen : s1.heap.length = heap.length := h1.heap_length
          have hsub := h1.sub
          have h2 := ih m1 s1.heap (by rw [hlen]; exact hr)
            (by have := C13.unexamined_mono T marks m1 hsub; omega)
          have hs1 : s1 = ⟨m1, s1.heap⟩ := by cases s1; simp_all
          rw [hs1]
          exact WalkPost.trans hr h1 h2


theorem foldlM_nested (G : Unit → PyCls → SM Unit) (fis : List FieldInsp) :
    List.foldlM (fun (_ : Unit) (fi : FieldInsp) => List.foldlM G () (dictValues fi.schemas) >>= fun _ => pure ()) () fis
      = List.foldlM G () (fis.flatMap (fun fi => dictValues fi.schemas)) := by
  induction fis with
  | nil => rfl
  | cons fi fis ih =>
    rw [List.foldlM_cons, List.flatMap_cons, List.foldlM_append, bind_pure_unit]
    congr 1; funext u; cases u; exact ih

theorem clsFieldsF_flat (T : Table) : ∀ (fuel : Nat) (n : Str),
    (dictValues (clsFieldsF T fuel n)).flatMap (fun fi => dictValues fi.schemas) = (fieldSchemasF T fuel n).map PyCls.cls := by
  intro fuel
  induction fuel with
  | zero => intro n; rfl
  | succ fuel ih =>
    intro n
    simp only [clsFieldsF, fieldSchemasF]
    cases hf : find T n with
    | none => rfl
    | some c =>
      simp only [dictValues, List.map_append, List.flatMap_append, List.map_map, List.map_flatMap]
      congr 1
      · simp [List.flatMap_map, Function.comp_def, List.map_map]
      · cases c.parent with
        | none => rfl
        | some p => simpa [dictValues] using ih p

theorem annDepth_le_tyDepth : ∀ t : Ty, annDepth t ≤ tyDepth t
  | .ann t => by simp only [annDepth, tyDepth]; have := annDepth_le_tyDepth t; omega
  | .opt _ => by simp [annDepth]
  | .union _ => by simp [annDepth]
  | .list _ => by simp [annDepth]
  | .set _ => by simp [annDepth]
  | .lit _ => by simp [annDepth]
  | .bool => by simp [annDepth]
  | .int => by simp [annDepth]
  | .float => by simp [annDepth]
  | .str => by simp [annDepth]
  | .cstr _ => by simp [annDepth]
  | .opq _ => by simp [annDepth]
  | .model _ _ _ _ => by simp [annDepth]

/-- what the bridge of `check_types` assumes about the class table: the recursive equations of `typeHints` /
`allConsts` at every class (acyclic parent links), public field names, hints nested less than `D` deep -/
structure TableOk (T : Table) (D : Nat) : Prop where
  unfolds : ∀ n c, find T n = some c → Unfolds T n c
  pubAnn : ∀ n c, find T n = some c → ∀ x ∈ dictKeys (clsAnnotations T (.cls n)), PubName x
  pubHints : ∀ n c, find T n = some c → ∀ x ∈ dictKeys (clsTypehints T (.cls n)), PubName x
  depth : ∀ n c, find T n = some c → ∀ p ∈ typeHints T n, tyDepth p.2 < D
  dpos : 0 < D

/-- `check_allowed_types(schema); check_overrides(schema)` -/
theorem checks_spec (T : Table) (D : Nat) (hT : TableOk T D) (ord : List Str → List Str)
    (hord : ∀ l x, x ∈ ord l ↔ x ∈ l) (fuel : Nat) (hfu : D ≤ fuel) (n : Str) (c : ClassDef) (hc : find T n = some c) (s : St) :
    run (liftE (Gen.SubtypeFns.check_allowed_types T fuel (.cls n)) >>= fun _ =>
         liftE (Gen.SubtypeFns.check_overrides T ord fuel (.cls n))) s =
      (ofRefusal (match checkAllowed T c with
        | .error e => .error e
        | .ok () => checkOverrides T c), s) := by
  have h0 : 0 < fuel := by have := hT.dpos; omega
  rw [gen_check_allowed_types T fuel n c hc (hT.pubHints n c hc) (fun p hp => by have := hT.depth n c hc p hp; omega) h0,
    gen_check_overrides T ord fuel n c hc (hT.unfolds n c hc) (hT.pubAnn n c hc) hord
      (fun p hp => by have := hT.depth n c hc p hp; have := annDepth_le_tyDepth p.2; omega)]
  rw [run_bind, run_liftE]
  cases checkAllowed T c with
  | error e => cases e <;> rfl
  | ok u => cases u; rfl

theorem unmark_all (xs : List Str) (F : Unit → PyCls → SM Unit) (hF : ∀ s, F () s = setChecked s false) :
    ∀ (m : List Str) (h : List (List PyCls)),
      run (List.foldlM F () (xs.map PyCls.cls)) ⟨m, h⟩ = (.ok (), ⟨m.filter (fun x => !xs.contains x), h⟩) := by
  induction xs with
  | nil =>
    intro m h
    have : m.filter (fun _ => true) = m := List.filter_eq_self.mpr (fun _ _ => rfl)
    simp [this]
  | cons x xs ih =>
    intro m h
    rw [List.map_cons, List.foldlM_cons, run_bind, hF]
    simp only [setChecked, run]
    rw [show (List.foldlM F () (xs.map PyCls.cls)) ⟨m.filter (fun y => y != x), h⟩ = run (List.foldlM F () (xs.map PyCls.cls)) ⟨m.filter (fun y => y != x), h⟩ from rfl, ih]
    simp only [List.filter_filter]
    congr 2
    apply List.filter_congr
    intro y _
    simp only [List.contains_cons, Bool.not_or, bne, Bool.and_comm]


theorem run_getChecked (n : Str) (s : St) : run (getChecked (.cls n)) s = (.ok (s.marks.contains n), s) := rfl
theorem run_setChecked_true (n : Str) (m : List Str) (h : List (List PyCls)) (hn : m.contains n = false) :
    run (setChecked (.cls n) true) ⟨m, h⟩ = (.ok (), ⟨n :: m, h⟩) := by
  have hn' : n ∉ m := by simpa using hn
  simp [run, setChecked, hn']
theorem run_newList (m : List Str) (h : List (List PyCls)) : run newList ⟨m, h⟩ = (.ok h.length, ⟨m, h ++ [[]]⟩) := rfl
theorem run_listAppend (r : Ref) (x : PyCls) (m : List Str) (h : List (List PyCls)) (hr : r < h.length) :
    run (listAppend (some r) x) ⟨m, h⟩ = (.ok (), ⟨m, h.set r (h[r]?.getD [] ++ [x])⟩) := by
  simp [run, listAppend, List.getElem?_eq_getElem hr]
theorem run_listItems (r : Ref) (m : List Str) (h : List (List PyCls)) (hr : r < h.length) :
    run (listItems (some r)) ⟨m, h⟩ = (.ok (h[r]?.getD []), ⟨m, h⟩) := by
  simp [run, listItems, List.getElem?_eq_getElem hr]

/-- proving something about `m >>= f` from what `m` did -/
theorem run_bind_spec {α β : Type} (m : SM α) (f : α → SM β) (s : St) (Q : Except PyErr β × St → Prop)
    (h : ∀ o s', run m s = (o, s') → match o with
      | .ok a => Q (run (f a) s')
      | .error e => Q (.error e, s')) : Q (run (m >>= f) s) := by
  rw [run_bind]
  rcases hm : run m s with ⟨o, s'⟩
  have := h o s' hm
  cases o <;> simpa using this

theorem run_bind_inv {α β : Type} (m : SM α) (f : α → SM β) (s : St) (o : Except PyErr β) (s' : St)
    (h : run (m >>= f) s = (o, s')) :
    (∃ a s1, run m s = (.ok a, s1) ∧ run (f a) s1 = (o, s')) ∨ (∃ e, run m s = (.error e, s') ∧ o = .error e) := by
  rw [run_bind] at h
  rcases hm : run m s with ⟨o1, s1⟩
  rw [hm] at h
  cases o1 with
  | ok a => exact Or.inl ⟨a, s1, rfl, h⟩
  | error e =>
    simp only [Prod.mk.injEq] at h
    exact Or.inr ⟨e, by rw [h.2], h.1.symm⟩

theorem run_tryCatch_spec {α : Type} (m : SM α) (h : PyErr → SM α) (s : St) (Q : Except PyErr α × St → Prop)
    (hq : ∀ o s', run m s = (o, s') → match o with
      | .ok a => Q (.ok a, s')
      | .error e => Q (run (h e) s')) : Q (run (SM.tryCatch m h) s) := by
  rw [run_tryCatch]
  rcases hm : run m s with ⟨o, s'⟩
  have := hq o s' hm
  cases o <;> simpa using this

/-- the model's dependency list, as the two loops of `check_types` see it -/
theorem stepCls_deps (T : Table) (fuel : Nat) (n : Str) (c : ClassDef) (hf : find T n = some c)
    (acc : List Str × Except Refusal Unit) :
    List.foldl (stepCls T fuel) acc
      ((clsBases T (.cls n)).filter isSchemaClass ++
        ((fieldSchemasF T (T.length + 1) n).map PyCls.cls).filter (fun it => !(it == PyCls.cls n) && isSchemaClass it)) =
      List.foldl (C13.ctStep T fuel) acc (C13.ctDeps T c n) := by
  have hmap : ∀ (l : List Str) (a : List Str × Except Refusal Unit),
      List.foldl (stepCls T fuel) a (l.map PyCls.cls) = List.foldl (C13.ctStep T fuel) a l := by
    intro l
    induction l with
    | nil => intro a; rfl
    | cons d l ih => intro a; simp only [List.map_cons, List.foldl_cons, stepCls, ih]
  have hfil : ((fieldSchemasF T (T.length + 1) n).map PyCls.cls).filter (fun it => !(it == PyCls.cls n) && isSchemaClass it) =
      ((fieldSchemasF T (T.length + 1) n).filter (fun s => s != n)).map PyCls.cls := by
    rw [List.filter_map]
    congr 1
    apply List.filter_congr
    intro x _
    simp [isSchemaClass, bne]
  rw [List.foldl_append, hfil, hmap, C13.ctDeps, List.foldl_append]
  congr 1
  simp only [clsBases, hf]
  cases c.parent with
  | none => rfl
  | some p => rfl

theorem WalkPost.with_result {marks : List Str} {heap : List (List PyCls)} {r : Ref}
    {res : List Str × Except Refusal Unit} {o : Except PyErr Unit} {s : St} (h : WalkPost marks heap r res (o, s))
    (x : Except Refusal Unit) : WalkPost marks heap r (res.1, x) (ofRefusal x, s) :=
  ⟨rfl, h.2.1, h.2.2⟩

theorem WalkPost.err_inv {marks : List Str} {heap : List (List PyCls)} {r : Ref}
    {res : List Str × Except Refusal Unit} {e : PyErr} {s : St} (h : WalkPost marks heap r res (.error e, s)) :
    ∃ e', res = (res.1, .error e') := by
  rcases res with ⟨m, r2⟩
  cases r2 with
  | error e' => exact ⟨e', rfl⟩
  | ok u => have := h.1; cases u; simp [ofRefusal] at this

theorem WalkPost.ok_inv {marks : List Str} {heap : List (List PyCls)} {r : Ref}
    {res : List Str × Except Refusal Unit} {a : Unit} {s : St} (h : WalkPost marks heap r res (.ok a, s)) :
    res = (res.1, .ok ()) := by
  rcases res with ⟨m, r2⟩
  cases r2 with
  | error e' => have := h.1; cases e' <;> simp [ofRefusal] at this
  | ok u => rfl

theorem WalkPost.state {marks : List Str} {heap : List (List PyCls)} {r : Ref}
    {res : List Str × Except Refusal Unit} {o : Except PyErr Unit} {s : St} (h : WalkPost marks heap r res (o, s)) :
    s = ⟨res.1, s.heap⟩ := by
  have := h.2.1
  cases s; simp_all

/-- `loadPlugin` with the fuel as a parameter (`loadPlugin T = loadPluginF T (2 * T.length + 2)`) -/
def loadPluginF (T : Table) (fuel : Nat) (marks : List Str) (n : Str) : List Str × Except Refusal Unit :=
  let r := checkTypesF T fuel marks n
  match r.2 with
  | .error e => (marks, .error e)
  | .ok () => (r.1, .ok ())

theorem loadPlugin_eq (T : Table) : loadPlugin T = loadPluginF T (2 * T.length + 2) := rfl

/-- the contract of one call `check_types(n, _walk=w)` -/
def CallSpec (T : Table) (fuel : Nat) (w : Option Ref) (marks : List Str) (heap : List (List PyCls)) (n : Str)
    (out : Except PyErr Unit × St) : Prop :=
  match w with
  | some r => WalkPost marks heap r (checkTypesF T fuel marks n) out
  | none => out.1 = ofRefusal (loadPluginF T fuel marks n).2 ∧ out.2.marks = (loadPluginF T fuel marks n).1 ∧
      ∃ hs, out.2.heap = heap ++ hs

theorem walk_step (T : Table) (D : Nat) (hT : TableOk T D) (ord : List Str → List Str)
    (hord : ∀ l x, x ∈ ord l ↔ x ∈ l) (fuel : Nat)
    (hcall : ∀ r d marks heap, r < heap.length → D + C13.unexamined T marks ≤ fuel →
      WalkPost marks heap r (checkTypesF T fuel marks d)
        (run (Gen.SubtypeFns.check_types T ord fuel (.cls d) false (some r)) ⟨marks, heap⟩))
    (hroot0 : 0 < fuel → ∀ r st, run (Gen.SubtypeFns.check_types T ord fuel .root false (some r)) st = (.ok (), st)) :
    ∀ (w : Option Ref) (marks : List Str) (heap : List (List PyCls)) (n : Str),
      (∀ r, w = some r → r < heap.length) → D + C13.unexamined T marks ≤ fuel + 1 →
      CallSpec T (fuel + 1) w marks heap n
        (run (Gen.SubtypeFns.check_types T ord (fuel + 1) (.cls n) false w) ⟨marks, heap⟩) := by
  intro w marks heap n hw hfu
  simp only [Gen.SubtypeFns.check_types]
  rw [run_bind, run_getChecked]
  simp only [Bool.not_false, Bool.and_true]
  -- the class is marked, or no class of the table: nothing happens
  have hnothing : checkTypesF T (fuel + 1) marks n = (marks, .ok ()) →
      CallSpec T (fuel + 1) w marks heap n (.ok (), ⟨marks, heap⟩) := by
    intro hm
    cases w with
    | some r => simp only [CallSpec, hm]; exact WalkPost.refl marks heap r
    | none =>
      simp only [CallSpec, loadPluginF, hm]
      refine ⟨?_, ?_, [], ?_⟩ <;> simp [ofRefusal]
  cases hc : marks.contains n with
  | true =>
    simp only [Bool.or_true, if_true, run_pure]
    exact hnothing (C13.checkTypesF_seen T fuel marks n hc)
  | false =>
    cases hf : find T n with
    | none =>
      simp only [isMetadataSchema, hf, Option.isNone_none, Bool.true_or, if_true, run_pure]
      exact hnothing (C13.checkTypesF_unknown T fuel marks n hc hf)
    | some c =>
      simp only [isMetadataSchema, hf, Option.isNone_some, Bool.or_false, Bool.false_eq_true, if_false]
      have hnm : n ∉ marks := by simpa using hc
      -- the `_walk` list
      obtain ⟨r, heap1, hjv, hr1, hw1⟩ : ∃ r heap1,
          run (if w.isNone = true then newList >>= fun t2 => pure (some t2) else pure w) ⟨marks, heap⟩ =
            (.ok (some r), ⟨marks, heap1⟩) ∧ r < heap1.length ∧
          (match w with
            | some r' => r = r' ∧ heap1 = heap
            | none => r = heap.length ∧ heap1 = heap ++ [[]]) := by
        cases w with
        | some r' => exact ⟨r', heap, rfl, hw r' rfl, rfl, rfl⟩
        | none =>
          refine ⟨heap.length, heap ++ [[]], ?_, by simp, rfl, rfl⟩
          simp only [Option.isNone_none, if_true]
          rw [run_bind, run_newList]
          rfl
      rw [run_bind, hjv]
      simp only []
      rw [run_bind, run_setChecked_true n marks heap1 hc]
      simp only []
      rw [run_bind, run_listAppend r _ _ _ hr1]
      simp only []
      rw [bind_pure_unit]
      generalize hheap2 : heap1.set r (heap1[r]?.getD [] ++ [PyCls.cls n]) = heap2
      have hr2 : r < heap2.length := by rw [← hheap2, List.length_set]; exact hr1
      have hfu2 : D + C13.unexamined T (n :: marks) ≤ fuel := by
        have := C13.unexamined_lt T marks n c hnm hf; omega
      have hfuD : D ≤ fuel := by omega
      have hroot := hroot0 (by have := hT.dpos; omega)
      -- the model side
      let chk : Except Refusal Unit → Except Refusal Unit := fun r2 =>
        match r2 with
        | .error e => .error e
        | .ok () => (match checkAllowed T c with
          | .error e => .error e
          | .ok () => checkOverrides T c)
      generalize hRdef : List.foldl (C13.ctStep T fuel) (n :: marks, .ok ()) (C13.ctDeps T c n) = R
      have hres : checkTypesF T (fuel + 1) marks n = (R.1, chk R.2) := by
        rw [C13.checkTypesF_succ T fuel marks n c hc hf, hRdef]
        rcases R with ⟨R1, R2⟩
        cases R2 with
        | error e => rfl
        | ok u => cases u; simp only [chk]; cases checkAllowed T c <;> rfl
      apply run_tryCatch_spec
      intro oB sB hB
      have hkey : WalkPost (n :: marks) heap2 r (R.1, chk R.2) (oB, sB) := by
        rw [← hRdef, ← stepCls_deps T fuel n c hf, List.foldl_append]
        generalize hl2 : ((fieldSchemasF T (T.length + 1) n).map PyCls.cls).filter
          (fun it => !(it == PyCls.cls n) && isSchemaClass it) = l2
        -- first loop: the bases
        rcases run_bind_inv _ _ _ _ _ hB with ⟨a1, s1, h1, hB2⟩ | ⟨e1, h1, rfl⟩
        · have p1 : WalkPost (n :: marks) heap2 r
              (List.foldl (stepCls T fuel) (n :: marks, .ok ()) ((clsBases T (.cls n)).filter isSchemaClass)) (.ok a1, s1) := by
            rw [← h1]
            exact fold_spec T D fuel r (fun it => Gen.SubtypeFns.check_types T ord fuel it false (some r)) (hcall r) (hroot r)
              _ _ isSchemaClass (by intro it; simp only [bind_pure_unit]) _ _ hr2 hfu2
          generalize hR1 : List.foldl (stepCls T fuel) (n :: marks, .ok ()) ((clsBases T (.cls n)).filter isSchemaClass) = R1 at p1 ⊢
          rw [p1.ok_inv]
          have hs1 := p1.state
          have hr1' : r < s1.heap.length := by rw [p1.heap_length]; exact hr2
          have hfu1 : D + C13.unexamined T R1.1 ≤ fuel := by
            have := C13.unexamined_mono T (n :: marks) R1.1 p1.sub; omega
          -- second loop: the schemas nested in the fields
          rw [foldlM_nested] at hB2
          have hflat : (dictValues (clsFields T (.cls n))).flatMap (fun fi => dictValues fi.schemas) =
              (fieldSchemasF T (T.length + 1) n).map PyCls.cls := clsFieldsF_flat T (T.length + 1) n
          rw [hflat, hs1] at hB2
          rcases run_bind_inv _ _ _ _ _ hB2 with ⟨a2, s2, h2, hB3⟩ | ⟨e2, h2, rfl⟩
          · have p2 : WalkPost R1.1 s1.heap r (List.foldl (stepCls T fuel) (R1.1, .ok ()) l2) (.ok a2, s2) := by
              rw [← h2, ← hl2]
              exact fold_spec T D fuel r (fun it => Gen.SubtypeFns.check_types T ord fuel it false (some r)) (hcall r) (hroot r)
                _ _ (fun it => !(it == PyCls.cls n) && isSchemaClass it) (by intro it; simp only [bind_pure_unit]) _ _ hr1' hfu1
            have p12 := WalkPost.trans hr2 p1 p2
            generalize List.foldl (stepCls T fuel) (R1.1, .ok ()) l2 = R2 at p12 ⊢
            simp only [bind_pure_unit] at hB3
            rw [checks_spec T D hT ord hord fuel hfuD n c hf] at hB3
            have hoB : oB = _ := (Prod.mk.inj hB3).1.symm
            have hsB : sB = s2 := (Prod.mk.inj hB3).2.symm
            rw [hoB, hsB, p12.ok_inv]
            exact p12.with_result _
          · have p2 : WalkPost R1.1 s1.heap r (List.foldl (stepCls T fuel) (R1.1, .ok ()) l2) (.error e2, sB) := by
              rw [← h2, ← hl2]
              exact fold_spec T D fuel r (fun it => Gen.SubtypeFns.check_types T ord fuel it false (some r)) (hcall r) (hroot r)
                _ _ (fun it => !(it == PyCls.cls n) && isSchemaClass it) (by intro it; simp only [bind_pure_unit]) _ _ hr1' hfu1
            have p12 := WalkPost.trans hr2 p1 p2
            generalize List.foldl (stepCls T fuel) (R1.1, .ok ()) l2 = R2 at p12 ⊢
            obtain ⟨e', he'⟩ := p12.err_inv
            rw [he'] at p12 ⊢
            exact p12
        · have p1 : WalkPost (n :: marks) heap2 r
              (List.foldl (stepCls T fuel) (n :: marks, .ok ()) ((clsBases T (.cls n)).filter isSchemaClass)) (.error e1, sB) := by
            rw [← h1]
            exact fold_spec T D fuel r (fun it => Gen.SubtypeFns.check_types T ord fuel it false (some r)) (hcall r) (hroot r)
              _ _ isSchemaClass (by intro it; simp only [bind_pure_unit]) _ _ hr2 hfu2
          generalize List.foldl (stepCls T fuel) (n :: marks, .ok ()) ((clsBases T (.cls n)).filter isSchemaClass) = R1 at p1 ⊢
          obtain ⟨e', he'⟩ := p1.err_inv
          rw [he', foldl_stepCls_error]
          rw [he'] at p1
          exact p1
      obtain ⟨hk1, hk2, new', hk3, hk4, hk5⟩ := hkey
      simp only [] at hk1 hk2 hk3 hk5
      have hnew : ∀ x ∈ n :: new', x ∉ marks := by
        intro x hx hm
        rcases List.mem_cons.mp hx with rfl | hx
        · exact hnm hm
        · exact hk4 x hx (List.mem_cons_of_mem _ hm)
      have hR1 : R.1 = (n :: new').reverse ++ marks := by rw [hk3]; simp
      have hheapF : sB.heap = heap1.set r (heap1[r]?.getD [] ++ (n :: new').map PyCls.cls) := by
        rw [hk5, ← hheap2]
        have : (heap1.set r (heap1[r]?.getD [] ++ [PyCls.cls n]))[r]? = some (heap1[r]?.getD [] ++ [PyCls.cls n]) := by
          rw [List.getElem?_set]; simp [hr1]
        rw [this]
        simp [List.set_set]
      have hsB : sB = ⟨R.1, sB.heap⟩ := by cases sB; simp_all
      cases w with
      | some r' =>
        obtain ⟨rfl, rfl⟩ := hw1
        have hpost : WalkPost marks heap1 r (checkTypesF T (fuel + 1) marks n) (oB, sB) := by
          rw [hres]
          exact ⟨hk1, hk2, n :: new', hR1, hnew, hheapF⟩
        cases oB with
        | ok a => exact hpost
        | error e =>
          simp only [Option.isNone_some, Bool.false_eq_true, if_false]
          rw [run_bind, run_pure]
          exact hpost
      | none =>
        obtain ⟨rfl, rfl⟩ := hw1
        have hheapN : sB.heap = heap ++ [(n :: new').map PyCls.cls] := by
          rw [hheapF]
          simp
        cases oB with
        | ok a =>
          have hchk : chk R.2 = .ok () := by
            cases h : chk R.2 with
            | ok u => rfl
            | error e => rw [h] at hk1; cases e <;> simp [ofRefusal] at hk1
          have hlp : loadPluginF T (fuel + 1) marks n = (R.1, .ok ()) := by simp only [loadPluginF, hres, hchk]
          simp only [CallSpec]
          refine ⟨?_, ?_, _, hheapN⟩
          · rw [hlp]; rfl
          · rw [hlp]; exact hk2
        | error e =>
          obtain ⟨e', hchk⟩ : ∃ e', chk R.2 = .error e' := by
            cases h : chk R.2 with
            | ok u => rw [h] at hk1; cases u; simp [ofRefusal] at hk1
            | error e' => exact ⟨e', rfl⟩
          simp only [Option.isNone_none, if_true]
          rw [run_bind, run_bind, hsB, run_listItems _ _ _ (by rw [hheapN]; simp)]
          simp only []
          have hitems : sB.heap[heap.length]?.getD [] = (n :: new').map PyCls.cls := by
            rw [hheapN]; simp
          rw [hitems, run_bind, unmark_all (n :: new') _ (by intro s; simp only [bind_pure_unit])]
          simp only [run_pure, run_throw]
          have hfilter : R.1.filter (fun x => !(n :: new').contains x) = marks := by
            rw [hR1, List.filter_append]
            have h1 : (n :: new').reverse.filter (fun x => !(n :: new').contains x) = [] := by
              apply List.filter_eq_nil_iff.mpr
              intro x hx
              simp only [List.mem_reverse] at hx
              simp [hx]
            have h2 : marks.filter (fun x => !(n :: new').contains x) = marks := by
              apply List.filter_eq_self.mpr
              intro x hx
              have : x ∉ n :: new' := fun hmem => hnew x hmem hx
              simpa using this
            rw [h1, h2]; rfl
          rw [hfilter]
          have hlp : loadPluginF T (fuel + 1) marks n = (marks, .error e') := by simp only [loadPluginF, hres, hchk]
          simp only [CallSpec]
          rw [hchk] at hk1
          refine ⟨?_, ?_, _, hheapN⟩
          · rw [hlp]; exact hk1
          · rw [hlp]


theorem run_check_types_root (T : Table) (ord : List Str → List Str) (fuel : Nat) (h : 0 < fuel) (w : Option Ref) (st : St) :
    run (Gen.SubtypeFns.check_types T ord fuel .root false w) st = (.ok (), st) := by
  obtain ⟨f, rfl⟩ : ∃ f, fuel = f + 1 := ⟨fuel - 1, by omega⟩
  simp only [Gen.SubtypeFns.check_types]
  rw [run_bind]
  simp [run, getChecked, isMetadataSchema]
  rfl

/-- an inner call `check_types(d, _walk=walk)` is the model's `checkTypesF` -/
theorem gen_check_types_inner (T : Table) (D : Nat) (hT : TableOk T D) (ord : List Str → List Str)
    (hord : ∀ l x, x ∈ ord l ↔ x ∈ l) :
    ∀ (fuel : Nat) (r : Ref) (d : Str) (marks : List Str) (heap : List (List PyCls)),
      r < heap.length → D + C13.unexamined T marks ≤ fuel →
      WalkPost marks heap r (checkTypesF T fuel marks d)
        (run (Gen.SubtypeFns.check_types T ord fuel (.cls d) false (some r)) ⟨marks, heap⟩) := by
  intro fuel
  induction fuel with
  | zero => intro r d marks heap _ h; have := hT.dpos; omega
  | succ fuel ih =>
    intro r d marks heap hr hfu
    exact walk_step T D hT ord hord fuel ih (fun h r st => run_check_types_root T ord fuel h (some r) st)
      (some r) marks heap d (fun r' h => by cases h; exact hr) hfu

/-- **`check_types` as `PGSchema.check_plugin` calls it** (no `recheck`, no `_walk`): outcome and marks afterwards are
the model's `loadPluginF` - in particular a refused walk leaves the marks as they were -, for every iteration order
of sets, with enough interpreter stack (`fuel`) for the classes not yet examined plus the nesting of the hints -/
theorem gen_check_types (T : Table) (D : Nat) (hT : TableOk T D) (ord : List Str → List Str)
    (hord : ∀ l x, x ∈ ord l ↔ x ∈ l) (fuel : Nat) (marks : List Str) (heap : List (List PyCls)) (n : Str)
    (hfu : D + C13.unexamined T marks ≤ fuel) :
    (run (Gen.SubtypeFns.check_types T ord fuel (.cls n) false none) ⟨marks, heap⟩).1 = ofRefusal (loadPluginF T fuel marks n).2 ∧
    (run (Gen.SubtypeFns.check_types T ord fuel (.cls n) false none) ⟨marks, heap⟩).2.marks = (loadPluginF T fuel marks n).1 := by
  obtain ⟨f, rfl⟩ : ∃ f, fuel = f + 1 := ⟨fuel - 1, by have := hT.dpos; omega⟩
  have h := walk_step T D hT ord hord f (gen_check_types_inner T D hT ord hord f)
    (fun h r st => run_check_types_root T ord f h (some r) st) none marks heap n (by intro r h; cases h) hfu
  exact ⟨h.1, h.2.1⟩


/-! ## the model's walk does not depend on the fuel once it exceeds the number of unexamined classes -/

theorem foldl_ctStep_stable (T : Table) (fuel : Nat)
    (ih : ∀ marks n, C13.unexamined T marks < fuel → checkTypesF T (fuel + 1) marks n = checkTypesF T fuel marks n) :
    ∀ (ds : List Str) (acc : List Str × Except Refusal Unit), C13.unexamined T acc.1 < fuel →
      List.foldl (C13.ctStep T (fuel + 1)) acc ds = List.foldl (C13.ctStep T fuel) acc ds := by
  intro ds
  induction ds with
  | nil => intro acc _; rfl
  | cons d ds ihd =>
    intro acc hacc
    simp only [List.foldl_cons]
    have hstep : C13.ctStep T (fuel + 1) acc d = C13.ctStep T fuel acc d := by
      unfold C13.ctStep
      split
      · rfl
      · exact ih acc.1 d hacc
    rw [hstep]
    apply ihd
    have hm : ∀ b ∈ acc.1, b ∈ (C13.ctStep T fuel acc d).1 := by
      intro b hb
      unfold C13.ctStep
      split
      · exact hb
      · exact C13.checkTypesF_mono T fuel acc.1 d b hb
    have := C13.unexamined_mono T acc.1 (C13.ctStep T fuel acc d).1 hm
    omega

theorem checkTypesF_stable (T : Table) : ∀ (fuel : Nat) (marks : List Str) (n : Str),
    C13.unexamined T marks < fuel → checkTypesF T (fuel + 1) marks n = checkTypesF T fuel marks n := by
  intro fuel
  induction fuel with
  | zero => intro marks n h; omega
  | succ fuel ih =>
    intro marks n h
    cases hc : marks.contains n with
    | true => rw [C13.checkTypesF_seen T (fuel + 1) marks n hc, C13.checkTypesF_seen T fuel marks n hc]
    | false =>
      cases hf : find T n with
      | none => rw [C13.checkTypesF_unknown T (fuel + 1) marks n hc hf, C13.checkTypesF_unknown T fuel marks n hc hf]
      | some c =>
        have hnm : n ∉ marks := by simpa using hc
        have hlt := C13.unexamined_lt T marks n c hnm hf
        rw [C13.checkTypesF_succ T (fuel + 1) marks n c hc hf, C13.checkTypesF_succ T fuel marks n c hc hf,
          foldl_ctStep_stable T fuel ih _ _ (by simp only []; omega)]

theorem checkTypesF_stable_le (T : Table) (fuel : Nat) (marks : List Str) (n : Str) (h : C13.unexamined T marks < fuel) :
    ∀ k, checkTypesF T (fuel + k) marks n = checkTypesF T fuel marks n := by
  intro k
  induction k with
  | zero => rfl
  | succ k ih => rw [← Nat.add_assoc, checkTypesF_stable T (fuel + k) marks n (by omega), ih]

theorem loadPluginF_eq_loadPlugin (T : Table) (fuel : Nat) (marks : List Str) (n : Str) (h : C13.unexamined T marks < fuel) :
    loadPluginF T fuel marks n = loadPlugin T marks n := by
  have hL := C13.unexamined_le T marks
  have h1 : checkTypesF T (fuel + (2 * T.length + 2)) marks n = checkTypesF T fuel marks n :=
    checkTypesF_stable_le T fuel marks n h _
  have h2 : checkTypesF T ((2 * T.length + 2) + fuel) marks n = checkTypesF T (2 * T.length + 2) marks n :=
    checkTypesF_stable_le T (2 * T.length + 2) marks n (by omega) _
  rw [Nat.add_comm] at h2
  have h3 : checkTypesF T fuel marks n = checkTypesF T (2 * T.length + 2) marks n := h1.symm.trans h2
  unfold loadPluginF loadPlugin
  simp only [h3]
  rcases checkTypesF T (2 * T.length + 2) marks n with ⟨a, b⟩
  cases b with
  | error e => rfl
  | ok u => cases u; rfl

/-- **`check_types(n)` of the source is the model's `loadPlugin`** (the function the load-order theorems
`refused_stays_refused`, `loads_examine_every_ancestor` … of `Props/C13.lean` are about) -/
theorem gen_check_types_loadPlugin (T : Table) (D : Nat) (hT : TableOk T D) (ord : List Str → List Str)
    (hord : ∀ l x, x ∈ ord l ↔ x ∈ l) (fuel : Nat) (marks : List Str) (heap : List (List PyCls)) (n : Str)
    (hfu : D + C13.unexamined T marks ≤ fuel) :
    (run (Gen.SubtypeFns.check_types T ord fuel (.cls n) false none) ⟨marks, heap⟩).1 = ofRefusal (loadPlugin T marks n).2 ∧
    (run (Gen.SubtypeFns.check_types T ord fuel (.cls n) false none) ⟨marks, heap⟩).2.marks = (loadPlugin T marks n).1 := by
  rw [← loadPluginF_eq_loadPlugin T fuel marks n (by have := hT.dpos; omega)]
  exact gen_check_types T D hT ord hord fuel marks heap n hfu

/-! ## non-vacuity -/

theorem pub_f : PubName "f".toList := ⟨'f', [], rfl, by decide⟩

/-- the hypotheses of the `check_types` bridge hold for a concrete three-level table with a widened field -/
theorem tableOk_tblDecl : TableOk C13.tblDecl 2 := by
  have hcases : ∀ n c, find C13.tblDecl n = some c →
      (n = "Ga".toList ∨ n = "Pa".toList ∨ n = "Ch".toList) := by
    intro n c h
    have hm := List.mem_of_find?_eq_some h
    have hn := C13.find_name _ n c h
    simp only [C13.tblDecl, List.mem_cons, List.mem_nil_iff, or_false] at hm
    rcases hm with rfl | rfl | rfl <;> simp [← hn]
  refine ⟨?_, ?_, ?_, ?_, by omega⟩
  · intro n c h
    rcases hcases n c h with rfl | rfl | rfl <;>
      (have hc : some c = _ := h.symm.trans rfl
       cases Option.some.inj hc
       exact ⟨rfl, rfl⟩)
  · intro n c h x hx
    rcases hcases n c h with rfl | rfl | rfl <;>
      (have : x = "f".toList := by simpa [clsAnnotations, C13.tblDecl, find, dictKeys, dictUpdate, hintsOf, anyOf, ownHints] using hx
       rw [this]; exact pub_f)
  · intro n c h x hx
    rcases hcases n c h with rfl | rfl | rfl <;>
      (have : x = "f".toList := by
         have hx' : x ∈ dictKeys (clsTypehints C13.tblDecl (.cls _)) := hx
         revert hx'; decide +revert
       rw [this]; exact pub_f)
  · intro n c h p hp
    rcases hcases n c h with rfl | rfl | rfl
    · have ht : typeHints C13.tblDecl "Ga".toList = [("f".toList, .int)] := rfl
      rw [ht] at hp; simp at hp; subst hp; simp [tyDepth]
    · have ht : typeHints C13.tblDecl "Pa".toList = [("f".toList, .str)] := rfl
      rw [ht] at hp; simp at hp; subst hp; simp [tyDepth]
    · have ht : typeHints C13.tblDecl "Ch".toList = [("f".toList, .opt .str)] := rfl
      rw [ht] at hp; simp at hp; subst hp; simp [tyDepth]

/-- non-vacuity of `gen_check_types_loadPlugin`: on that table the translated `check_types`, started without marks,
refuses the leaf class with a `TypeError` and leaves no mark behind - whatever order sets are iterated in -/
example (ord : List Str → List Str) (hord : ∀ l x, x ∈ ord l ↔ x ∈ l) (heap : List (List PyCls)) :
    (run (Gen.SubtypeFns.check_types C13.tblDecl ord 5 (.cls "Ch".toList) false none) ⟨[], heap⟩).1 = .error .typeError ∧
    (run (Gen.SubtypeFns.check_types C13.tblDecl ord 5 (.cls "Ch".toList) false none) ⟨[], heap⟩).2.marks = [] := by
  have h := gen_check_types_loadPlugin C13.tblDecl 2 tableOk_tblDecl ord hord 5 [] heap "Ch".toList (by decide)
  have hl : loadPlugin C13.tblDecl [] "Ch".toList = ([], .error .typeError) := rfl
  rw [hl] at h
  exact h

end MetadorModel.Bridge.SubtypeFns
