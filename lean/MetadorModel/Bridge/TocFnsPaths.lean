import MetadorModel.Gen.TocFns
import MetadorModel.Bridge.TocFnsBase
/-!
# Bridge: the translated path helpers (`_pkginfo_path_for`, `_schema_path_for`, `_jsonschema_path_for`,
`_link_path_for`, `_ep_name_for`, `_schema_ref_for`, `StoredMetadata.to_path`) = the model's path conventions
-/
namespace MetadorModel.Bridge.TocFns
open MetadorModel.Container MetadorModel.CtrPy MetadorModel.Gen.TocFns

/-! ### path helpers -/
theorem gen_pkginfo_path_for (n : String) (v : Ver) : TOCPackages._pkginfo_path_for n v = pkgPath ⟨n, v⟩ := by
  simp [TOCPackages._pkginfo_path_for, joinEp, pkgPath, packagesP]
theorem gen_pkginfo_path_for' (p : PkgId) : TOCPackages._pkginfo_path_for p.name p.ver = pkgPath p :=
  gen_pkginfo_path_for p.name p.ver
theorem gen_schema_path_for (r : SRef) : TOCSchemas._schema_path_for r = schemaDir r := by
  simp [TOCSchemas._schema_path_for, joinEp, schemaDir, schemasP, packagesP]
theorem gen_jsonschema_path_for (r : SRef) : TOCSchemas._jsonschema_path_for r = schemaDir r ++ [.jsonschema] := by
  simp [TOCSchemas._jsonschema_path_for, gen_schema_path_for, joinKey]
theorem gen_link_path_for (r : SRef) : TOCLinks._link_path_for r = linkDir r := by
  simp [TOCLinks._link_path_for, _ep_name_for, joinEp, linkDir, linksP, packagesP]
theorem gen_ep_name_for (r : SRef) : _ep_name_for r = (r.name, r.ver) := rfl
theorem gen_schema_ref_for (x : EpName) : _schema_ref_for x = ⟨x.1, x.2⟩ := rfl
theorem gen_to_path (st : Stored) :
    StoredMetadata.to_path st = st.path.dropLast ++ [.obj st.schema st.uuid] := by
  simp [StoredMetadata.to_path, joinObj]

end MetadorModel.Bridge.TocFns
