import MetadorModel.Gen.PluginRef
import MetadorModel.Proofs.Plugin
/-!
Bridge between the Lean text generated from `PluginRef` in /repo (`Gen/PluginRef.lean`,
regenerated on every run) and the hand-written model the C16 theorems are about.
A change of `__eq__`, `__ge__`, `supports` or `__hash__` changes the generated definitions
and these equalities have to be re-proved.
-/
namespace MetadorModel.Bridge.PluginRef
open MetadorModel

theorem gen_eq (a b : Plugin.Ref) : Gen.PluginRef.eq a b = some (Plugin.eq a b) := by
  simp [Gen.PluginRef.eq, Plugin.eq]

theorem gen_ge (a b : Plugin.Ref) : Gen.PluginRef.ge a b = some (Plugin.ge a b) := by
  simp only [Gen.PluginRef.ge, Plugin.ge]
  split_ifs <;> simp_all

theorem gen_supports (a b : Plugin.Ref) :
    Gen.PluginRef.supports a b = some (Plugin.supports a b) := by
  simp only [Gen.PluginRef.supports, Plugin.supports]
  split_ifs <;> simp_all

theorem gen_hashKey (a : Plugin.Ref) : Gen.PluginRef.hashKey a = Plugin.hashKey a := rfl

/-- the class defines exactly `__eq__` and `__ge__` and is decorated with
`functools.total_ordering`, so `<`, `<=`, `>` are the derived `_lt_from_ge`, `_le_from_ge`,
`_gt_from_ge` modelled by `Plugin.ltFrom/leFrom/gtFrom`. -/
theorem gen_cmp_ops : Gen.PluginRef.definedCmpOps = ["__eq__", "__ge__"] ∧
    Gen.PluginRef.totalOrderingDecorated = true := by decide

end MetadorModel.Bridge.PluginRef
