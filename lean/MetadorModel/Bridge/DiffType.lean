import MetadorModel.Gen.Diff
import MetadorModel.Bridge.DiffBase
/-! Bridge (C18): the generated `DiffNode._type / prev_type / curr_type` equal the model's `objType`.
Re-checked on every run against `Gen/Diff.lean` (regenerated from /repo by `harness/translate_c18.py`). -/
set_option linter.unusedSimpArgs false
namespace MetadorModel.Bridge.Diff
open MetadorModel MetadorModel.Diff MetadorModel.DiffPy

theorem gen_type (self : DNode) (e : Option DirTree) : Gen.Diff._type self e = .ok (objType e) := by
  unfold Gen.Diff._type
  rcases e with _ | ⟨s⟩ | ⟨es⟩
  · simp [isDict, truthy, objType]
  · simp only [isDict, truthy, objType, strFind, Bool.false_eq_true, if_false, ok_bind, pure_eq_ok, pyFind_eq_zero]
    by_cases h : s = ""
    · simp only [h, bne_self_eq_false, Bool.false_eq_true, if_false, if_true]
    · have : (s != "") = true := by simpa using h
      simp only [this, if_true, h, if_false]
      split_ifs <;> rfl
  · simp [isDict, objType]

theorem gen_prev_curr_type (d : DNode) :
    Gen.Diff.prev_type d = .ok (objType d.prev) ∧ Gen.Diff.curr_type d = .ok (objType d.curr) := by
  simp [Gen.Diff.prev_type, Gen.Diff.curr_type, gen_type]

end MetadorModel.Bridge.Diff
