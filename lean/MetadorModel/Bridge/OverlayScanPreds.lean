import MetadorModel.Gen.OverlayScan
import MetadorModel.Proofs.OverlayPy
/-! Bridge theorems for `SUBST_KEY`, `_node_is_virtual`, `_node_is_del_mark`, `_guard_open`, `_get_child_raw`
(first part of `Bridge/OverlayScan.lean`, which explains the set-up; separate modules so that a broken
proof is attributed to the function group that changed). -/
set_option linter.unusedSimpArgs false
namespace MetadorModel.Bridge.OverlayScan
open MetadorModel MetadorModel.Tree MetadorModel.Overlay MetadorModel.OverlayPy
open MetadorModel.Gen.OverlayScan

variable {V : Type}

/-! ## constants and predicates -/

theorem gen_SUBST_KEY : SUBST_KEY = substKey := rfl

/-- `_node_is_virtual`: a group object without the SUBST attribute -/
theorem gen_node_is_virtual_obj (o : PyObj V) :
    _node_is_virtual o = .ok (match o with | .group _ _ s _ => !s | _ => false) := by
  cases o <;>
    simp [_node_is_virtual, pyIsInstance, pyGetAttrs, pyIn, gen_SUBST_KEY, bind, Except.bind, pure, Except.pure]

/-- `_node_is_virtual` on a raw node is the model's `RKind.isVirtual` -/
theorem gen_node_is_virtual (f : Cont V) (p : Path) (n : RNode V) :
    _node_is_virtual (PyObj.ofNode f p n) = .ok n.kind.isVirtual := by
  rw [gen_node_is_virtual_obj]
  cases h : n.kind <;> simp [PyObj.ofNode, h, RKind.isVirtual]

/-- `_node_is_del_mark`: a dataset whose content is the marker, or the marker value itself -/
theorem gen_node_is_del_mark_obj (o : PyObj V) :
    _node_is_del_mark o = .ok (match o with | .dataset none _ => true | .value none => true | _ => false) := by
  cases o with
  | dataset c a => cases c <;>
      simp [_node_is_del_mark, pyIsInstance, pyGetItemUnit, pyIsDelMark, bind, Except.bind, pure, Except.pure]
  | value v => cases v <;>
      simp [_node_is_del_mark, pyIsInstance, pyGetItemUnit, pyIsDelMark, bind, Except.bind, pure, Except.pure]
  | _ => simp [_node_is_del_mark, pyIsInstance, pyGetItemUnit, pyIsDelMark, bind, Except.bind, pure, Except.pure]

/-- `_node_is_del_mark` on a raw node is the model's `RKind.isDel` -/
theorem gen_node_is_del_mark (f : Cont V) (p : Path) (n : RNode V) :
    _node_is_del_mark (PyObj.ofNode f p n) = .ok n.kind.isDel := by
  rw [gen_node_is_del_mark_obj]
  cases h : n.kind <;> simp [PyObj.ofNode, h, RKind.isDel]

/-- on an attribute value: never virtual; deleted iff it is the marker (`none` in the model) -/
theorem gen_attr_value_preds (v : Option V) :
    _node_is_virtual (PyObj.value v) = .ok false ∧ _node_is_del_mark (PyObj.value v) = .ok v.isNone := by
  constructor
  · rw [gen_node_is_virtual_obj]
  · rw [gen_node_is_del_mark_obj]; cases v <;> rfl

/-! ## `_guard_open`, `_get_child_raw` -/

theorem gen_guard_open (self : PySelf V) (h : self.files ≠ []) : _guard_open self = .ok () := by
  cases hf : self.files with
  | nil => exact absurd hf h
  | cons a l =>
    simp [_guard_open, __bool__, hf, pyTruthyList, pyFileOpen, bind, Except.bind, pure, Except.pure]

theorem gen_guard_open_closed (self : PySelf V) (h : self.files = []) : _guard_open self = .error .keyError := by
  simp [_guard_open, __bool__, h, pyTruthyList, bind, Except.bind, pure, Except.pure]

/-- `_get_child_raw` of a group node: the raw node at `gpath/key` of container `i` -/
theorem gen_get_child_raw (self : PySelf V) (hattr : self.isAttrs = false) (k : Key) (i : Nat)
    (f : Cont V) (hf : self.files[i]? = some f) :
    _get_child_raw self k (i : Int) = pyFileGet f (self.gpath ++ [k]) := by
  simp only [_get_child_raw, hattr, pyListGet_nat, hf, pyAbsKey, bind, Except.bind, pure, Except.pure]
  cases pyFileGet f (self.gpath ++ [k]) <;> rfl

end MetadorModel.Bridge.OverlayScan
