import MetadorModel.Gen.ChainCheck
import MetadorModel.Proofs.Chain
/-!
# Bridge (C04): the translated `_ublock`, `ih5_uuid`, `_check_ublock` are the model's `checkUB`

`Gen/ChainCheck.lean` is regenerated from `src/metador_core/ih5/record.py` and `manifest.py` on every
run by `harness/translate_c04.py`. The theorems below say that what the source says *now* is what
`Model/Chain.lean` says: the generated function, applied to the values the dictionary
(`Py/ChainPy.lean`) assigns to the Python arguments, returns the model's result, a `ValueError` of the
source being the model's `Err` of the same message (`liftE`). In particular none of the
interpreter's own exceptions (`IndexError`, `AttributeError` on `None`) can occur: the guards of the
source (`if prev is not None`, `prev is None or ubext is None or …`) really protect the accesses behind
them, although the translation knows nothing about such narrowing.

`self` is the record, i.e. its sorted non-empty file list `b :: rest`; `self.ih5_uuid` is then
`b.ub.rid`, the model's `rid0`. `filename` and `ub` are one container and *its* user block
(`_open` passes `files[i].filename`, `_ublock(i)`), hence `f` and `f.ub`.
-/
namespace MetadorModel.Bridge.ChainCheck
open MetadorModel.Chain MetadorModel.ChainPy MetadorModel.Gen.ChainCheck

variable {P M : Type} (H : P → Digest) (HM : M → Digest)

/-- a result of the model seen through the dictionary: `Err e` is the `ValueError` listed for `e` -/
def liftE {α : Type} (x : Except Err α) : Except PyErr α := x.mapError PyErr.err

@[simp] theorem liftE_ok {α : Type} (a : α) : liftE (.ok a : Except Err α) = .ok a := rfl
@[simp] theorem liftE_error {α : Type} (e : Err) : liftE (.error e : Except Err α) = .error (.err e) := rfl
theorem liftE_bind {α β : Type} (x : Except Err α) (f : α → Except Err β) :
    liftE (x >>= f) = liftE x >>= fun a => liftE (f a) := by
  cases x <;> rfl

/-- the class of the record ↦ the model's `mfAware` -/
def mfAwareOf : Cls → Bool
  | .IH5Record => false
  | .IH5MFRecord => true

/-- `USER_BLOCK_SIZE` is the 1024 the model's `H` (hash of everything after the user block) and the
harness (`chn_common.UB`) assume -/
theorem gen_user_block_size : USER_BLOCK_SIZE = 1024 := rfl

theorem pyIdx_nat {α : Type} (xs : List α) (k : Nat) (x : α) (h : xs[k]? = some x) :
    pyIdx xs (k : Int) = .ok x := by
  have : ¬ ((k : Int) < 0) := by omega
  simp [pyIdx, this, h]

theorem pyIdx_zero_cons {α : Type} (b : α) (rest : List α) : pyIdx (b :: rest) 0 = .ok b :=
  pyIdx_nat (b :: rest) 0 b rfl

/-- `_ublock(f)` for an `h5py.File`: its user block -/
theorem gen_ublock_file (self : List (File P M)) (f : File P M) :
    IH5Record._ublock_file H HM self f = f.ub := rfl

/-- `_ublock(i)` for an `int`: the user block of `__files__[i]` -/
theorem gen_ublock_int (self : List (File P M)) (i : Int) :
    IH5Record._ublock_int H HM self i = (pyIdx self i).map (fun f => f.ub) := by
  unfold IH5Record._ublock_int
  cases pyIdx self i <;> rfl

/-- `ih5_uuid`: the record uuid of the first container -/
theorem gen_ih5_uuid (b : File P M) (rest : List (File P M)) :
    IH5Record.ih5_uuid H HM (b :: rest) = .ok b.ub.rid := by
  unfold IH5Record.ih5_uuid
  rw [gen_ublock_int, pyIdx_zero_cons]; rfl

/-- `IH5Record._check_ublock` = `checkUB` (class `IH5Record`) -/
theorem gen_check_ublock (b : File P M) (rest : List (File P M)) (f : File P M) (prev : Option UB) (ch : Bool) :
    IH5Record._check_ublock H HM (b :: rest) f f.ub prev ch = liftE (checkUB H false b.ub.rid f prev ch) := by
  unfold IH5Record._check_ublock checkUB liftE
  rw [gen_ih5_uuid]
  rcases f with ⟨⟨rid, idx, pid, pv, hs, ext⟩, payload, ok, mf⟩
  by_cases h1 : rid = b.ub.rid
  · cases prev <;> cases hs <;> cases pv <;> cases ch <;>
      simp [h1, pyNotNone, Except.mapError, bind, Except.bind, pure, Except.pure, throw, throwThe, MonadExceptOf.throw]
    all_goals (split_ifs <;> rfl)
  · simp [h1, Except.mapError, bind, Except.bind, throw, throwThe, MonadExceptOf.throw]

/-- `IH5MFRecord._check_ublock` = `checkUB` (class `IH5MFRecord`: plus "only the base may be a stub") -/
theorem gen_check_ublock_mf (b : File P M) (rest : List (File P M)) (f : File P M) (prev : Option UB) (ch : Bool) :
    IH5MFRecord._check_ublock H HM (b :: rest) f f.ub prev ch = liftE (checkUB H true b.ub.rid f prev ch) := by
  unfold IH5MFRecord._check_ublock
  rw [gen_check_ublock]
  unfold checkUB liftE
  rcases f with ⟨⟨rid, idx, pid, pv, hs, ext⟩, payload, ok, mf⟩
  by_cases h1 : rid = b.ub.rid
  · cases prev <;> cases hs <;> cases pv <;> cases ch <;> cases ext <;>
      simp [h1, pyNotNone, Except.mapError, bind, Except.bind, pure, Except.pure, throw, throwThe, MonadExceptOf.throw]
    all_goals (split_ifs <;> rfl)
  · simp [h1, Except.mapError, bind, Except.bind, throw, throwThe, MonadExceptOf.throw]

/-- `ret._check_ublock(…)` dispatched on the class of `ret` -/
theorem gen_dispatch_check_ublock (cls : Cls) (b : File P M) (rest : List (File P M)) (f : File P M)
    (prev : Option UB) (ch : Bool) :
    dispatch_check_ublock H HM cls (b :: rest) f f.ub prev ch
      = liftE (checkUB H (mfAwareOf cls) b.ub.rid f prev ch) := by
  cases cls
  · exact gen_check_ublock H HM b rest f prev ch
  · exact gen_check_ublock_mf H HM b rest f prev ch

end MetadorModel.Bridge.ChainCheck
