import MetadorModel.Gen.Diff
import MetadorModel.Bridge.DiffBase
/-! Bridge (C18): the generated `DiffNode.status` equals the model's `Rec.status`. -/
set_option linter.unusedSimpArgs false
namespace MetadorModel.Bridge.Diff
open MetadorModel MetadorModel.Diff MetadorModel.DiffPy

theorem gen_status (d : DNode) : Gen.Diff.status d = .ok (DNode.rec' d).status := by
  obtain ⟨p, pv, cv, rm, md, ad⟩ := d
  cases pv <;> cases cv <;> simp [Gen.Diff.status, DNode.rec', Rec.status, DNode.prev, DNode.curr, DNode.path]

end MetadorModel.Bridge.Diff
