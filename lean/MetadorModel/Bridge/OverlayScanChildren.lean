import MetadorModel.Bridge.OverlayScanPreds
/-! Bridge theorems for `IH5InnerNode._children` (second part of `Bridge/OverlayScan.lean`, which explains
the set-up). -/
set_option linter.unusedSimpArgs false
namespace MetadorModel.Bridge.OverlayScan
open MetadorModel MetadorModel.Tree MetadorModel.Overlay MetadorModel.OverlayPy
open MetadorModel.Gen.OverlayScan

variable {V : Type}

/-! ## `_children`: the inner loop -/

theorem gen_children_loop2 (self : PySelf V) (hattr : self.isAttrs = false) (i : Nat)
    (f : Cont V) (hf : self.files[i]? = some f) (st : St) (k : Key) (n : RNode V)
    (hn : aget (self.gpath ++ [k]) f = some n) (hd : Dom st) :
    ∃ st', _children.loop2 self (i : Int) st k = .ok st' ∧ Dom st' ∧
      slot k st' = stepSlot (slot k st) (i : Int) n.kind.isVirtual ∧
      ∀ k', k' ≠ k → slot k' st' = slot k' st := by
  obtain ⟨ch, iv⟩ := st
  have hraw : _get_child_raw self k (i : Int) = .ok (PyObj.ofNode f (self.gpath ++ [k]) n) := by
    rw [gen_get_child_raw self hattr k i f hf]; simp [pyFileGet, hn]
  have hsame := hd.same k
  cases hc : aget k ch with
  | none =>
    have hv : aget k iv = none := by simp_all
    refine ⟨(aput k (i : Int) ch, aput k n.kind.isVirtual iv), ?_, hd.set_both _ _ _ _ _, ?_, ?_⟩
    · simp [_children.loop2, pyDictIn, pyDictSet, hc, hraw, gen_node_is_virtual, bind, Except.bind, pure, Except.pure]
    · rw [slot_set_both]; simp [slot, hc, stepSlot]
    · intro k' hk'; rw [slot_set_both]; simp [hk']
  | some j =>
    have hv : ∃ b, aget k iv = some b := by
      cases h : aget k iv with
      | none => simp_all
      | some b => exact ⟨b, rfl⟩
    obtain ⟨b, hb⟩ := hv
    cases b with
    | false =>
      refine ⟨(ch, iv), ?_, hd, ?_, fun _ _ => rfl⟩
      · simp [_children.loop2, pyDictIn, pyDictGet, hc, hb, bind, Except.bind, pure, Except.pure]
      · simp [slot, hc, hb, stepSlot]
    | true =>
      refine ⟨(aput k (min j (i : Int)) ch, aput k n.kind.isVirtual iv), ?_, hd.set_both _ _ _ _ _, ?_, ?_⟩
      · simp [_children.loop2, pyDictIn, pyDictGet, pyDictSet, hc, hb, hraw, gen_node_is_virtual, bind, Except.bind,
          pure, Except.pure]
      · rw [slot_set_both]; simp [slot, hc, hb, stepSlot]
      · intro k' hk'; rw [slot_set_both]; simp [hk']

/-! ## `_children`: one container -/

/-- the body of the outer loop at container `i` (file `f`): per key one `stepSlot` where the file
has the child. Needs what every HDF5 file satisfies (`WF.parent`) and that `gpath` is a group
wherever it occurs. -/
theorem gen_children_loop1 (self : PySelf V) (hattr : self.isAttrs = false) (i : Nat)
    (f : Cont V) (hf : self.files[i]? = some f) (hwf : WF f)
    (hgrp : ∀ n, aget self.gpath f = some n → n.kind.isGroup = true)
    (st : St) (hd : Dom st) :
    ∃ st', _children.loop1 self st (i : Int) = .ok st' ∧ Dom st' ∧
      ∀ k, slot k st' = match aget (self.gpath ++ [k]) f with
        | none => slot k st
        | some n => stepSlot (slot k st) (i : Int) n.kind.isVirtual := by
  obtain ⟨ch, iv⟩ := st
  cases hg : aget self.gpath f with
  | none =>
    refine ⟨(ch, iv), ?_, hd, ?_⟩
    · simp [_children.loop1, pyListGet_nat, hf, pyFileIn, hg, bind, Except.bind, pure, Except.pure]
    · intro k
      cases hk : aget (self.gpath ++ [k]) f with
      | none => rfl
      | some n =>
        obtain ⟨m, hm, _⟩ := hwf.parent self.gpath k (by simp [hk])
        rw [hg] at hm; cases hm
  | some gn =>
    have hgk := hgrp gn hg
    -- the inner loop
    have hinner := pyFor_keys (_children.loop2 self (i : Int))
      (fun k s => match aget (self.gpath ++ [k]) f with
        | none => s
        | some n => stepSlot s (i : Int) n.kind.isVirtual)
      (childKeys f self.gpath) (nodup_childKeys _ _)
      (by
        intro st k hk hd
        rw [mem_childKeys] at hk
        cases hn : aget (self.gpath ++ [k]) f with
        | none => simp [hn] at hk
        | some n =>
          obtain ⟨st', h1, h2, h3, h4⟩ := gen_children_loop2 self hattr i f hf st k n hn hd
          exact ⟨st', h1, h2, by simp [h3], h4⟩)
      (ch, iv) hd
    obtain ⟨st', h1, h2, h3⟩ := hinner
    refine ⟨st', ?_, h2, ?_⟩
    · have hobj : ∃ s a, PyObj.ofNode f self.gpath gn = PyObj.group f self.gpath s a := by
        cases hk : gn.kind <;> simp_all [PyObj.ofNode, RKind.isGroup]
      obtain ⟨s, a, hobj⟩ := hobj
      obtain ⟨c1, i1⟩ := st'
      simp [_children.loop1, pyListGet_nat, hf, pyFileIn, pyFileGet, hg, hattr, hobj, pyIsInstance, pyKeys, h1,
        bind, Except.bind, pure, Except.pure]
    · intro k
      rw [h3 k]
      by_cases hk : k ∈ childKeys f self.gpath
      · simp [hk]
      · simp only [hk, ↓reduceIte]
        rw [mem_childKeys] at hk
        cases hn : aget (self.gpath ++ [k]) f with
        | none => rfl
        | some n => simp [hn] at hk

/-! ## `_children`: the dictionary it returns, looked up at one key, is `Overlay.child` -/

/-- `gpath` is a group in every container with index `≥ c` that has it (true for the node `look`
arrives at, see `grpFrom_of_scan`; the code asserts it, l. 270) -/
def GrpFrom (r : Rec V) (g : Path) (c : Nat) : Prop :=
  ∀ (i : Nat) f, c ≤ i → r.reverse[i]? = some f → ∀ n, aget g f = some n → n.kind.isGroup = true

theorem gen_children_self (self : PySelf V) (hattr : self.isAttrs = false) (r : Rec V)
    (hr : self.files = r.reverse) (hne : r ≠ []) (hwf : ∀ p ∈ r, WF p) (c : Nat) (hc : self.cidx = (c : Int))
    (hgrp : GrpFrom r self.gpath c) :
    ∃ d, _children self = .ok d ∧
      ∀ k, aget k d = (child r (self.gpath ++ [k]) c).map (fun x => (x.1 : Int)) := by
  have hfiles : self.files ≠ [] := by simp [hr, hne]
  -- the loop over the containers
  obtain ⟨st', h1, hd', hs⟩ := pyFor_range self.files (_children.loop1 self) self.gpath c
    (by
      intro st i f hf hci hd
      have hmem : f ∈ r := by
        have := List.mem_of_getElem? hf
        simpa [hr] using this
      exact gen_children_loop1 self hattr i f hf (hwf f hmem) (hgrp i f hci (hr ▸ hf)) st hd)
    self.files.length (Nat.le_refl _) ([], []) Dom.init
  have hs' : ∀ k, slot k st' = (scan (self.gpath ++ [k]) c r).map enc := by
    intro k
    rw [hs k]
    have : slot k (([], []) : St) = none := by simp [slot, aget]
    rw [this, List.take_length, hr, List.reverse_reverse, runSlot_none]
  obtain ⟨ch, iv⟩ := st'
  -- the filter on deletion markers
  let keep : Key × Int → Bool := fun kv =>
    match scan (self.gpath ++ [kv.1]) c r with
    | some (_, n) => !n.kind.isDel
    | none => false
  have hfilter : ∀ x ∈ pySortedItems ch, _children.filter1 self x = .ok (keep x) := by
    rintro ⟨k, idx⟩ hx
    rw [mem_pySortedItems] at hx
    have hget : aget k ch = some idx := (aget_eq_some_iff_mem ch hd'.nodup k idx).mpr hx
    have hsl := hs' k
    rw [← slot_fst k _ hd'] at hget
    rw [hsl] at hget
    rcases Option.eq_none_or_eq_some (scan (self.gpath ++ [k]) c r) with hsc | ⟨⟨i, n⟩, hsc⟩
    · simp [hsc] at hget
    · simp [hsc, enc] at hget
      subst hget
      obtain ⟨_, f, hf, hn⟩ := scan_get _ _ _ _ _ hsc
      have hraw := gen_get_child_raw self hattr k i f (hr ▸ hf)
      simp only [_children.filter1, keep, hsc]
      simp [hattr, hraw, pyFileGet, hn, gen_node_is_del_mark, bind, Except.bind, pure, Except.pure]
  refine ⟨(pySortedItems ch).filter keep, ?_, ?_⟩
  · simp only [_children, gen_guard_open self hfiles, bind, Except.bind, pure, Except.pure]
    rw [hc, h1]
    simp only
    rw [pyFilterM_pure _ keep _ hfilter]
  · intro k
    rw [aget_filter _ _ (nodup_pySortedItems _ hd'.nodup), aget_pySortedItems _ hd'.nodup]
    have hsl := hs' k
    have hfst := slot_fst k _ hd'
    simp only at hfst
    rw [← hfst, hsl]
    simp only [child, keep]
    rcases Option.eq_none_or_eq_some (scan (self.gpath ++ [k]) c r) with hsc | ⟨⟨i, n⟩, hsc⟩
    · simp [hsc]
    · cases hdel : n.kind.isDel <;> simp [hsc, enc, hdel]

/-- **`_children` of the group node `(g, c)` of the record `r`, looked up at a child name `k`, is
the model's `child r (g ++ [k]) c`** (the creation index; the node itself is the one container
`i` holds, `scan_get`) -/
theorem gen_children (r : Rec V) (hne : r ≠ []) (hwf : ∀ p ∈ r, WF p) (g : Path) (c : Nat)
    (hgrp : GrpFrom r g c) :
    ∃ d, _children ⟨r.reverse, g, (c : Int), false⟩ = .ok d ∧
      ∀ k, aget k d = (child r (g ++ [k]) c).map (fun x => (x.1 : Int)) :=
  gen_children_self ⟨r.reverse, g, (c : Int), false⟩ rfl r rfl hne hwf c rfl hgrp

end MetadorModel.Bridge.OverlayScan
