import MetadorModel.Py.DiffPy
import MetadorModel.Proofs.DiffGet
/-!
# Lemmas for the translation tie of `util/diff.py` (C18) that do not mention the generated text

Facts about the value dictionary `Py/DiffPy.lean` (the exception monad, loops as `foldlM`,
dict-style buckets, key sets, `sorted(..., key=path)`, `Path.parents`) and about the model
`Model/Diff.lean` (its buckets as `filterMap`s over key-sorted entries, nesting depths, the
listing as nodes). The bridge theorems proper are in `Bridge/DiffType|DiffStatus|DiffChildren|
DiffCompare|DiffNodes|DiffGet.lean` and `Bridge/Diff.lean`; only those import `Gen/Diff.lean`.
-/
set_option linter.unusedSimpArgs false
namespace MetadorModel.Bridge.Diff
open MetadorModel MetadorModel.Diff MetadorModel.DiffPy

/-! ## the exception monad -/

@[simp] theorem ok_bind {α β : Type} (x : α) (f : α → M β) : (Except.ok x >>= f) = f x := rfl
@[simp] theorem error_bind {α β : Type} (e : PyErr) (f : α → M β) :
    ((Except.error e : M α) >>= f) = Except.error e := rfl
@[simp] theorem pure_eq_ok {α : Type} (x : α) : (pure x : M α) = Except.ok x := rfl
@[simp] theorem throw_eq_error {α : Type} (e : PyErr) : (throw e : M α) = Except.error e := rfl

theorem pyStartswith_eq (s p : Paths.Str) : Paths.pyStartswith s p = p.isPrefixOf s := by
  induction s generalizing p with
  | nil => cases p <;> simp [Paths.pyStartswith, List.isPrefixOf]
  | cons c s ih => 
    cases p with
    | nil => simp [Paths.pyStartswith, List.isPrefixOf]
    | cons d p => simp only [Paths.pyStartswith, List.isPrefixOf, ih]; rw [Bool.beq_comm]

theorem pyFind_eq_zero (s p : Paths.Str) : (Paths.pyFind s p == 0) = p.isPrefixOf s := by
  cases s with
  | nil => cases p <;> simp [Paths.pyFind, List.isPrefixOf]
  | cons c s =>
    rw [Paths.pyFind, pyStartswith_eq]
    by_cases h : p.isPrefixOf (c :: s) = true
    · simp [h]
    · simp only [h, Bool.false_eq_true, if_false]
      split_ifs with h2
      · simp; omega
      · simp

/-! ## loops -/

/-- a `for` loop whose state after the elements `pre` is `S pre` -/
theorem foldlM_state {σ α : Type} (f : σ → α → M σ) (S : List α → σ) (xs : List α)
    (h : ∀ pre x suf, xs = pre ++ x :: suf → f (S pre) x = .ok (S (pre ++ [x]))) :
    xs.foldlM f (S []) = .ok (S xs) := by
  suffices ∀ suf pre, xs = pre ++ suf → suf.foldlM f (S pre) = .ok (S xs) from this xs [] rfl
  intro suf
  induction suf with
  | nil => intro pre h'; simp at h'; simp [h']
  | cons x suf ih =>
    intro pre h'
    rw [List.foldlM_cons, h pre x suf h']
    simp only [ok_bind]
    apply ih
    simp [h']

theorem bucketPut_fresh (b : List DNode) (x : DNode) (h : ∀ y ∈ b, y.path ≠ x.path) :
    bucketPut b x = b ++ [x] := by
  induction b with
  | nil => rfl
  | cons y r ih =>
    simp only [bucketPut]
    rw [if_neg (h y (by simp)), ih (fun z hz => h z (by simp [hz]))]
    rfl

theorem nodup_split {α : Type} {l pre suf : List α} {x : α} (h : l.Nodup) (e : l = pre ++ x :: suf) :
    x ∉ pre := by
  subst e
  intro hx
  exact (List.nodup_append.mp h).2.2 x hx x (by simp) rfl

/-- the core of every loop of `compare`: the elements `xs` have distinct keys, `g a` is the node
stored for `a` under `path / key a` (or nothing), `mk' b` is the node with the bucket `b`. -/
theorem loop_core {α : Type} (xs : List α) (key : α → String) (hn : (xs.map key).Nodup)
    (path : Path) (g : α → Option DNode) (hg : ∀ a ∈ xs, ∀ y, g a = some y → y.path = path ++ [key a])
    (mk' : List DNode → DNode) (f : DNode → α → M DNode)
    (hf : ∀ b a, a ∈ xs → f (mk' b) a =
      match g a with
      | none => .ok (mk' b)
      | some y => bucketSet b (path ++ [key a]) y >>= fun b' => .ok (mk' b')) :
    xs.foldlM f (mk' []) = .ok (mk' (xs.filterMap g)) := by
  apply foldlM_state f (fun pre => mk' (pre.filterMap g)) xs
  intro pre a suf e
  have ha : a ∈ xs := by simp [e]
  rw [hf _ a ha]
  cases hga : g a with
  | none => simp [List.filterMap_append, hga]
  | some y =>
    have hy := hg a ha y hga
    have hfresh : ∀ z ∈ pre.filterMap g, z.path ≠ y.path := by
      intro z hz
      obtain ⟨a', ha', hz'⟩ := List.mem_filterMap.mp hz
      rw [hg a' (by simp [e, ha']) z hz', hy]
      intro e'
      have : key a' = key a := by simpa using e'
      have hn' : (pre.map key ++ key a :: suf.map key).Nodup := by simpa [e] using hn
      exact nodup_split hn' rfl (this ▸ List.mem_map_of_mem ha')
    simp only [bucketSet, hy, if_true, pure_eq_ok, ok_bind, bucketPut_fresh _ _ hfresh]
    simp [List.filterMap_append, hga]


/-! ## key-sorted association lists, key sets -/

theorem above_mem {V : Type} {n : String} {l : List (String × V)} (h : AL.above n l = true) :
    ∀ e ∈ l, n < e.1 := by
  induction l with
  | nil => simp
  | cons a r ih =>
    obtain ⟨k, v⟩ := a
    rw [AL.above_cons] at h
    intro e he
    rcases List.mem_cons.mp he with rfl | he
    · exact h.1
    · exact ih h.2 e he

theorem sorted_keys_nodup {V : Type} {l : List (String × V)} (h : AL.sorted l = true) :
    (l.map Prod.fst).Nodup := by
  induction l with
  | nil => simp
  | cons a r ih =>
    obtain ⟨k, v⟩ := a
    rw [AL.sorted_cons] at h
    simp only [List.map_cons, List.nodup_cons]
    refine ⟨?_, ih h.2⟩
    intro hk
    obtain ⟨e, he, hek⟩ := List.mem_map.mp hk
    have := above_mem h.1 e he
    rw [hek] at this
    exact lt_irrefl _ this

theorem pySet_nodup {l : List String} (h : l.Nodup) : pySet l = l := by
  induction l with
  | nil => rfl
  | cons k r ih =>
    rw [List.nodup_cons] at h
    simp only [pySet, ih h.2]
    congr 1
    rw [List.filter_eq_self]
    intro x hx
    simp only [bne_iff_ne, ne_eq]
    rintro rfl
    exact h.1 hx

theorem mem_keys {V : Type} (l : List (String × V)) (k : String) :
    k ∈ l.map Prod.fst ↔ (AL.get l k).isSome = true := by
  induction l with
  | nil => simp
  | cons a r ih =>
    obtain ⟨k', v⟩ := a
    simp only [List.map_cons, List.mem_cons, AL.get_cons, ih]
    by_cases h : k' = k
    · subst h; simp
    · have h' : ¬ k = k' := fun e => h e.symm
      simp [h, h']

theorem mem_setDiff (a b : List String) (k : String) : k ∈ setDiff a b ↔ k ∈ a ∧ k ∉ b := by
  simp [setDiff]

/-- `curr_keys - prev_keys` as a sublist of the entries -/
theorem setDiff_keys (fs es : Entries) :
    setDiff (fs.map Prod.fst) (es.map Prod.fst) =
      (fs.filter (fun e => (AL.get es e.1).isNone)).map Prod.fst := by
  simp only [setDiff, List.filter_map]
  congr 1
  apply List.filter_congr
  intro e _
  have := mem_keys es e.1
  cases h : AL.get es e.1 <;> simp_all

/-- `(prev_keys | curr_keys) - added - removed` as a sublist of the entries of `prev` -/
theorem intersection_keys (es fs : Entries) :
    setDiff (setDiff (setUnion (es.map Prod.fst) (fs.map Prod.fst))
      (setDiff (fs.map Prod.fst) (es.map Prod.fst))) (setDiff (es.map Prod.fst) (fs.map Prod.fst)) =
      (es.filter (fun e => (AL.get fs e.1).isSome)).map Prod.fst := by
  generalize hA : setDiff (fs.map Prod.fst) (es.map Prod.fst) = A
  generalize hR : setDiff (es.map Prod.fst) (fs.map Prod.fst) = R
  have hAm : ∀ k, k ∈ A ↔ k ∈ fs.map Prod.fst ∧ k ∉ es.map Prod.fst := by
    intro k; rw [← hA]; exact mem_setDiff _ _ _
  have hRm : ∀ k, k ∈ R ↔ k ∈ es.map Prod.fst ∧ k ∉ fs.map Prod.fst := by
    intro k; rw [← hR]; exact mem_setDiff _ _ _
  simp only [setDiff, setUnion, List.filter_append, List.filter_filter]
  have h2 : (fs.map Prod.fst).filter (fun k => !R.contains k && (!A.contains k && !(es.map Prod.fst).contains k)) = [] := by
    rw [List.filter_eq_nil_iff]
    intro k hk
    have := hAm k
    simp only [List.contains_eq_mem, Bool.and_eq_true, Bool.not_eq_eq_eq_not, Bool.not_true,
      decide_eq_false_iff_not, not_and, not_not]
    intro _ h3
    by_contra h4
    exact h3 (this.mpr ⟨hk, h4⟩)
  rw [h2, List.append_nil, List.filter_map]
  congr 1
  apply List.filter_congr
  intro e he
  have hk : e.1 ∈ es.map Prod.fst := List.mem_map_of_mem he
  have h3 := hAm e.1
  have h4 := hRm e.1
  have h5 := mem_keys fs e.1
  cases h : AL.get fs e.1 <;> simp_all


/-! ## the model's buckets as `filterMap`s over the entries -/

theorem addEs_eq (path : Path) (es : Entries) :
    addEs path es = es.filterMap (fun e => some (addT (path ++ [e.1]) e.2)) := by
  induction es with
  | nil => simp [addEs]
  | cons a r ih => obtain ⟨k, t⟩ := a; simp [addEs, ih]

theorem remEs_eq (path : Path) (es : Entries) :
    remEs path es = es.filterMap (fun e => some (remT (path ++ [e.1]) e.2)) := by
  induction es with
  | nil => simp [remEs]
  | cons a r ih => obtain ⟨k, t⟩ := a; simp [remEs, ih]

theorem addSel_eq (path : Path) (fs es : Entries) :
    addSel path fs es = (fs.filter (fun e => (AL.get es e.1).isNone)).filterMap
      (fun e => some (addT (path ++ [e.1]) e.2)) := by
  induction fs with
  | nil => simp [addSel]
  | cons a r ih =>
    obtain ⟨k, t⟩ := a
    simp only [addSel, ih, List.filter_cons]
    cases h : AL.get es k <;> simp

theorem remSel_eq (path : Path) (es fs : Entries) :
    remSel path es fs = (es.filter (fun e => (AL.get fs e.1).isNone)).filterMap
      (fun e => some (remT (path ++ [e.1]) e.2)) := by
  induction es with
  | nil => simp [remSel]
  | cons a r ih =>
    obtain ⟨k, t⟩ := a
    simp only [remSel, ih, List.filter_cons]
    cases h : AL.get fs k <;> simp

theorem cmpEs_eq (path : Path) (es fs : Entries) :
    cmpEs path es fs = (es.filter (fun e => (AL.get fs e.1).isSome)).filterMap
      (fun e => (AL.get fs e.1).bind (cmpT (path ++ [e.1]) e.2)) := by
  induction es with
  | nil => simp [cmpEs]
  | cons a r ih =>
    obtain ⟨k, t⟩ := a
    rw [cmpEs_cons, ih, List.filter_cons]
    cases h : AL.get fs k with
    | none => simp
    | some u =>
      simp only [Option.isSome_some, if_true, List.filterMap_cons, h, Option.bind_some]
      cases cmpT (path ++ [k]) t u <;> rfl

/-! ## nesting depth (what the recursion limit has to exceed) -/

mutual
def depthT : DirTree → Nat
  | .file _ => 0
  | .dir es => depthEs es + 1
def depthEs : Entries → Nat
  | [] => 0
  | (_, t) :: r => max (depthT t) (depthEs r)
end

def depthO : Option DirTree → Nat
  | none => 0
  | some t => depthT t

theorem depth_mem {es : Entries} {k : String} {t : DirTree} (h : (k, t) ∈ es) : depthT t ≤ depthEs es := by
  induction es with
  | nil => simp at h
  | cons a r ih =>
    obtain ⟨k', t'⟩ := a
    simp only [depthEs]
    rcases List.mem_cons.mp h with e | e
    · cases e; omega
    · have := ih e; omega

theorem depth_get {es : Entries} {k : String} {t : DirTree} (h : AL.get es k = some t) : depthT t ≤ depthEs es := by
  induction es with
  | nil => simp at h
  | cons a r ih =>
    obtain ⟨k', t'⟩ := a
    simp only [depthEs]
    rw [AL.get_cons] at h
    split_ifs at h with h1
    · cases h; omega
    · have := ih h; omega

theorem filter_keys_nodup {es : Entries} (h : AL.sorted es = true) (p : String × DirTree → Bool) :
    ((es.filter p).map Prod.fst).Nodup :=
  (sorted_keys_nodup h).sublist ((List.filter_sublist).map _)

/-! ## `nodes` -/

mutual
/-- nesting depth of a diff node (what the recursion limit of `nodes` has to exceed) -/
def ndepth : DNode → Nat
  | .mk _ _ _ rm md ad => max (ndepthL rm) (max (ndepthL md) (ndepthL ad)) + 1
def ndepthL : List DNode → Nat
  | [] => 0
  | d :: r => max (ndepth d) (ndepthL r)
end

theorem ndepth_mem {l : List DNode} {d : DNode} (h : d ∈ l) : ndepth d ≤ ndepthL l := by
  induction l with
  | nil => simp at h
  | cons a r ih =>
    simp only [ndepthL]
    rcases List.mem_cons.mp h with e | e
    · subst e; omega
    · have := ih e; omega

/-- all paths of `l` are greater than `p` -/
def pathsAbove (p : Path) : List DNode → Bool
  | [] => true
  | d :: r => pathLt p d.path && pathsAbove p r

/-- the paths of `l` are strictly ascending -/
def pathSorted : List DNode → Bool
  | [] => true
  | d :: r => pathsAbove d.path r && pathSorted r

mutual
/-- every bucket of the node, recursively, holds its nodes in ascending order of their paths -/
def sortedD : DNode → Bool
  | .mk _ _ _ rm md ad =>
    pathSorted rm && sortedDL rm && (pathSorted md && sortedDL md) && (pathSorted ad && sortedDL ad)
def sortedDL : List DNode → Bool
  | [] => true
  | d :: r => sortedD d && sortedDL r
end

theorem sortedDL_mem {l : List DNode} (h : sortedDL l = true) {d : DNode} (hd : d ∈ l) : sortedD d = true := by
  induction l with
  | nil => simp at hd
  | cons a r ih =>
    simp only [sortedDL, Bool.and_eq_true] at h
    rcases List.mem_cons.mp hd with e | e
    · subst e; exact h.1
    · exact ih h.2 e

theorem pathLt_asymm : ∀ (p q : Path), pathLt p q = true → pathLt q p = false
  | [], [], h => by simp [pathLt] at h
  | [], _ :: _, _ => by simp [pathLt]
  | _ :: _, [], h => by simp [pathLt] at h
  | a :: p, b :: q, h => by
    simp only [pathLt, Bool.or_eq_true, decide_eq_true_eq, Bool.and_eq_true, beq_iff_eq] at h
    simp only [pathLt, Bool.or_eq_false_iff, decide_eq_false_iff_not, Bool.and_eq_false_imp, beq_iff_eq]
    rcases h with h | ⟨h1, h2⟩
    · exact ⟨lt_asymm h, fun e => absurd (e ▸ h) (lt_irrefl _)⟩
    · subst h1; exact ⟨lt_irrefl _, fun _ => pathLt_asymm p q h2⟩

theorem insertByPath_above {x : DNode} {l : List DNode} (h : pathsAbove x.path l = true) :
    insertByPath x l = x :: l := by
  cases l with
  | nil => rfl
  | cons y r =>
    simp only [pathsAbove, Bool.and_eq_true] at h
    simp [insertByPath, pathLt_asymm _ _ h.1]

/-- sorting a bucket whose paths ascend changes nothing -/
theorem sortedByPath_sorted {l : List DNode} (h : pathSorted l = true) : sortedByPath l = l := by
  induction l with
  | nil => rfl
  | cons x r ih =>
    simp only [pathSorted, Bool.and_eq_true] at h
    rw [sortedByPath, ih h.2, insertByPath_above h.1]

/-- `for v in xs: ret += g(v)` -/
theorem loop_extend {f : List DNode → DNode → M (List DNode)} {g : DNode → List DNode}
    (l : List DNode) (ret0 : List DNode)
    (hf : ∀ ret v, v ∈ l → f ret v = .ok (ret ++ g v)) :
    l.foldlM f ret0 = .ok (ret0 ++ l.flatMap g) := by
  have := foldlM_state f (fun pre => ret0 ++ pre.flatMap g) l (by
    intro pre x suf e
    rw [hf _ x (by simp [e])]
    simp)
  simpa using this

/-! ### forgetting the insertion order of the buckets -/

mutual
/-- the node with every bucket, recursively, put in ascending order of the paths: what the insertion
order of the three dicts (which depends on Python's set iteration order) is forgotten to -/
def canon : DNode → DNode
  | .mk p pv cv rm md ad =>
    .mk p pv cv (sortedByPath (canonL rm)) (sortedByPath (canonL md)) (sortedByPath (canonL ad))
def canonL : List DNode → List DNode
  | [] => []
  | d :: r => canon d :: canonL r
end

theorem canon_path (d : DNode) : (canon d).path = d.path := by
  obtain ⟨p, pv, cv, rm, md, ad⟩ := d; simp [canon, DNode.path]

theorem canonL_map (l : List DNode) : canonL l = l.map canon := by
  induction l with
  | nil => rfl
  | cons d r ih => simp [canonL, ih]

theorem insertByPath_map (f : DNode → DNode) (hf : ∀ d, (f d).path = d.path) (x : DNode) (l : List DNode) :
    insertByPath (f x) (l.map f) = (insertByPath x l).map f := by
  induction l with
  | nil => rfl
  | cons y r ih =>
    simp only [List.map_cons, insertByPath, hf]
    split_ifs <;> simp [ih]

theorem sortedByPath_map (f : DNode → DNode) (hf : ∀ d, (f d).path = d.path) (l : List DNode) :
    sortedByPath (l.map f) = (sortedByPath l).map f := by
  induction l with
  | nil => rfl
  | cons x r ih => simp only [List.map_cons, sortedByPath, ih, insertByPath_map f hf]

theorem mem_insertByPath (x y : DNode) (l : List DNode) : y ∈ insertByPath x l ↔ y = x ∨ y ∈ l := by
  induction l with
  | nil => simp [insertByPath]
  | cons z r ih =>
    simp only [insertByPath]
    split_ifs
    · simp [ih]; tauto
    · simp

theorem mem_sortedByPath (y : DNode) (l : List DNode) : y ∈ sortedByPath l ↔ y ∈ l := by
  induction l with
  | nil => simp [sortedByPath]
  | cons x r ih => simp [sortedByPath, mem_insertByPath, ih]

theorem nodesL_flatMap (l : List DNode) : nodesL l = l.flatMap nodes := by
  induction l with
  | nil => simp
  | cons d r ih => simp [nodesL_cons, ih]

/-- the model's listing of the canonical node, bucket by bucket -/
theorem nodes_canon (p : Path) (pv cv : Option DirTree) (rm md ad : List DNode) :
    nodes (canon (.mk p pv cv rm md ad)) =
      (sortedByPath rm).flatMap (fun v => nodes (canon v)) ++
        ((sortedByPath md).flatMap (fun v => nodes (canon v)) ++
          (⟨p, pv, cv⟩ :: (sortedByPath ad).flatMap (fun v => nodes (canon v)))) := by
  simp only [canon, nodes_mk, canonL_map, sortedByPath_map canon canon_path, nodesL_flatMap,
    List.flatMap_map]


mutual
theorem canon_sorted : (d : DNode) → sortedD d = true → canon d = d
  | .mk p pv cv rm md ad, h => by
    simp only [sortedD, Bool.and_eq_true] at h
    simp only [canon, canonL_sorted rm h.1.1.2, canonL_sorted md h.1.2.2, canonL_sorted ad h.2.2,
      sortedByPath_sorted h.1.1.1, sortedByPath_sorted h.1.2.1, sortedByPath_sorted h.2.1]
theorem canonL_sorted : (l : List DNode) → sortedDL l = true → canonL l = l
  | [], _ => rfl
  | d :: r, h => by
    simp only [sortedDL, Bool.and_eq_true] at h
    simp only [canonL, canon_sorted d h.1, canonL_sorted r h.2]
end

/-! ### the buckets built by `compare` ascend -/

theorem pathLt_append_single (p : Path) (k k' : String) :
    pathLt (p ++ [k]) (p ++ [k']) = decide (k < k') := by
  induction p with
  | nil => simp [pathLt]
  | cons a p ih => simp [pathLt, ih]

theorem pathSorted_filterMap {es : Entries} (hs : AL.sorted es = true) (path : Path)
    (g : String × DirTree → Option DNode) (hg : ∀ e y, g e = some y → y.path = path ++ [e.1]) :
    pathSorted (es.filterMap g) = true := by
  induction es with
  | nil => rfl
  | cons a r ih =>
    have hs' := (AL.sorted_cons a.1 a.2 r).mp hs
    rw [List.filterMap_cons]
    cases hga : g a with
    | none => exact ih hs'.2
    | some y =>
      simp only [pathSorted, Bool.and_eq_true]
      refine ⟨?_, ih hs'.2⟩
      have hab := above_mem hs'.1
      have : ∀ l : Entries, (∀ e ∈ l, a.1 < e.1) → pathsAbove y.path (l.filterMap g) = true := by
        intro l hl
        induction l with
        | nil => rfl
        | cons b l ihl =>
          rw [List.filterMap_cons]
          cases hgb : g b with
          | none => exact ihl (fun e he => hl e (by simp [he]))
          | some z =>
            simp only [pathsAbove, Bool.and_eq_true]
            refine ⟨?_, ihl (fun e he => hl e (by simp [he]))⟩
            rw [hg a y hga, hg b z hgb, pathLt_append_single]
            simpa using hl b (by simp)
      exact this r hab

theorem pathSorted_filter_filterMap {es : Entries} (hs : AL.sorted es = true) (path : Path)
    (p : String × DirTree → Bool)
    (g : String × DirTree → Option DNode) (hg : ∀ e y, g e = some y → y.path = path ++ [e.1]) :
    pathSorted ((es.filter p).filterMap g) = true := by
  rw [List.filterMap_filter]
  apply pathSorted_filterMap hs path
  intro e y h
  by_cases hp : p e = true
  · rw [if_pos hp] at h; exact hg e y h
  · rw [if_neg hp] at h; cases h


theorem pathSorted_addEs {es : Entries} (hs : AL.sorted es = true) (p : Path) : pathSorted (addEs p es) = true := by
  rw [addEs_eq]; exact pathSorted_filterMap hs p _ (fun e y h => by cases h; exact addT_path _ _)
theorem pathSorted_remEs {es : Entries} (hs : AL.sorted es = true) (p : Path) : pathSorted (remEs p es) = true := by
  rw [remEs_eq]; exact pathSorted_filterMap hs p _ (fun e y h => by cases h; exact remT_path _ _)
theorem pathSorted_addSel {fs : Entries} (hs : AL.sorted fs = true) (p : Path) (es : Entries) :
    pathSorted (addSel p fs es) = true := by
  rw [addSel_eq]; exact pathSorted_filter_filterMap hs p _ _ (fun e y h => by cases h; exact addT_path _ _)
theorem pathSorted_remSel {es : Entries} (hs : AL.sorted es = true) (p : Path) (fs : Entries) :
    pathSorted (remSel p es fs) = true := by
  rw [remSel_eq]; exact pathSorted_filter_filterMap hs p _ _ (fun e y h => by cases h; exact remT_path _ _)
theorem pathSorted_cmpEs {es : Entries} (hs : AL.sorted es = true) (p : Path) (fs : Entries) :
    pathSorted (cmpEs p es fs) = true := by
  rw [cmpEs_eq]
  exact pathSorted_filter_filterMap hs p _ _ (fun e y h => by
    obtain ⟨u, _, h'⟩ := Option.bind_eq_some_iff.mp h
    exact cmpT_path h')

mutual
theorem sortedD_addT : (t : DirTree) → (p : Path) → t.wf = true → sortedD (addT p t) = true
  | .file s, p, _ => by simp [addT, sortedD, pathSorted, sortedDL]
  | .dir es, p, h => by
    have hw := (wf_dir es).mp h
    simp [addT, sortedD, pathSorted, sortedDL, pathSorted_addEs hw.1, sortedDL_addEs es p hw.2]
theorem sortedDL_addEs : (es : Entries) → (p : Path) → wfEs es = true → sortedDL (addEs p es) = true
  | [], p, _ => by simp [addEs, sortedDL]
  | (k, t) :: r, p, h => by
    have hw := (wfEs_cons k t r).mp h
    simp [addEs, sortedDL, sortedD_addT t (p ++ [k]) hw.1, sortedDL_addEs r p hw.2]
end

mutual
theorem sortedD_remT : (t : DirTree) → (p : Path) → t.wf = true → sortedD (remT p t) = true
  | .file s, p, _ => by simp [remT, sortedD, pathSorted, sortedDL]
  | .dir es, p, h => by
    have hw := (wf_dir es).mp h
    simp [remT, sortedD, pathSorted, sortedDL, pathSorted_remEs hw.1, sortedDL_remEs es p hw.2]
theorem sortedDL_remEs : (es : Entries) → (p : Path) → wfEs es = true → sortedDL (remEs p es) = true
  | [], p, _ => by simp [remEs, sortedDL]
  | (k, t) :: r, p, h => by
    have hw := (wfEs_cons k t r).mp h
    simp [remEs, sortedDL, sortedD_remT t (p ++ [k]) hw.1, sortedDL_remEs r p hw.2]
end

theorem sortedDL_addSel (fs es : Entries) (p : Path) (h : wfEs fs = true) : sortedDL (addSel p fs es) = true := by
  induction fs with
  | nil => simp [addSel, sortedDL]
  | cons a r ih =>
    obtain ⟨k, t⟩ := a
    have hw := (wfEs_cons k t r).mp h
    simp only [addSel]
    cases AL.get es k <;> simp [sortedDL, sortedD_addT t _ hw.1, ih hw.2]

theorem sortedDL_remSel (es fs : Entries) (p : Path) (h : wfEs es = true) : sortedDL (remSel p es fs) = true := by
  induction es with
  | nil => simp [remSel, sortedDL]
  | cons a r ih =>
    obtain ⟨k, t⟩ := a
    have hw := (wfEs_cons k t r).mp h
    simp only [remSel]
    cases AL.get fs k <;> simp [sortedDL, sortedD_remT t _ hw.1, ih hw.2]

mutual
theorem sortedD_cmpT : (a b : DirTree) → (p : Path) → a.wf = true → b.wf = true →
    ∀ d, cmpT p a b = some d → sortedD d = true
  | .file s, .file s', p, _, _ => by
    intro d h
    simp only [cmpT] at h
    split_ifs at h
    cases h
    simp [sortedD, pathSorted, sortedDL]
  | .file s, .dir fs, p, _, hb => by
    intro d h
    have hw := (wf_dir fs).mp hb
    simp only [cmpT] at h
    cases h
    simp [sortedD, pathSorted, sortedDL, pathSorted_addEs hw.1, sortedDL_addEs fs p hw.2]
  | .dir es, .file s', p, ha, _ => by
    intro d h
    have hw := (wf_dir es).mp ha
    simp only [cmpT] at h
    cases h
    simp [sortedD, pathSorted, sortedDL, pathSorted_remEs hw.1, sortedDL_remEs es p hw.2]
  | .dir es, .dir fs, p, ha, hb => by
    intro d h
    have hwe := (wf_dir es).mp ha
    have hwf := (wf_dir fs).mp hb
    rw [cmpT_dir_dir] at h
    split_ifs at h
    cases h
    simp [sortedD, pathSorted_remSel hwe.1, pathSorted_cmpEs hwe.1, pathSorted_addSel hwf.1,
      sortedDL_remSel es fs p hwe.2, sortedDL_addSel fs es p hwf.2, sortedDL_cmpEs es fs p hwe.2 hwf.2]
theorem sortedDL_cmpEs : (es fs : Entries) → (p : Path) → wfEs es = true → wfEs fs = true →
    sortedDL (cmpEs p es fs) = true
  | [], fs, p, _, _ => by simp [cmpEs, sortedDL]
  | (k, t) :: r, fs, p, h, hf => by
    have hw := (wfEs_cons k t r).mp h
    rw [cmpEs_cons]
    cases hg : AL.get fs k with
    | none => exact sortedDL_cmpEs r fs p hw.2 hf
    | some u =>
      have h1 := sortedD_cmpT t u (p ++ [k]) hw.1 (wfEs_get hf hg)
      cases hc : cmpT (p ++ [k]) t u with
      | none => simpa [hc] using sortedDL_cmpEs r fs p hw.2 hf
      | some d => simp [hc, sortedDL, h1 d hc, sortedDL_cmpEs r fs p hw.2 hf]
end

theorem sortedD_compareAt {x y : Option DirTree} (hx : wfO x) (hy : wfO y) (p : Path) {d : DNode}
    (h : compareAt p x y = some d) : sortedD d = true := by
  cases x <;> cases y <;> simp only [compareAt] at h
  · cases h
  · cases h; exact sortedD_addT _ _ hy
  · cases h; exact sortedD_remT _ _ hx
  · exact sortedD_cmpT _ _ p hx hy d h


/-! ### sorting a permutation of an ascending bucket gives the bucket -/

theorem pathsAbove_iff (p : Path) (l : List DNode) :
    pathsAbove p l = true ↔ ∀ d ∈ l, pathLt p d.path = true := by
  induction l with
  | nil => simp [pathsAbove]
  | cons x r ih => simp [pathsAbove, ih]

theorem pathSorted_iff (l : List DNode) :
    pathSorted l = true ↔ l.Pairwise (fun a b => pathLt a.path b.path = true) := by
  induction l with
  | nil => simp [pathSorted]
  | cons x r ih => simp [pathSorted, pathsAbove_iff, ih]

theorem insertByPath_middle (x : DNode) (s1 s2 : List DNode)
    (h1 : ∀ y ∈ s1, pathLt y.path x.path = true) (h2 : ∀ z ∈ s2, pathLt x.path z.path = true) :
    insertByPath x (s1 ++ s2) = s1 ++ x :: s2 := by
  induction s1 with
  | nil =>
    cases s2 with
    | nil => rfl
    | cons z r => simp [insertByPath, pathLt_asymm _ _ (h2 z (by simp))]
  | cons y r ih =>
    simp only [List.cons_append, insertByPath, h1 y (by simp), if_true]
    rw [ih (fun y hy => h1 y (by simp [hy]))]

theorem sortedByPath_perm_sorted : ∀ (l s : List DNode), l.Perm s → pathSorted s = true → sortedByPath l = s := by
  intro l
  induction l with
  | nil => intro s h _; have := List.Perm.nil_eq h; subst this; rfl
  | cons x l ih =>
    intro s h hs
    have hx : x ∈ s := h.subset (by simp)
    obtain ⟨s1, s2, rfl⟩ := List.append_of_mem hx
    have hp : l.Perm (s1 ++ s2) := (List.perm_cons x).mp (h.trans List.perm_middle)
    rw [pathSorted_iff] at hs
    have hs' : (s1 ++ s2).Pairwise (fun a b => pathLt a.path b.path = true) :=
      hs.sublist (by simp)
    rw [sortedByPath, ih (s1 ++ s2) hp ((pathSorted_iff _).mpr hs')]
    rw [List.pairwise_append] at hs
    apply insertByPath_middle
    · intro y hy; exact hs.2.2 y hy x (by simp)
    · intro z hz; exact (List.pairwise_cons.mp hs.2.1).1 z hz


/-! ## loops in an arbitrary iteration order -/

/-- what the bridge assumes of the iteration order of sets and input dicts -/
def PermOrd (ord : IterOrd) : Prop := ∀ (α : Type) (l : List α), (ord α l).Perm l

example : PermOrd (fun _ l => l) := fun _ _ => List.Perm.refl _
example : PermOrd (fun _ l => l.reverse) := fun _ l => List.reverse_perm l

/-- `loop_core` for a loop that visits the elements `xs` in some other order `ys` -/
theorem loop_core_perm {α : Type} (xs ys : List α) (hp : ys.Perm xs) (key : α → String)
    (hn : (xs.map key).Nodup) (path : Path) (g gm : α → Option DNode)
    (hgm : ∀ a ∈ xs, (g a).map canon = gm a)
    (hpath : ∀ a y, gm a = some y → y.path = path ++ [key a])
    (mk' : List DNode → DNode) (f : DNode → α → M DNode)
    (hf : ∀ b a, a ∈ xs → f (mk' b) a =
      match g a with
      | none => .ok (mk' b)
      | some y => bucketSet b (path ++ [key a]) y >>= fun b' => .ok (mk' b')) :
    ys.foldlM f (mk' []) = .ok (mk' (ys.filterMap g)) := by
  apply loop_core ys key ((hp.map key).nodup_iff.mpr hn) path g _ mk' f
  · intro b a ha; exact hf b a (hp.subset ha)
  · intro a ha y hy
    have h1 := hgm a (hp.subset ha)
    rw [hy, Option.map_some] at h1
    rw [← canon_path, hpath a (canon y) h1.symm]

/-- the bucket such a loop builds, with the insertion order forgotten, is the model's bucket -/
theorem canon_bucket_perm {α : Type} (xs ys : List α) (hp : ys.Perm xs) (g gm : α → Option DNode)
    (hgm : ∀ a ∈ xs, (g a).map canon = gm a) (hs : pathSorted (xs.filterMap gm) = true) :
    sortedByPath (canonL (ys.filterMap g)) = xs.filterMap gm := by
  apply sortedByPath_perm_sorted _ _ _ hs
  rw [canonL_map, List.map_filterMap]
  have : ys.filterMap (fun a => (g a).map canon) = ys.filterMap gm := by
    apply List.filterMap_congr
    intro a ha
    exact hgm a (hp.subset ha)
  rw [this]
  exact hp.filterMap gm


theorem insertByPath_ne_nil (x : DNode) (l : List DNode) : insertByPath x l ≠ [] := by
  cases l with
  | nil => simp [insertByPath]
  | cons y r => simp only [insertByPath]; split_ifs <;> simp

/-- forgetting the order does not change whether a bucket is empty -/
theorem isEmpty_of_canon {B S : List DNode} (h : sortedByPath (canonL B) = S) : B.isEmpty = S.isEmpty := by
  cases B with
  | nil => subst h; rfl
  | cons x r =>
    cases S with
    | nil => exact absurd h (by simp only [canonL, sortedByPath]; exact insertByPath_ne_nil _ _)
    | cons _ _ => rfl

/-- a loop over (a permutation of) the keys `K` of the entries of `src` selected by `P`:
`c k t` is the node the body stores for the entry `(k, t)` (or nothing), `gm k t` the model's -/
theorem loop_keys_eq (src : Entries) (hsrc : AL.sorted src = true) (P : String × DirTree → Bool)
    (path : Path) (c gm : String → DirTree → Option DNode)
    (hc : ∀ k t, AL.get src k = some t → (c k t).map canon = gm k t)
    (hpath : ∀ k t y, gm k t = some y → y.path = path ++ [k])
    (mk' : List DNode → DNode) (f : DNode → String → M DNode)
    (hf : ∀ b k t, AL.get src k = some t → P (k, t) = true → f (mk' b) k =
      match c k t with
      | none => .ok (mk' b)
      | some y => bucketSet b (path ++ [k]) y >>= fun b' => .ok (mk' b'))
    (K ys : List String) (hK : K = (src.filter P).map Prod.fst) (hp : ys.Perm K) :
    ys.foldlM f (mk' []) = .ok (mk' (ys.filterMap (fun k => (AL.get src k).bind (c k)))) := by
  have hmem : ∀ k ∈ K, ∃ t, AL.get src k = some t ∧ P (k, t) = true := by
    intro k hk
    rw [hK] at hk
    obtain ⟨⟨k', t⟩, he, rfl⟩ := List.mem_map.mp hk
    have := List.mem_filter.mp he
    exact ⟨t, (AL.mem_iff_get hsrc k' t).mp this.1, this.2⟩
  apply loop_core_perm K ys hp id (by rw [List.map_id, hK]; exact filter_keys_nodup hsrc P) path
    (fun k => (AL.get src k).bind (c k)) (fun k => (AL.get src k).bind (gm k))
  · intro k hk
    obtain ⟨t, ht, _⟩ := hmem k hk
    simp only [ht, Option.bind_some]
    exact hc k t ht
  · intro k y h
    obtain ⟨t, _, h'⟩ := Option.bind_eq_some_iff.mp h
    exact hpath k t y h'
  · intro b k hk
    obtain ⟨t, ht, hP⟩ := hmem k hk
    simp only [ht, Option.bind_some, id]
    exact hf b k t ht hP

theorem loop_keys_canon (src : Entries) (hsrc : AL.sorted src = true) (P : String × DirTree → Bool)
    (path : Path) (c gm : String → DirTree → Option DNode)
    (hc : ∀ k t, AL.get src k = some t → (c k t).map canon = gm k t)
    (hpath : ∀ k t y, gm k t = some y → y.path = path ++ [k])
    (K ys : List String) (hK : K = (src.filter P).map Prod.fst) (hp : ys.Perm K) :
    sortedByPath (canonL (ys.filterMap (fun k => (AL.get src k).bind (c k)))) =
      (src.filter P).filterMap (fun e => gm e.1 e.2) := by
  have hmem : ∀ k ∈ K, ∃ t, AL.get src k = some t := by
    intro k hk
    rw [hK] at hk
    obtain ⟨⟨k', t⟩, he, rfl⟩ := List.mem_map.mp hk
    exact ⟨t, (AL.mem_iff_get hsrc k' t).mp (List.mem_filter.mp he).1⟩
  have hsorted : pathSorted ((src.filter P).filterMap (fun e => gm e.1 e.2)) = true :=
    pathSorted_filter_filterMap hsrc path P _ (fun e y h => hpath e.1 e.2 y h)
  have hKm : K.filterMap (fun k => (AL.get src k).bind (gm k)) =
      (src.filter P).filterMap (fun e => gm e.1 e.2) := by
    rw [hK, List.filterMap_map]
    apply List.filterMap_congr
    intro e he
    have := (AL.mem_iff_get hsrc e.1 e.2).mp (List.mem_filter.mp he).1
    simp [this]
  rw [← hKm] at hsorted ⊢
  apply canon_bucket_perm K ys hp _ _ _ hsorted
  intro k hk
  obtain ⟨t, ht⟩ := hmem k hk
  simp only [ht, Option.bind_some]
  exact hc k t ht

/-- a loop over (a permutation of) the items of a dict -/
theorem loop_items_eq (src : Entries) (hsrc : AL.sorted src = true)
    (path : Path) (c gm : String → DirTree → Option DNode)
    (hc : ∀ k t, (k, t) ∈ src → (c k t).map canon = gm k t)
    (hpath : ∀ k t y, gm k t = some y → y.path = path ++ [k])
    (mk' : List DNode → DNode) (f : DNode → String × DirTree → M DNode)
    (hf : ∀ b k t, (k, t) ∈ src → f (mk' b) (k, t) =
      match c k t with
      | none => .ok (mk' b)
      | some y => bucketSet b (path ++ [k]) y >>= fun b' => .ok (mk' b'))
    (ys : Entries) (hp : ys.Perm src) :
    ys.foldlM f (mk' []) = .ok (mk' (ys.filterMap (fun e => c e.1 e.2))) := by
  apply loop_core_perm src ys hp Prod.fst (sorted_keys_nodup hsrc) path
    (fun e => c e.1 e.2) (fun e => gm e.1 e.2)
  · intro e he; exact hc e.1 e.2 he
  · intro e y h; exact hpath e.1 e.2 y h
  · intro b e he; exact hf b e.1 e.2 he

theorem loop_items_canon (src : Entries) (hsrc : AL.sorted src = true)
    (path : Path) (c gm : String → DirTree → Option DNode)
    (hc : ∀ k t, (k, t) ∈ src → (c k t).map canon = gm k t)
    (hpath : ∀ k t y, gm k t = some y → y.path = path ++ [k])
    (ys : Entries) (hp : ys.Perm src) :
    sortedByPath (canonL (ys.filterMap (fun e => c e.1 e.2))) = src.filterMap (fun e => gm e.1 e.2) := by
  apply canon_bucket_perm src ys hp _ _ _ (pathSorted_filterMap hsrc path _ (fun e y h => hpath e.1 e.2 y h))
  intro e he; exact hc e.1 e.2 he


/-! ## the five loops of `compare` -/

/-- the bucket a loop over keys builds -/
def keyBucket (ys : List String) (src : Entries) (c : String → DirTree → Option DNode) : List DNode :=
  ys.filterMap (fun k => (AL.get src k).bind (c k))

/-- the bucket a loop over items builds -/
def itemBucket (ys : Entries) (c : String → DirTree → Option DNode) : List DNode :=
  ys.filterMap (fun e => c e.1 e.2)


/-- `for k, v in curr.items(): ret.added[ret.path / k] = compare(None, v, ret.path / k)` -/
theorem loop_added_items {ord : IterOrd} (hord : PermOrd ord) {path : Path} {pv cv : Option DirTree} {f : DNode → String × DirTree → M DNode} {rm md : List DNode} {fs : Entries}
    (hs : AL.sorted fs = true) (c : String → DirTree → Option DNode)
    (hc : ∀ k t, (k, t) ∈ fs → (c k t).map canon = some (addT (path ++ [k]) t))
    (hf : ∀ ad k t, (k, t) ∈ fs → f (.mk path pv cv rm md ad) (k, t) =
      match c k t with
      | none => .ok (.mk path pv cv rm md ad)
      | some y => (DNode.mk path pv cv rm md ad).setAdded (path ++ [k]) y) :
    (ord _ fs).foldlM f (.mk path pv cv rm md []) = .ok (.mk path pv cv rm md (itemBucket (ord _ fs) c)) :=
  loop_items_eq fs hs path c (fun k t => some (addT (path ++ [k]) t)) hc
    (fun k t y h => by cases h; exact addT_path _ _) (fun b => DNode.mk path pv cv rm md b) f
    (fun b k t h => by rw [hf b k t h]; cases c k t <;> rfl) _ (hord _ fs)

theorem canon_added_items {ord : IterOrd} (hord : PermOrd ord) {path : Path} {fs : Entries} (hs : AL.sorted fs = true) (c : String → DirTree → Option DNode)
    (hc : ∀ k t, (k, t) ∈ fs → (c k t).map canon = some (addT (path ++ [k]) t)) :
    sortedByPath (canonL (itemBucket (ord _ fs) c)) = addEs path fs := by
  rw [addEs_eq]
  exact loop_items_canon fs hs path c (fun k t => some (addT (path ++ [k]) t)) hc
    (fun k t y h => by cases h; exact addT_path _ _) _ (hord _ fs)

/-- `for k, v in prev.items(): ret.removed[ret.path / k] = compare(v, None, ret.path / k)` -/
theorem loop_removed_items {ord : IterOrd} (hord : PermOrd ord) {path : Path} {pv cv : Option DirTree} {f : DNode → String × DirTree → M DNode} {md ad : List DNode} {es : Entries}
    (hs : AL.sorted es = true) (c : String → DirTree → Option DNode)
    (hc : ∀ k t, (k, t) ∈ es → (c k t).map canon = some (remT (path ++ [k]) t))
    (hf : ∀ rm k t, (k, t) ∈ es → f (.mk path pv cv rm md ad) (k, t) =
      match c k t with
      | none => .ok (.mk path pv cv rm md ad)
      | some y => (DNode.mk path pv cv rm md ad).setRemoved (path ++ [k]) y) :
    (ord _ es).foldlM f (.mk path pv cv [] md ad) = .ok (.mk path pv cv (itemBucket (ord _ es) c) md ad) :=
  loop_items_eq es hs path c (fun k t => some (remT (path ++ [k]) t)) hc
    (fun k t y h => by cases h; exact remT_path _ _) (fun b => DNode.mk path pv cv b md ad) f
    (fun b k t h => by rw [hf b k t h]; cases c k t <;> rfl) _ (hord _ es)

theorem canon_removed_items {ord : IterOrd} (hord : PermOrd ord) {path : Path} {es : Entries} (hs : AL.sorted es = true) (c : String → DirTree → Option DNode)
    (hc : ∀ k t, (k, t) ∈ es → (c k t).map canon = some (remT (path ++ [k]) t)) :
    sortedByPath (canonL (itemBucket (ord _ es) c)) = remEs path es := by
  rw [remEs_eq]
  exact loop_items_canon es hs path c (fun k t => some (remT (path ++ [k]) t)) hc
    (fun k t y h => by cases h; exact remT_path _ _) _ (hord _ es)


theorem added_keys_eq {es fs : Entries} (he : AL.sorted es = true) (hs : AL.sorted fs = true) : setDiff (pySet (fs.map Prod.fst)) (pySet (es.map Prod.fst)) =
    (fs.filter (fun e => (AL.get es e.1).isNone)).map Prod.fst := by
  rw [pySet_nodup (sorted_keys_nodup he), pySet_nodup (sorted_keys_nodup hs), setDiff_keys]

theorem modified_keys_eq {es fs : Entries} (he : AL.sorted es = true) (hs : AL.sorted fs = true) :
    setDiff (setDiff (setUnion (pySet (es.map Prod.fst)) (pySet (fs.map Prod.fst)))
      (setDiff (pySet (fs.map Prod.fst)) (pySet (es.map Prod.fst))))
      (setDiff (pySet (es.map Prod.fst)) (pySet (fs.map Prod.fst))) =
    (es.filter (fun e => (AL.get fs e.1).isSome)).map Prod.fst := by
  rw [pySet_nodup (sorted_keys_nodup he), pySet_nodup (sorted_keys_nodup hs), intersection_keys]

/-- `for k in curr_keys - prev_keys: ret.added[ret.path / k] = compare(None, curr[k], ret.path / k)` -/
theorem loop_added_keys {ord : IterOrd} (hord : PermOrd ord) {path : Path} {pv cv : Option DirTree} {es fs : Entries} (he : AL.sorted es = true) (hs : AL.sorted fs = true) 
    {f : DNode → String → M DNode} {rm md : List DNode}
    (c : String → DirTree → Option DNode)
    (hc : ∀ k t, AL.get fs k = some t → (c k t).map canon = some (addT (path ++ [k]) t))
    (hf : ∀ ad k t, AL.get fs k = some t → f (.mk path pv cv rm md ad) k =
      match c k t with
      | none => .ok (.mk path pv cv rm md ad)
      | some y => (DNode.mk path pv cv rm md ad).setAdded (path ++ [k]) y) :
    (ord _ (setDiff (pySet (fs.map Prod.fst)) (pySet (es.map Prod.fst)))).foldlM f (.mk path pv cv rm md []) =
      .ok (.mk path pv cv rm md
        (keyBucket (ord _ (setDiff (pySet (fs.map Prod.fst)) (pySet (es.map Prod.fst)))) fs c)) :=
  loop_keys_eq fs hs _ path c (fun k t => some (addT (path ++ [k]) t)) hc
    (fun k t y h => by cases h; exact addT_path _ _) (fun b => DNode.mk path pv cv rm md b) f
    (fun b k t h _ => by rw [hf b k t h]; cases c k t <;> rfl) _ _ (added_keys_eq he hs) (hord _ _)

theorem canon_added_keys {ord : IterOrd} (hord : PermOrd ord) {path : Path} {es fs : Entries} (he : AL.sorted es = true) (hs : AL.sorted fs = true) 
    (c : String → DirTree → Option DNode)
    (hc : ∀ k t, AL.get fs k = some t → (c k t).map canon = some (addT (path ++ [k]) t)) :
    sortedByPath (canonL
      (keyBucket (ord _ (setDiff (pySet (fs.map Prod.fst)) (pySet (es.map Prod.fst)))) fs c)) =
      addSel path fs es := by
  rw [addSel_eq]
  exact loop_keys_canon fs hs _ path c (fun k t => some (addT (path ++ [k]) t)) hc
    (fun k t y h => by cases h; exact addT_path _ _) _ _ (added_keys_eq he hs) (hord _ _)

/-- `for k in prev_keys - curr_keys: ret.removed[ret.path / k] = compare(prev[k], None, ret.path / k)` -/
theorem loop_removed_keys {ord : IterOrd} (hord : PermOrd ord) {path : Path} {pv cv : Option DirTree} {es fs : Entries} (he : AL.sorted es = true) (hs : AL.sorted fs = true) 
    {f : DNode → String → M DNode} {md ad : List DNode}
    (c : String → DirTree → Option DNode)
    (hc : ∀ k t, AL.get es k = some t → (c k t).map canon = some (remT (path ++ [k]) t))
    (hf : ∀ rm k t, AL.get es k = some t → f (.mk path pv cv rm md ad) k =
      match c k t with
      | none => .ok (.mk path pv cv rm md ad)
      | some y => (DNode.mk path pv cv rm md ad).setRemoved (path ++ [k]) y) :
    (ord _ (setDiff (pySet (es.map Prod.fst)) (pySet (fs.map Prod.fst)))).foldlM f (.mk path pv cv [] md ad) =
      .ok (.mk path pv cv
        (keyBucket (ord _ (setDiff (pySet (es.map Prod.fst)) (pySet (fs.map Prod.fst)))) es c) md ad) :=
  loop_keys_eq es he _ path c (fun k t => some (remT (path ++ [k]) t)) hc
    (fun k t y h => by cases h; exact remT_path _ _) (fun b => DNode.mk path pv cv b md ad) f
    (fun b k t h _ => by rw [hf b k t h]; cases c k t <;> rfl) _ _ (added_keys_eq hs he) (hord _ _)

theorem canon_removed_keys {ord : IterOrd} (hord : PermOrd ord) {path : Path} {es fs : Entries} (he : AL.sorted es = true) (hs : AL.sorted fs = true) 
    (c : String → DirTree → Option DNode)
    (hc : ∀ k t, AL.get es k = some t → (c k t).map canon = some (remT (path ++ [k]) t)) :
    sortedByPath (canonL
      (keyBucket (ord _ (setDiff (pySet (es.map Prod.fst)) (pySet (fs.map Prod.fst)))) es c)) =
      remSel path es fs := by
  rw [remSel_eq]
  exact loop_keys_canon es he _ path c (fun k t => some (remT (path ++ [k]) t)) hc
    (fun k t y h => by cases h; exact remT_path _ _) _ _ (added_keys_eq hs he) (hord _ _)

/-- `for k in (prev_keys | curr_keys) - added - removed: d = compare(prev[k], curr[k], ret.path / k);
if d is not None: ret.modified[ret.path / k] = d` (`c k t` already looks `curr[k]` up) -/
theorem loop_modified_keys {ord : IterOrd} (hord : PermOrd ord) {path : Path} {pv cv : Option DirTree} {es fs : Entries} (he : AL.sorted es = true) (hs : AL.sorted fs = true) 
    {f : DNode → String → M DNode} {rm ad : List DNode}
    (c : String → DirTree → Option DNode)
    (hc : ∀ k t, AL.get es k = some t →
      (c k t).map canon = (AL.get fs k).bind (cmpT (path ++ [k]) t))
    (hf : ∀ md k t u, AL.get es k = some t → AL.get fs k = some u → f (.mk path pv cv rm md ad) k =
      match c k t with
      | none => .ok (.mk path pv cv rm md ad)
      | some y => (DNode.mk path pv cv rm md ad).setModified (path ++ [k]) y) :
    (ord _ (setDiff (setDiff (setUnion (pySet (es.map Prod.fst)) (pySet (fs.map Prod.fst)))
        (setDiff (pySet (fs.map Prod.fst)) (pySet (es.map Prod.fst))))
        (setDiff (pySet (es.map Prod.fst)) (pySet (fs.map Prod.fst))))).foldlM f (.mk path pv cv rm [] ad) =
      .ok (.mk path pv cv rm
        (keyBucket (ord _ (setDiff (setDiff (setUnion (pySet (es.map Prod.fst)) (pySet (fs.map Prod.fst)))
          (setDiff (pySet (fs.map Prod.fst)) (pySet (es.map Prod.fst))))
          (setDiff (pySet (es.map Prod.fst)) (pySet (fs.map Prod.fst))))) es c) ad) :=
  loop_keys_eq es he _ path c (fun k t => (AL.get fs k).bind (cmpT (path ++ [k]) t)) hc
    (fun k t y h => by
      obtain ⟨u, _, h'⟩ := Option.bind_eq_some_iff.mp h
      exact cmpT_path h') (fun b => DNode.mk path pv cv rm b ad) f
    (fun b k t h hP => by
      obtain ⟨u, hu⟩ := Option.isSome_iff_exists.mp hP
      rw [hf b k t u h hu]; cases c k t <;> rfl) _ _ (modified_keys_eq he hs) (hord _ _)

theorem canon_modified_keys {ord : IterOrd} (hord : PermOrd ord) {path : Path} {es fs : Entries} (he : AL.sorted es = true) (hs : AL.sorted fs = true) 
    (c : String → DirTree → Option DNode)
    (hc : ∀ k t, AL.get es k = some t →
      (c k t).map canon = (AL.get fs k).bind (cmpT (path ++ [k]) t)) :
    sortedByPath (canonL
      (keyBucket (ord _ (setDiff (setDiff (setUnion (pySet (es.map Prod.fst)) (pySet (fs.map Prod.fst)))
          (setDiff (pySet (fs.map Prod.fst)) (pySet (es.map Prod.fst))))
          (setDiff (pySet (es.map Prod.fst)) (pySet (fs.map Prod.fst))))) es c)) =
      cmpEs path es fs := by
  rw [cmpEs_eq]
  exact loop_keys_canon es he _ path c (fun k t => (AL.get fs k).bind (cmpT (path ++ [k]) t)) hc
    (fun k t y h => by
      obtain ⟨u, _, h'⟩ := Option.bind_eq_some_iff.mp h
      exact cmpT_path h') _ _ (modified_keys_eq he hs) (hord _ _)



/-! ### `get` does not depend on the insertion order of the buckets -/

theorem perm_insertByPath (x : DNode) (l : List DNode) : (insertByPath x l).Perm (x :: l) := by
  induction l with
  | nil => simp [insertByPath]
  | cons y r ih =>
    simp only [insertByPath]
    split_ifs
    · exact (List.Perm.cons y ih).trans (List.Perm.swap x y r)
    · exact List.Perm.refl _

theorem perm_sortedByPath (l : List DNode) : (sortedByPath l).Perm l := by
  induction l with
  | nil => exact List.Perm.refl _
  | cons x r ih => exact (perm_insertByPath x _).trans (List.Perm.cons x ih)

theorem pathLt_irrefl (p : Path) : pathLt p p = false := by
  cases h : pathLt p p with
  | false => rfl
  | true => exact absurd (pathLt_asymm p p h) (by simp [h])

theorem pathSorted_nodup {l : List DNode} (h : pathSorted l = true) : (l.map DNode.path).Nodup := by
  rw [pathSorted_iff] at h
  rw [List.nodup_iff_pairwise_ne, List.pairwise_map]
  exact h.imp (fun {a b} hab e => by rw [e, pathLt_irrefl] at hab; cases hab)

/-- in a bucket with distinct paths, looking a path up finds the one node that has it -/
theorem findPath_eq_some {l : List DNode} (hn : (l.map DNode.path).Nodup) (q : Path) (d : DNode) :
    findPath q l = some d ↔ d ∈ l ∧ d.path = q := by
  induction l with
  | nil => simp [findPath]
  | cons x r ih =>
    simp only [List.map_cons, List.nodup_cons] at hn
    simp only [findPath]
    split_ifs with hx
    · constructor
      · intro h; cases h; exact ⟨by simp, hx⟩
      · rintro ⟨hm, hq⟩
        rcases List.mem_cons.mp hm with rfl | hm
        · rfl
        · exact absurd (List.mem_map_of_mem (f := DNode.path) hm) (by rw [hq, ← hx]; exact hn.1)
    · rw [ih hn.2]
      constructor
      · rintro ⟨hm, hq⟩; exact ⟨by simp [hm], hq⟩
      · rintro ⟨hm, hq⟩
        rcases List.mem_cons.mp hm with rfl | hm
        · exact absurd hq hx
        · exact ⟨hm, hq⟩

theorem findPath_perm {l1 l2 : List DNode} (hp : l1.Perm l2) (hn : (l1.map DNode.path).Nodup) (q : Path) :
    findPath q l1 = findPath q l2 := by
  have hn2 : (l2.map DNode.path).Nodup := (hp.map _).nodup_iff.mp hn
  cases h : findPath q l1 with
  | some d =>
    have := (findPath_eq_some hn q d).mp h
    exact ((findPath_eq_some hn2 q d).mpr ⟨hp.subset this.1, this.2⟩).symm
  | none =>
    cases h2 : findPath q l2 with
    | none => rfl
    | some d =>
      have := (findPath_eq_some hn2 q d).mp h2
      rw [(findPath_eq_some hn q d).mpr ⟨hp.symm.subset this.1, this.2⟩] at h
      cases h

theorem findPath_map_canon (q : Path) (l : List DNode) :
    findPath q (l.map canon) = (findPath q l).map canon := by
  induction l with
  | nil => rfl
  | cons x r ih =>
    simp only [List.map_cons, findPath, canon_path, ih]
    split_ifs <;> rfl

/-- looking a path up in a bucket, and in the bucket with the order forgotten -/
theorem findPath_canon_bucket (q : Path) (b : List DNode) (hs : pathSorted (sortedByPath (canonL b)) = true) :
    findPath q (sortedByPath (canonL b)) = (findPath q b).map canon := by
  rw [← findPath_map_canon, canonL_map]
  have hn := pathSorted_nodup hs
  rw [canonL_map] at hn hs
  exact findPath_perm (perm_sortedByPath _) hn q

theorem findPath_children_canon (q : Path) (cur : DNode) (hs : sortedD (canon cur) = true) :
    findPath q (Diff.children (canon cur)) = (findPath q (Diff.children cur)).map canon := by
  obtain ⟨p, pv, cv, rm, md, ad⟩ := cur
  simp only [canon, sortedD, Bool.and_eq_true] at hs
  simp only [canon, Diff.children, findPath_append, findPath_canon_bucket q rm hs.1.1.1,
    findPath_canon_bucket q md hs.1.2.1, findPath_canon_bucket q ad hs.2.1]
  cases findPath q rm <;> cases findPath q md <;> cases findPath q ad <;> rfl

theorem mem_children_canon {cur c : DNode} (hc : c ∈ Diff.children cur) : canon c ∈ Diff.children (canon cur) := by
  obtain ⟨p, pv, cv, rm, md, ad⟩ := cur
  simp only [Diff.children, canon, List.mem_append, canonL_map] at hc ⊢
  have hm : ∀ b : List DNode, c ∈ b → canon c ∈ sortedByPath (b.map canon) := fun b h =>
    (perm_sortedByPath _).symm.subset (List.mem_map_of_mem h)
  rcases hc with h | h | h
  · exact Or.inl (hm _ h)
  · exact Or.inr (Or.inl (hm _ h))
  · exact Or.inr (Or.inr (hm _ h))

theorem sortedD_child {m c : DNode} (hs : sortedD m = true) (hc : c ∈ Diff.children m) : sortedD c = true := by
  obtain ⟨p, pv, cv, rm, md, ad⟩ := m
  simp only [sortedD, Bool.and_eq_true] at hs
  simp only [Diff.children, List.mem_append] at hc
  rcases hc with h | h | h
  · exact sortedDL_mem hs.1.1.2 h
  · exact sortedDL_mem hs.1.2.2 h
  · exact sortedDL_mem hs.2.2 h

theorem findPath_mem {q : Path} {l : List DNode} {d : DNode} (h : findPath q l = some d) : d ∈ l := by
  induction l with
  | nil => simp [findPath] at h
  | cons x r ih =>
    simp only [findPath] at h
    split_ifs at h
    · cases h; simp
    · simp [ih h]

/-- the walk of `DirDiff.get` on a node and on the node with the order of its buckets forgotten -/
theorem getFrom_canon : ∀ (rest : Path) (cur : DNode) (pre : Path), sortedD (canon cur) = true →
    getFrom (canon cur) pre rest = (getFrom cur pre rest).map canon := by
  intro rest
  induction rest with
  | nil => intro cur pre _; simp [getFrom]
  | cons k r ih =>
    intro cur pre hs
    simp only [getFrom, findPath_children_canon _ cur hs]
    cases h : findPath (pre ++ [k]) (Diff.children cur) with
    | none => rfl
    | some c =>
      simp only [Option.map_some]
      exact ih c (pre ++ [k]) (sortedD_child hs (mem_children_canon (findPath_mem h)))

theorem get_canon (r : Option DNode) (p : Path) (hs : ∀ d, r = some d → sortedD (canon d) = true) :
    Diff.get (r.map canon) p = (Diff.get r p).map canon := by
  cases r with
  | none => rfl
  | some d => exact getFrom_canon p d [] (hs d rfl)


/-! ## `DirDiff.get` -/

theorem nextOrNone_eq_findPath (q : Path) (l : List DNode) :
    nextOrNone (fun x => pathEq x.path q) l = findPath q l := by
  induction l with
  | nil => rfl
  | cons d r ih => rw [nextOrNone, findPath, ih]; simp [pathEq]

theorem inits_eq_cons (p : Path) : inits p = [] :: (inits p).tail := by
  cases p <;> simp [inits]

theorem inits_getLast (p : Path) : (inits p).getLast? = some p := by
  induction p with
  | nil => simp [inits]
  | cons k r ih => simp [inits, List.getLast?_cons, List.getLast?_map, ih]

/-- `prefixes = [path] + list(path.parents); prefixes.pop()` leaves the non-empty prefixes of the
path, longest first -/
theorem prefixes_pop (p : Path) :
    listPop ([p] ++ parents p) = .ok (((inits p).tail).reverse, []) := by
  have h1 : [p] ++ parents p = (inits p).reverse := by
    have := List.dropLast_append_getLast? p (inits_getLast p)
    rw [parents]
    conv_rhs => rw [← this]
    simp
  rw [h1]
  obtain ⟨t, ht⟩ : ∃ t, inits p = [] :: t := ⟨_, inits_eq_cons p⟩
  rw [ht]
  simp [listPop]

/-- the `while prefixes:` loop of `get` -/
theorem loop_get {body : DNode → Path → M (Sum (Option DNode) DNode)}
    (hb : ∀ cur q, body cur q = .ok (match findPath q (Diff.children cur) with
      | none => .inl none
      | some c => .inr c)) :
    ∀ (rest : Path) (cur : DNode) (pre : Path),
      forRet body ((inits rest).tail.map (fun q => pre ++ q)) cur =
        .ok (match getFrom cur pre rest with
          | none => .inl none
          | some c => .inr c) := by
  intro rest
  induction rest with
  | nil => intro cur pre; simp [inits, forRet, getFrom]
  | cons k r ih =>
    intro cur pre
    have h1 : (inits (k :: r)).tail.map (fun q => pre ++ q) =
        (pre ++ [k]) :: (inits r).tail.map (fun q => (pre ++ [k]) ++ q) := by
      obtain ⟨t, ht⟩ : ∃ t, inits r = [] :: t := ⟨_, inits_eq_cons r⟩
      simp [inits, ht]
    rw [h1, forRet, hb, getFrom]
    cases findPath (pre ++ [k]) (Diff.children cur) with
    | none => simp
    | some c => simpa using ih c (pre ++ [k])

theorem loop_get_top {body : DNode → Path → M (Sum (Option DNode) DNode)} (p : Path) (r : DNode)
    (hb : ∀ cur q, body cur q = .ok (match findPath q (Diff.children cur) with
      | none => .inl none
      | some c => .inr c)) :
    forRet body (inits p).tail r = .ok (match getFrom r [] p with
          | none => .inl none
          | some c => .inr c) := by
  simpa using loop_get hb p r []

end MetadorModel.Bridge.Diff
