import MetadorModel.Bridge.SubtypeFns
/-! Bridge (continued): `check_allowed_types`, `detect_field_overrides`, `check_overrides` of schema/core.py, translated
on every `./check C13` run (`Gen/SubtypeFns.lean`), equal the model's `checkAllowed`, `detectOverrides`,
`checkOverrides` (`Model/Subtype.lean`). -/
namespace MetadorModel.Bridge.SubtypeFns
open MetadorModel MetadorModel.Codec MetadorModel.Subtype MetadorModel.SubtypePy

/-! ## schema/core.py: `check_allowed_types` -/

theorem gen_ctm_any (fuel : Nat) (h : 0 < fuel) (an : Bool) :
    Gen.SubtypeFns._check_type_mergeable fuel .any an = pure true := by
  obtain ⟨f, rfl⟩ : ∃ f, fuel = f + 1 := ⟨fuel - 1, by omega⟩
  simp [Gen.SubtypeFns._check_type_mergeable, Gen.SubtypeFns._is_list_or_set, Gen.SubtypeFns.is_list,
    Gen.SubtypeFns.is_set, Gen.SubtypeFns.is_union, getOrigin]

theorem filter_isUndef (l : List Hint) : List.filter isUndefVersion l = [] := by
  induction l with
  | nil => rfl
  | cons a l ih => simp [List.filter, isUndefVersion, ih]

/-- what `check_allowed_types` requires of one entry of `_typehints` -/
def allowedHint : Str × Hint → Bool
  | (_, .ty t) => mergeable true t
  | _ => true

/-- `check_allowed_types` is the model's `checkAllowed`: public field names, enough interpreter stack -/
theorem gen_check_allowed_types (T : Table) (fuel : Nat) (n : Str) (c : ClassDef) (hc : find T n = some c)
    (hpub : ∀ x ∈ dictKeys (clsTypehints T (.cls n)), PubName x)
    (hfuel : ∀ p ∈ typeHints T n, tyDepth p.2 < fuel) (h0 : 0 < fuel) :
    Gen.SubtypeFns.check_allowed_types T fuel (.cls n) = ofRefusal (checkAllowed T c) := by
  have hn : c.name = n := C13.find_name T n c hc
  have hall : (clsTypehints T (.cls n)).all allowedHint = (typeHints T n).all (fun p => mergeable true p.2) := by
    simp [clsTypehints, hintsOf, anyOf, List.all_append, List.all_map, Function.comp_def, allowedHint]
  simp only [Gen.SubtypeFns.check_allowed_types]
  rw [foldlM_check' _ allowedHint .typeError]
  · rw [hall, checkAllowed, hn]
    cases (typeHints T n).all (fun p => mergeable true p.2) <;> simp [ofRefusal] <;> rfl
  · intro it hit
    have hp := gen_is_public_name it.1 (hpub it.1 (by simp only [dictKeys, List.mem_map]; exact ⟨it, hit, rfl⟩))
    obtain ⟨k, h⟩ := it
    simp only [hp, pure_bind, Bool.not_true, Bool.false_eq_true, if_false,
      Gen.SubtypeFns.is_mergeable_type, filter_isUndef, List.head?_nil]
    simp only [clsTypehints, List.mem_append, hintsOf, anyOf, List.mem_map] at hit
    rcases hit with ⟨p, hp', hpe⟩ | ⟨p, hp', hpe⟩
    · obtain ⟨rfl, rfl⟩ := Prod.mk.inj hpe.symm
      rw [gen_check_type_mergeable fuel p.2 true (hfuel p hp')]
      simp only [pure_bind, allowedHint]
      by_cases hm : mergeable true p.2 = true <;> simp [hm]
    · obtain ⟨rfl, rfl⟩ := Prod.mk.inj hpe.symm
      rw [gen_ctm_any fuel h0]
      simp [allowedHint]


/-! ## schema/core.py: `detect_field_overrides`, `check_overrides` -/

/-- the recursive equations of `typeHints` / `allConsts` at the class `c` named `n` (they hold for every
class of a table whose parent links are acyclic; the model cuts recursion off by fuel) -/
structure Unfolds (T : Table) (n : Str) (c : ClassDef) : Prop where
  hints : typeHints T n = ((ownHints (baseHints T c) c).foldl (fun acc (p : Str × Ty) => setHint p.1 p.2 acc)
      (baseHints T c)).filter (fun p => !hasKey p.1 c.consts)
  consts : allConsts T n = c.consts.foldl (fun acc (p : Str × Json) => setKey p.1 p.2 acc) (baseConsts T c)

theorem isEmpty_filter {α : Type} (p : α → Bool) (l : List α) : (l.filter p).isEmpty = !l.any p := by
  induction l with
  | nil => rfl
  | cons a l ih => cases h : p a <;> simp [List.filter_cons, h, ih]

theorem all_congr_mem {α : Type} (g : α → Bool) (l1 l2 : List α) (h : ∀ x, x ∈ l1 ↔ x ∈ l2) : l1.all g = l2.all g := by
  rw [Bool.eq_iff_iff]
  simp only [List.all_eq_true]
  constructor
  · intro h1 x hx; exact h1 x ((h x).mpr hx)
  · intro h1 x hx; exact h1 x ((h x).mp hx)

theorem any_congr_mem {α : Type} (g : α → Bool) (l1 l2 : List α) (h : ∀ x, x ∈ l1 ↔ x ∈ l2) : l1.any g = l2.any g := by
  rw [Bool.eq_iff_iff]
  simp only [List.any_eq_true]
  constructor
  · rintro ⟨x, hx, hg⟩; exact ⟨x, (h x).mp hx, hg⟩
  · rintro ⟨x, hx, hg⟩; exact ⟨x, (h x).mpr hx, hg⟩

theorem mem_setDiff (x : Str) (a b : List Str) : x ∈ setDiff a b ↔ x ∈ a ∧ x ∉ b := by
  simp [setDiff]

theorem mem_setInter (x : Str) (a b : List Str) : x ∈ setInter a b ↔ x ∈ a ∧ x ∈ b := by
  simp [setInter]

theorem mem_dictKeys_filter_key {α : Type} (x : Str) (p : Str → Bool) (d : List (Str × α)) :
    x ∈ dictKeys (d.filter (fun it => p it.1)) ↔ x ∈ dictKeys d ∧ p x = true := by
  simp only [dictKeys, List.mem_map, List.mem_filter]
  constructor
  · rintro ⟨q, ⟨hq, hp⟩, rfl⟩; exact ⟨⟨q, hq, rfl⟩, hp⟩
  · rintro ⟨⟨q, hq, rfl⟩, hp⟩; exact ⟨q, ⟨hq, hp⟩, rfl⟩

theorem mem_keys_base (T : Table) (n : Str) (c : ClassDef) (hc : find T n = some c) (x : Str) :
    x ∈ dictKeys (clsBaseTypehints T (.cls n)) ↔ (getHint x (baseHints T c)).isSome = true ∨ hasKey x (baseConsts T c) = true := by
  simp only [clsBaseTypehints, hc, dictKeys, List.map_append, List.mem_append]
  rw [← mem_keys_getHint, hasKey_iff]
  simp [hintsOf, anyOf, dictKeys]

theorem mem_keys_anns (T : Table) (n : Str) (c : ClassDef) (hc : find T n = some c) (x : Str) :
    x ∈ dictKeys (clsAnnotations T (.cls n)) ↔ x ∈ (ownHints (baseHints T c) c).map (·.1) ∨ hasKey x c.consts = true := by
  simp only [clsAnnotations, hc, mem_dictKeys_dictUpdate, dictKeys_hintsOf, dictKeys_anyOf, hasKey_iff]

/-- `detect_field_overrides` yields the members of the model's `detectOverrides` -/
theorem gen_detect_field_overrides (T : Table) (n : Str) (c : ClassDef) (hc : find T n = some c)
    (hu : Unfolds T n c) (hpub : ∀ x ∈ dictKeys (clsAnnotations T (.cls n)), PubName x) :
    ∃ A, Gen.SubtypeFns.detect_field_overrides T (.cls n) = pure A ∧ ∀ x, x ∈ A ↔ x ∈ detectOverrides T c := by
  have hn : c.name = n := C13.find_name T n c hc
  refine ⟨setInter (dictKeys (clsBaseTypehints T (.cls n)))
    (dictKeys ((clsAnnotations T (.cls n)).filter (fun it => !hasKey it.1 (allConsts T n)))), ?_, ?_⟩
  · simp only [Gen.SubtypeFns.detect_field_overrides]
    rw [filterM_pure _ (fun it => !hasKey it.1 (allConsts T n))]
    · rfl
    · intro it hit
      have hp := gen_is_public_name it.1 (hpub it.1 (by simp only [dictKeys, List.mem_map]; exact ⟨it, hit, rfl⟩))
      simp [Gen.SubtypeFns.is_pub_instance_field, hp, clsConstants, dictHas_eq_hasKey]
  · intro x
    rw [mem_setInter, mem_dictKeys_filter_key x (fun k => !hasKey k (allConsts T n)), mem_keys_base T n c hc,
      mem_keys_anns T n c hc]
    have hk : hasKey x (allConsts T n) = true ↔ hasKey x (baseConsts T c) = true ∨ hasKey x c.consts = true := by
      rw [hu.consts, hasKey_foldl_setKey]
    simp only [detectOverrides, hn, List.mem_filter, Bool.and_eq_true, Bool.not_eq_true']
    cases h1 : hasKey x (allConsts T n) <;> simp_all <;> tauto

/-- the test `check_overrides` makes for one undeclared override -/
def okOverride (T : Table) (n : Str) (c : ClassDef) (x : Str) : Bool :=
  match getHint x (typeHints T n), getHint x (baseHints T c) with
  | some h, some ph => isSubtype T h ph
  | _, _ => true

/-- `check_overrides` is the model's `checkOverrides`, whatever order the interpreter iterates the set of
undeclared overrides in -/
theorem gen_check_overrides (T : Table) (setOrder : List Str → List Str) (fuel : Nat) (n : Str) (c : ClassDef)
    (hc : find T n = some c) (hu : Unfolds T n c)
    (hpub : ∀ x ∈ dictKeys (clsAnnotations T (.cls n)), PubName x)
    (hord : ∀ l x, x ∈ setOrder l ↔ x ∈ l)
    (hfuel : ∀ p ∈ typeHints T n, annDepth p.2 < fuel) :
    Gen.SubtypeFns.check_overrides T setOrder fuel (.cls n) = ofRefusal (checkOverrides T c) := by
  have hn : c.name = n := C13.find_name T n c hc
  obtain ⟨A, hA, hmem⟩ := gen_detect_field_overrides T n c hc hu hpub
  simp only [Gen.SubtypeFns.check_overrides, hA, pure_bind]
  -- the two set tests
  have hU : (setDiff (clsOverrides T (.cls n)) (dictKeys (clsBaseTypehints T (.cls n)))).isEmpty =
      !c.overrides.any (fun m => (getHint m (baseHints T c)).isNone && !hasKey m (baseConsts T c)) := by
    simp only [setDiff, isEmpty_filter, clsOverrides, hc]
    congr 2; funext m
    rw [Bool.eq_iff_iff]
    simp only [Bool.not_eq_true', List.contains_eq_mem, decide_eq_false_iff_not, mem_keys_base T n c hc,
      Bool.and_eq_true]
    cases getHint m (baseHints T c) <;> cases hasKey m (baseConsts T c) <;> simp
  have hM : (setDiff (clsOverrides T (.cls n)) A).isEmpty =
      !c.overrides.any (fun m => !(detectOverrides T c).contains m) := by
    simp only [setDiff, isEmpty_filter, clsOverrides, hc]
    congr 2; funext m
    rw [Bool.eq_iff_iff]
    simp [hmem m]
  rw [hU, hM]
  unfold checkOverrides
  simp only [hn]
  by_cases h1 : c.overrides.any (fun m => (getHint m (baseHints T c)).isNone && !hasKey m (baseConsts T c)) = true
  · simp only [h1]; rfl
  have h1' : c.overrides.any (fun m => (getHint m (baseHints T c)).isNone && !hasKey m (baseConsts T c)) = false := by
    simpa using h1
  simp only [h1', Bool.not_false, Bool.not_true, Bool.false_eq_true, if_false, if_true]
  by_cases h2 : c.overrides.any (fun m => !(detectOverrides T c).contains m) = true
  · simp only [h2]; rfl
  have h2' : c.overrides.any (fun m => !(detectOverrides T c).contains m) = false := by simpa using h2
  simp only [h2', Bool.not_false, Bool.not_true, Bool.false_eq_true, if_false, if_true]
  -- the loop
  rw [foldlM_check' _ (okOverride T n c) .typeError]
  · have hundecl : ∀ x, x ∈ setOrder (setDiff A (clsOverrides T (.cls n))) ↔
        x ∈ (detectOverrides T c).filter (fun m => !c.overrides.contains m) := by
      intro x
      rw [hord, mem_setDiff, hmem]
      simp [clsOverrides, hc]
    rw [all_congr_mem _ _ _ hundecl]
    rw [List.map_congr_left (g := fun m => if okOverride T n c m then Except.ok () else Except.error Refusal.typeError)
      (by
        intro m _
        unfold okOverride
        cases getHint m (typeHints T n) with
        | none => simp
        | some h =>
          cases getHint m (baseHints T c) with
          | none => simp
          | some ph => simp)]
    rw [firstErr_all _ .typeError]
    · simp only [List.all_map, Function.comp_def]
      have : ∀ b : Bool, isOkB (if b = true then Except.ok () else Except.error Refusal.typeError) = b := by
        intro b; cases b <;> rfl
      simp only [this]
      cases ((detectOverrides T c).filter (fun m => !c.overrides.contains m)).all (okOverride T n c) <;> rfl
    · intro r hr
      simp only [List.mem_map] at hr
      obtain ⟨m, _, rfl⟩ := hr
      cases okOverride T n c m <;> simp
  · intro x hx
    rw [hord, mem_setDiff, hmem] at hx
    obtain ⟨hx1, _⟩ := hx
    simp only [detectOverrides, hn, List.mem_filter, Bool.and_eq_true, Bool.not_eq_true'] at hx1
    obtain ⟨hown, hnc, hbase⟩ := hx1
    obtain ⟨ph, hph⟩ := Option.isSome_iff_exists.mp hbase
    -- the class has the field
    have hth : (getHint x (typeHints T n)).isSome = true := by
      rw [hu.hints, getHint_filter_key x (fun k => !hasKey k c.consts)]
      have : hasKey x c.consts = false := by
        cases h : hasKey x c.consts
        · rfl
        · have := (hasKey_foldl_setKey x c.consts (baseConsts T c)).mpr (Or.inr h)
          rw [← hu.consts, hnc] at this; exact absurd this (by simp)
      simp only [this, Bool.not_false, if_true]
      exact (getHint_foldl_setHint_isSome x _ _).mpr (Or.inr hown)
    obtain ⟨h, hh⟩ := Option.isSome_iff_exists.mp hth
    have hg1 : dictGet (clsTypehints T (.cls n)) x = pure (.ty h) := by
      simp [dictGet, clsTypehints, dictGet?_append, dictGet?_hintsOf, hh]
    have hg2 : dictGet (clsBaseTypehints T (.cls n)) x = pure (.ty ph) := by
      simp [dictGet, clsBaseTypehints, hc, dictGet?_append, dictGet?_hintsOf, hph]
    have hmemh : (x, h) ∈ typeHints T n := by
      have : ∀ (l : List (Str × Ty)), getHint x l = some h → (x, h) ∈ l := by
        intro l
        induction l with
        | nil => simp [getHint]
        | cons q l ih =>
          obtain ⟨k, v⟩ := q
          simp only [getHint]
          split
          · rename_i hk; intro hv; simp at hk hv; simp [hk, hv]
          · intro hv; simp [ih hv]
      exact this _ hh
    simp only [hg1, hg2, pure_bind, gen_is_subtype T fuel h ph (hfuel (x, h) hmemh), okOverride, hh, hph]
    cases isSubtype T h ph <;> simp

end MetadorModel.Bridge.SubtypeFns
