import MetadorModel.Bridge.TocFnsLinks
import MetadorModel.Bridge.TocFnsMeta
/-!
# Bridge: translated wrapper methods (`MetadorNode._guard_path / _destroy_meta`,
`MetadorGroup._destroy_meta / __delitem__ / move / copy`) and `MetadorContainerTOC.query` = model

The methods are translated for the container root (`self = mc`): names are absolute paths, source and
destination of `copy` are given as paths. Access flags (`_guard_acl`, `acl[...]`) are property C15's and
are unrestricted here.
-/
namespace MetadorModel.Bridge.TocFns
open MetadorModel.Container MetadorModel.CtrPy MetadorModel.Gen.TocFns


/-! ### `_guard_path`, `_destroy_meta`, `__delitem__` -/

theorem gen_guard_path : MetadorNode._guard_path = guardPath := by
  funext p s
  by_cases h : isInternal p = true <;> simp [MetadorNode._guard_path, guardPath, h, mrun]

/-- the model's `MetadorMeta(node)` -/
def openHandleM (p : Path) : M Handle := fun s => (.ok (openHandle s p (isDataset s.raw p)), s)
/-- the model's `_destroy` (the handle is a temporary) -/
def destroyM (h : Handle) (unlink : Bool) : M Handle := do h.destroy unlink; pure h
/-- `node._destroy_meta(_unlink)` of the model, for a node of either kind -/
def destroyMetaM (p : Path) (unlink : Bool) : M Unit := fun s => destroyMeta p (isDataset s.raw p) unlink s

theorem gen_node_destroy_meta (p : Path) (unlink : Bool) :
    MetadorNode._destroy_meta openHandleM destroyM p unlink
      = fun s => (openHandle s p (isDataset s.raw p)).destroy unlink s := by
  funext s
  simp only [MetadorNode._destroy_meta, openHandleM, destroyM, mrun]
  rcases Handle.destroy _ unlink s with ⟨r, s1⟩
  cases r <;> rfl

/-- `MetadorGroup._destroy_meta`: this node, then every child with a name that is not reserved, each with the
same `_unlink` (the recursion is a parameter; the model's `destroyMeta` lists the descendants up front) -/
theorem gen_group_destroy_meta (nodeD rec : Path → Bool → M Unit) (p : Path) (unlink : Bool) :
    MetadorGroup._destroy_meta nodeD rec p unlink = (do
      nodeD p unlink
      let s ← getSt
      forEachM (userChildren s.raw p) (fun c => rec c unlink)) := by
  simp only [MetadorGroup._destroy_meta, bind_pure_unit]

theorem nodeKind_of_has {s : St} {p : Path} (h : has s.raw p = true) : nodeKind s p = some (isDataset s.raw p) := by
  simp only [has] at h
  simp only [nodeKind, isDataset]
  cases hg : get? s.raw p with
  | none => simp [hg] at h
  | some n => cases n <;> rfl

theorem nodeKind_of_not_has {s : St} {p : Path} (h : has s.raw p = false) : nodeKind s p = none := by
  simp only [has] at h
  simp only [nodeKind]
  cases hg : get? s.raw p with
  | none => rfl
  | some n => simp [hg] at h

theorem gen_group_delitem (p : Path) : MetadorGroup.__delitem__ guardPath destroyMetaM p = opDelete p := by
  funext s
  simp only [MetadorGroup.__delitem__, opDelete, mrun]
  by_cases hi : isInternal p = true
  · simp [guardPath, hi]
  · have hgp : guardPath p s = (.ok (), s) := by simp [guardPath, hi]
    simp only [hgp]
    cases hh : has s.raw p with
    | false => simp [nodeKind_of_not_has hh]
    | true =>
      simp only [if_true, nodeKind_of_has hh, mrun, destroyMetaM]
      rcases destroyMeta p (isDataset s.raw p) true s with ⟨r, s1⟩
      cases r with
      | error er => rfl
      | ok u =>
        have hgp1 : guardPath p s1 = (.ok (), s1) := by simp [guardPath, hi]
        simp only [hgp1]

/-! ### `MetadorContainerTOC.query` -/

/-- the model's `key in node.meta` -/
def containsM (h : Handle) (k : String × Option Ver) : M Bool := fun s => (.ok (h.contains s.c k.1 k.2), s)

def tqStep (name : String) (ver : Option Ver) : List Path → Path → M (List Path) := fun ret q s =>
  (.ok (if (openHandle s q (isDataset s.raw q)).contains s.c name ver then ret ++ [q] else ret), s)

theorem tqStep_loop (name : String) (ver : Option Ver) (s : St) : ∀ (l : List (Path × Bool)) (acc : List Path),
    (∀ qd ∈ l, qd.2 = isDataset s.raw qd.1) →
    pyFoldM (l.map (·.1)) acc (tqStep name ver) s
      = (.ok (acc ++ l.filterMap fun qd => if (openHandle s qd.1 qd.2).contains s.c name ver then some qd.1 else none), s)
  | [], acc, _ => by simp [pyFoldM, mrun]
  | qd :: l, acc, h => by
    have hd := h qd (by simp)
    have hstep : tqStep name ver acc qd.1 s = (.ok (if (openHandle s qd.1 (isDataset s.raw qd.1)).contains s.c name ver
        then acc ++ [qd.1] else acc), s) := rfl
    simp only [List.map_cons, pyFoldM, mrun, hstep]
    rw [tqStep_loop name ver s l _ (fun qd' hm => h qd' (by simp [hm]))]
    by_cases hc : (openHandle s qd.1 (isDataset s.raw qd.1)).contains s.c name ver = true
    · simp [hc, hd]
    · simp [hc, hd]

theorem userNodesFrom_kind {t : Tree} (hk : KeysOK t) (p : Path) :
    ∀ qd ∈ userNodesFrom t p, qd.2 = isDataset t qd.1 := by
  intro qd hm
  simp only [userNodesFrom, List.mem_filterMap] at hm
  obtain ⟨⟨q, n⟩, hmem, hq⟩ := hm
  split at hq
  · cases hq
  · cases hq
    have hg := ((mem_descendants hk).mp hmem).1
    simp only [isDataset, hg]
    cases n <;> rfl

/-- `MetadorContainerTOC.query(schema, version, node=start)` for an existing start node -/
theorem gen_toc_query (name : String) (kv ver : Option Ver) (start : Path) (s : St)
    (hs : has s.raw start = true) (hk : KeysOK s.raw) :
    MetadorContainerTOC.query openHandleM containsM (name, kv) ver (some start) s
      = liftE (tocQuery s start name (pluginArgs (name, kv) ver).2) s := by
  generalize hv : (pluginArgs (name, kv) ver).2 = v'
  have hpa : pluginArgs (name, kv) ver = (name, v') := by rw [← hv]; rfl
  simp only [MetadorContainerTOC.query, hpa, tocQuery, mrun, Option.getD_some]
  by_cases hn : name = ""
  · simp [hn, liftE]
  · have hne : (!(name != "")) = false := by simpa using hn
    simp only [hne, Bool.false_eq_true, if_false, hn, mrun, nodeKind_of_has hs, List.nil_append]
    simp only [openHandleM, containsM]
    have hgrp : isGroup s.raw start = !isDataset s.raw start := by
      simp only [has] at hs
      simp only [isGroup, isDataset]
      cases hg : get? s.raw start with
      | none => simp [hg] at hs
      | some n => cases n <;> simp
    have hbody : ∀ (ret : List Path) (q : Path), (do
        let tmp3 ← openHandleM q
        let tmp4 ← containsM tmp3 (name, v')
        if tmp4 = true then pure (ret ++ [q]) else pure ret) = tqStep name v' ret q := by
      intro ret q; funext s'
      simp only [tqStep, mrun, openHandleM, containsM]
      split <;> rfl
    cases hd : isDataset s.raw start with
    | true =>
      cases hc : (openHandle s start true).contains s.c name v' <;>
        simp [hgrp, hd, hc, liftE, mrun]
    | false =>
      cases hc : (openHandle s start false).contains s.c name v' <;>
        simp only [hgrp, hd, hc, Bool.not_false, Bool.not_true, Bool.false_eq_true, if_false, if_true, mrun, userVisit,
          hbody, tqStep_loop name v' s _ _ (userNodesFrom_kind hk start), liftE, List.nil_append, List.singleton_append]



theorem run_openHandleM (p : Path) (s : St) :
    openHandleM p s = (.ok (openHandle s p (isDataset s.raw p)), s) := rfl

/-! ### `move` -/

/-- the model's `find_missing` as an operation of `M` -/
def findMissingM (p : Path) : M (List Path) := fun s => liftE (findMissing s p) s

theorem isGroup_of_has_not_ds {t : Tree} {p : Path} (h : has t p = true) (hd : isDataset t p = false) :
    isGroup t p = true := by
  simp only [has] at h
  simp only [isGroup, isDataset] at hd ⊢
  cases hg : get? t p with
  | none => simp [hg] at h
  | some n => cases n <;> simp_all

/-- `group.move(source, dest)` on the container root. The source asserts that the node the metadata is searched
below is a group; for a moved dataset this is its metadata directory, and that a metadata directory is a
group is part of the invariant (`MetaOK`), here hypothesis `hdir`. -/
theorem gen_group_move (e : Env) (src dst : Path) (s : St)
    (hdir : ∀ t1 t2, rawMove s.raw src dst = .ok t1 → isDataset t1 dst = true →
      (t2 = t1 ∨ rawMove t1 (metaBase src (isDataset s.raw src)) (metaBase dst true) = .ok t2) →
      has t2 (metaBase dst true) = true → isGroup t2 (metaBase dst true) = true) :
    MetadorGroup.move guardPath openHandleM findMissingM (repairMissing e) src dst s = opMove e src dst s := by
  simp only [MetadorGroup.move, opMove, mrun]
  by_cases hi : isInternal src = true
  · simp [guardPath, hi]
  by_cases hj : isInternal dst = true
  · simp [guardPath, hi, hj]
  have hgs : ∀ s', guardPath src s' = (.ok (), s') := fun s' => by simp [guardPath, hi]
  have hgd : ∀ s', guardPath dst s' = (.ok (), s') := fun s' => by simp [guardPath, hj]
  simp only [hgs, hgd]
  cases hh : has s.raw src with
  | false => simp [nodeKind_of_not_has hh]
  | true =>
    simp only [if_true, nodeKind_of_has hh, mrun, run_openHandleM, rawMoveM]
    have hbase : ∀ (s' : St) p d, (openHandle s' p d).baseDir = metaBase p d := fun _ _ _ => rfl
    simp only [hbase]
    cases hm : rawMove s.raw src dst with
    | error er => rfl
    | ok t1 =>
      have hhd : has t1 dst = true := rawMove_has_dst hm
      simp only [hgd, hhd, if_true, nodeKind_of_has (s := { s with raw := t1 }) hhd, mrun]
      cases hdk : isDataset t1 dst with
      | false =>
        simp only [Bool.false_eq_true, if_false, mrun, rawGet, hhd, if_true,
          isGroup_of_has_not_ds hhd hdk, findMissingM]
        cases findMissing { s with raw := t1 } dst <;> rfl
      | true =>
        simp only [if_true, mrun, run_openHandleM, hdk, hbase]
        cases hsm : has t1 (metaBase src (isDataset s.raw src)) with
        | false =>
          simp only [Bool.false_eq_true, if_false, mrun, rawGet]
          cases hdm : has t1 (metaBase dst true) with
          | false => simp
          | true =>
            have := hdir t1 t1 hm hdk (Or.inl rfl) hdm
            simp only [if_true, this, mrun, findMissingM]
            cases findMissing { s with raw := t1 } (metaBase dst true) <;> rfl
        | true =>
          simp only [if_true, mrun]
          cases hm2 : rawMove t1 (metaBase src (isDataset s.raw src)) (metaBase dst true) with
          | error er => rfl
          | ok t2 =>
            simp only [rawGet]
            cases hdm : has t2 (metaBase dst true) with
            | false => simp
            | true =>
              have := hdir t1 t2 hm hdk (Or.inr hm2) hdm
              simp only [if_true, this, mrun, findMissingM]
              cases findMissing { s with raw := t2 } (metaBase dst true) <;> rfl



/-! ### `copy` -/

/-- the destination exists after a successful `raw.copy` -/
theorem rawCopy_has_dst {t t' : Tree} {src dst : Path} (h : rawCopy t src dst = .ok t') : has t' dst = true := by
  obtain ⟨hs, hd, hsrc, _, t1, h1, rfl⟩ := rawCopy_inv h
  rw [get?_ne_nil hs] at hsrc
  obtain ⟨n, hn⟩ := Option.ne_none_iff_exists'.mp hsrc
  have hm : (dst, n) ∈ ((t.filter fun e => under src e.1).map fun e => (rebase src dst e.1, e.2)) ++ t1 := by
    refine List.mem_append_left _ (List.mem_map.mpr ⟨(src, n), ?_, ?_⟩)
    · have : under src src = true := under_iff.mpr (List.prefix_refl _)
      simp [lookup_some_mem hn, this]
    · simp [rebase]
  simp only [has, get?, hd, if_false]
  exact lookup_isSome_of_mem _ _ _ hm

/-- `group.copy(source, dest, without_meta=…)` on the container root, source and destination given as paths.
`hkind`: the copy of a dataset is a dataset, the copy of a group a group, and the source keeps its kind (laws of
the raw driver; for the model's tree they follow from `PClosed`, see `rawCopy_get?`); `hdir`: the copied metadata directory of a dataset
is a group (`MetaOK`) — the source asserts it. -/
theorem gen_group_copy (e : Env) (src dst : Path) (withoutMeta : Bool) (s : St)
    (hkind : ∀ t1, rawCopy s.raw src dst = .ok t1 →
      isDataset t1 dst = isDataset s.raw src ∧ isDataset t1 src = isDataset s.raw src)
    (hdir : ∀ t1 t2, rawCopy s.raw src dst = .ok t1 →
      rawCopy t1 (metaBase src true) (metaBase dst true) = .ok t2 → isGroup t2 (metaBase dst true) = true) :
    MetadorGroup.copy guardPath openHandleM destroyMetaM findMissingM (repairMissing e) src dst withoutMeta s
      = opCopy e src dst withoutMeta s := by
  simp only [MetadorGroup.copy, opCopy, mrun]
  by_cases hi : isInternal src = true
  · simp [guardPath, hi]
  have hgs : ∀ s', guardPath src s' = (.ok (), s') := fun s' => by simp [guardPath, hi]
  simp only [hgs]
  cases hh : has s.raw src with
  | false => simp [nodeKind_of_not_has hh]
  | true =>
    simp only [if_true, nodeKind_of_has hh, mrun]
    by_cases hj : isInternal dst = true
    · simp [guardPath, hj]
    have hgd : ∀ s', guardPath dst s' = (.ok (), s') := fun s' => by simp [guardPath, hj]
    simp only [hgd, rawCopyM, mrun, ite_self]
    have hbase : ∀ (s' : St) p d, (openHandle s' p d).baseDir = metaBase p d := fun _ _ _ => rfl
    cases hc : rawCopy s.raw src dst with
    | error er => rfl
    | ok t1 =>
      have hhd : has t1 dst = true := rawCopy_has_dst hc
      obtain ⟨hk1, hk2⟩ := hkind t1 hc
      simp only [hgd, hhd, if_true, nodeKind_of_has (s := { s with raw := t1 }) hhd, mrun]
      cases hk : isDataset s.raw src with
      | true =>
        rw [hk] at hk1 hk2
        cases withoutMeta with
        | true => simp [mrun]
        | false =>
          simp only [Bool.not_false, Bool.and_self, if_true, mrun, run_openHandleM, hk, hk1, hk2, hbase, Bool.not_true,
            Bool.false_eq_true, if_false]
          cases hc2 : rawCopy t1 (metaBase src true) (metaBase dst true) with
          | error er => rfl
          | ok t2 =>
            have h2 : has t2 (metaBase dst true) = true := rawCopy_has_dst hc2
            have hg2 := hdir t1 t2 hc hc2
            simp only [h2, if_true, hg2, mrun, findMissingM]
            cases findMissing { s with raw := t2 } (metaBase dst true) with
            | error er => rfl
            | ok missing =>
              simp only [liftE, mrun]
              rcases repairMissing e missing false _ with ⟨r, s3⟩
              cases r <;> rfl
      | false =>
        rw [hk] at hk1
        simp only [Bool.false_and, Bool.false_eq_true, if_false, mrun, Bool.not_false, if_true]
        cases withoutMeta with
        | true =>
          simp only [if_true, destroyMetaM, hk1]
        | false =>
          simp only [Bool.false_eq_true, if_false, mrun, findMissingM]
          cases findMissing { s with raw := t1 } dst with
          | error er => rfl
          | ok missing =>
            simp only [liftE, mrun]

end MetadorModel.Bridge.TocFns
