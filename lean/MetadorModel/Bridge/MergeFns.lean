import MetadorModel.Gen.MergeFns
import MetadorModel.Bridge.MergeFnsTree
import MetadorModel.Bridge.MergeFnsCommit
/-!
# Bridge for C05: `IH5Record.merge_files`, `IH5MFRecord.merge_files`, `_fixes_after_merge` as regenerated
from the source
-/
namespace MetadorModel.Bridge.MergeFns
open MetadorModel.Tree MetadorModel.Overlay MetadorModel.Merge MetadorModel.MergePy MetadorModel.Single
open MetadorModel.Gen.MergeFns
variable {V : Type} {α : Type}

theorem pyIdx_neg_one (l : List α) (x : α) (h : l.getLast? = some x) : pyIdx l (-1 : Int) = .ok x := by
  obtain ⟨init, rfl⟩ : ∃ init, l = init ++ [x] := by
    rcases List.eq_nil_or_concat l with rfl | ⟨init, y, rfl⟩
    · simp at h
    · refine ⟨init, ?_⟩
      simp at h; rw [h]; simp
  exact pyIdx_last init x

theorem pyIdx_zero' (l : List α) (x : α) (h : l.head? = some x) : pyIdx l (0 : Int) = .ok x := by
  cases l with
  | nil => simp at h
  | cons a t => simp at h; subst h; exact pyIdx_zero a t

/-- is the block marked as a stub (`is_stub` inside `IH5MFRecord.merge_files`) -/
def stubFlag (u : PUB) : Bool := match u.ext with | some e => e.isStub | none => false

/-- the flags `merge_files` of the object's class looks at: the manifest class scans the user blocks of all
containers, the plain class none -/
def flagsOf (o : Obj V) : List Bool :=
  match o.cls with
  | .IH5MFRecord => o.ubs.map stubFlag
  | .IH5Record => []

def refusalErr : Refusal → PyErr
  | .stub => .valueError .containsStub
  | .writable => .valueError .commitOrDiscard

/-- the override of the manifest class: the scan of all user blocks, then the base-class method -/
theorem gen_merge_files_mf (E : Env V) (t : Nat) (w : World V) :
    IH5MFRecord.merge_files E t w =
      if (w.self.ubs.map stubFlag).any id then (.error (.valueError .containsStub), w)
      else IH5Record.merge_files E t w := by
  unfold IH5MFRecord.merge_files
  simp only [run_bind, run_pySelf]
  rw [List.map_congr_left (g := stubFlag) (by intro x _; unfold stubFlag; cases x.ext <;> rfl)]
  by_cases hs : (w.self.ubs.map stubFlag).any id = true
  · simp [pyAny, hs]
  · simp only [hs, pyAny]
    simp

/-- **refusal**: `merge_files` raises exactly when the model's guard refuses, and then nothing has changed -/
theorem gen_merge_refused (E : Env V) (t : Nat) (w : World V) (r : Refusal) (hopen : w.self.closed = false)
    (hg : mergeGuard (flagsOf w.self) w.self.writable = .error r) :
    dispatch_merge_files E t w = (.error (refusalErr r), w) := by
  unfold dispatch_merge_files
  unfold mergeGuard flagsOf at hg
  have hbase : w.self.writable = true → IH5Record.merge_files E t w = (.error (.valueError .commitOrDiscard), w) := by
    intro hw
    simp [IH5Record.merge_files, pyExpectOpen, hopen, hw]
  cases hcls : w.self.cls
  · -- plain class
    simp only [hcls] at hg
    cases hw : w.self.writable
    · simp [hw] at hg
    · simp [hw] at hg
      subst hg
      simp [hcls, hbase hw, refusalErr]
  · simp only [hcls] at hg
    simp only [run_bind, run_pySelf, hcls, gen_merge_files_mf]
    by_cases hs : (w.self.ubs.map stubFlag).any id = true
    · simp [hs] at hg
      subst hg
      simp [hs, refusalErr]
    · simp [hs] at hg
      cases hw : w.self.writable
      · simp [hw] at hg
      · simp [hw] at hg
        subst hg
        simp [hs, hbase hw, refusalErr]

/-- **a file set that contains a stub cannot be merged** through the manifest class, wherever the stub is, whether
or not there is an uncommitted container -/
theorem gen_stub_merge_refused (E : Env V) (t : Nat) (w : World V) (hcls : w.self.cls = .IH5MFRecord)
    (hopen : w.self.closed = false) (ub : PUB) (e : Ext) (hmem : ub ∈ w.self.ubs) (he : ub.ext = some e)
    (hs : e.isStub = true) :
    dispatch_merge_files E t w = (.error (.valueError .containsStub), w) := by
  have hflag : true ∈ flagsOf w.self := by
    simp only [flagsOf, hcls, List.mem_map]
    exact ⟨ub, hmem, by simp [stubFlag, he, hs]⟩
  have hany : (flagsOf w.self).any id = true := List.any_eq_true.mpr ⟨true, hflag, rfl⟩
  have hg : mergeGuard (flagsOf w.self) w.self.writable = .error .stub := by simp [mergeGuard, hany]
  simpa [refusalErr] using gen_merge_refused E t w .stub hopen hg

/-! ## the merge itself -/

theorem pyGetNode_root (o : Obj V) : pyGetNode o [] = .ok [] := by
  simp [pyGetNode, look, lookFrom]

theorem pyGetNode_top (o : Obj V) (k : Key) (h : k ∈ topKeys o.conts) : pyGetNode o [k] = .ok [k] := by
  obtain ⟨kd, hv⟩ := mem_topKeys o.conts k h
  obtain ⟨c, n, hl⟩ := found_of_viewKind o.conts [k] (by rw [hv]; simp)
  simp [pyGetNode, hl]

theorem copyAttrs_fold (as : List (Key × V)) : ∀ (c : Rec V),
    pyFor as c (fun kv c => W.setAttrRaw c [] kv.1 (some kv.2)) = W.copyAttrs c [] as := by
  induction as with
  | nil => intro c; rfl
  | cons kv more ih =>
    intro c
    obtain ⟨k, v⟩ := kv
    simp only [pyFor, W.copyAttrs]
    congr 1; funext c1
    exact ih c1

theorem liftTree_bind (o : Obj V) (x : Except Tree.Err (Rec V)) (f : Rec V → Except Tree.Err (Rec V)) :
    (liftTree o x >>= fun o1 => liftTree o1 (f o1.conts)) = liftTree o (x >>= f) := by
  cases x with
  | error e => rfl
  | ok c =>
    simp only [liftTree, bind, Except.bind]

/-- the two loops of `merge_files`, run on a target object -/
theorem gen_merge_loops (src ds : Obj V) :
    (pyFor (pyAttrsItems src []) ds (fun kv o => pyNodeAttrSet o [] kv.1 kv.2) >>= fun o1 =>
      pyFor (pyKeys src []) o1 (fun name o =>
        pyGetNode src [name] >>= fun node => pyH5CopyFromTo src node o [] name)) =
      liftTree ds (mergeFold src.conts ds.conts) := by
  have h1 : pyFor (pyAttrsItems src []) ds (fun kv o => pyNodeAttrSet o [] kv.1 kv.2) =
      liftTree ds (W.copyAttrs ds.conts [] (attrsList src.conts [])) := by
    rw [← copyAttrs_fold]
    exact pyFor_liftTree (pyAttrsItems src []) (fun kv c => W.setAttrRaw c [] kv.1 (some kv.2)) ds
  have h2 : ∀ o1 : Obj V, pyFor (pyKeys src []) o1 (fun name o =>
        pyGetNode src [name] >>= fun node => pyH5CopyFromTo src node o [] name) =
      liftTree o1 (pyFor (topKeys src.conts) o1.conts (keyStep src.conts)) := by
    intro o1
    rw [← pyFor_liftTree]
    apply pyFor_congr_mem
    intro k hk b
    have hk' : k ∈ topKeys src.conts := hk
    simp only [List.nil_append, pyGetNode_top src k hk', bind, Except.bind, pyH5CopyFromTo, keyStep, block]
  rw [h1]
  simp only [h2]
  exact liftTree_bind ds _ (fun c => pyFor (topKeys src.conts) c (keyStep src.conts))

/-- the user block `merge_files` writes: the newest block of the source, `prev_patch` of the oldest one, the
checksum of the merged payload (the manifest extension of the newest block is carried along) -/
def mergedUB (E : Env V) (first last : PUB) (c : Cont V) : PUB :=
  { core := { last.core with prev := first.core.prev, hash := some (E.H c) }, ext := last.ext }

/-- what a merge that went through has done -/
structure MergedOK (E : Env V) (t : Nat) (w w' : World V) (c : Cont V) (first last : PUB) : Prop where
  /-- the source object is what it was -/
  self_eq : w'.self = w.self
  /-- the target container holds the merged tree and the merged user block -/
  cont : aget (FName.file t 0) w'.disk = some (.cont (mergedUB E first last c) c)
  /-- no other file has been touched (but the sidecar of the target) -/
  frame : ∀ f, f ≠ FName.file t 0 → f ≠ FName.mfOf (FName.file t 0) → aget f w'.disk = aget f w.disk
  /-- the plain class writes no sidecar; the manifest class leaves the manifest the source has loaded next to the
  target when the merged block links one, a fresh one otherwise -/
  sidecar : match w.self.cls with
    | .IH5Record => aget (FName.mfOf (FName.file t 0)) w'.disk = aget (FName.mfOf (FName.file t 0)) w.disk
    | .IH5MFRecord => ∃ m, aget (FName.mfOf (FName.file t 0)) w'.disk = some (.mf m) ∧
        ∀ m0 e, w.self.manifest = some m0 → last.ext = some e → m = m0

/-- the loops of the generated `merge_files` produce the merged tree -/
theorem merge_loops_ok (src ds : Obj V) (c : Cont V) (hds : ds.conts = Rec.init) (hm : mergeCont src.conts = .ok [c]) :
    ∃ o1, pyFor (pyAttrsItems src []) ds (fun kv o => pyNodeAttrSet o [] kv.1 kv.2) = .ok o1 ∧
      pyFor (pyKeys src []) o1 (fun name o =>
        pyGetNode src [name] >>= fun node => pyH5CopyFromTo src node o [] name) = .ok { ds with conts := [c] } := by
  have hloops := gen_merge_loops src ds
  rw [hds, mergeFold_eq, hm] at hloops
  cases hX : pyFor (pyAttrsItems src []) ds (fun kv o => pyNodeAttrSet o [] kv.1 kv.2) with
  | error e => simp [hX, bind, Except.bind, liftTree] at hloops
  | ok o1 => exact ⟨o1, rfl, by simpa [hX, bind, Except.bind, liftTree] using hloops⟩

theorem gen_merge_files_plain (E : Env V) (t : Nat) (w : World V) (c : Cont V) (first last : PUB)
    (hcls : w.self.cls = .IH5Record)
    (hopen : w.self.closed = false) (hw : w.self.writable = false)
    (hfree : aget (FName.file t 0) w.disk = none)
    (hm : mergeCont w.self.conts = .ok [c])
    (hf : w.self.ubs.head? = some first) (hl : w.self.ubs.getLast? = some last) :
    ∃ w', IH5Record.merge_files E t w = (.ok (.file t 0), w') ∧ MergedOK E t w w' c first last := by
  obtain ⟨o1, hX, hY⟩ := merge_loops_ok w.self
    { cls := w.self.cls, conts := Rec.init, files := [FName.file t 0], ubs := [newBaseUB w.next], writable := true }
    c rfl hm
  unfold IH5Record.merge_files
  simp [pyExpectOpen, hopen, hw, pyGetNode_root, pyNewRecord, pyCreate, hfree]
  rw [pyFor_pure _ _ (fun kv o => pyNodeAttrSet o [] kv.1 kv.2) _ (by intros; rfl)]
  simp only [hX]
  rw [pyFor_pure _ _ (fun name o => pyGetNode w.self [name] >>= fun node => pyH5CopyFromTo w.self node o [] name) _
    (by intro x _ b; simp; cases pyGetNode w.self [x] <;> rfl)]
  simp only [hY]
  simp [pyIdx_zero, pyOn, pyClose, dispatch_commit_patch, hcls, pyBaseCommit, refusalB, pyKwNames, pyUblock,
    pyIdx_neg_one _ _ hl, pyIdx_zero' _ _ hf, pyHashsumPayload, aget_aput_same, dispatch__fixes_after_merge,
    IH5Record._fixes_after_merge, pySaveUB]
  refine ⟨rfl, ?_, ?_, ?_⟩
  · simp [aget_aput_same, mergedUB, PUB.with_prev_patch, PUB.with_hdf5_hashsum]
  · intro f h1 _
    simp [Single.aget_aput, h1]
  · simp [hcls, Single.aget_aput]


theorem gen_merge_files_mfcls (E : Env V) (t : Nat) (w : World V) (c : Cont V) (first last : PUB)
    (hcls : w.self.cls = .IH5MFRecord)
    (hopen : w.self.closed = false) (hw : w.self.writable = false)
    (hfree : aget (FName.file t 0) w.disk = none)
    (hm : mergeCont w.self.conts = .ok [c])
    (hf : w.self.ubs.head? = some first) (hl : w.self.ubs.getLast? = some last)
    (hlink : ∀ m0 e, w.self.manifest = some m0 → last.ext = some e → e.muuid = m0.uuid) :
    ∃ w', IH5Record.merge_files E t w = (.ok (.file t 0), w') ∧ MergedOK E t w w' c first last := by
  obtain ⟨o1, hX, hY⟩ := merge_loops_ok w.self
    { cls := w.self.cls, conts := Rec.init, files := [FName.file t 0], ubs := [newBaseUB w.next], writable := true }
    c rfl hm
  have hcp := gen_commit_patch_ok E
    { self := { cls := Cls.IH5MFRecord, conts := [c], files := [FName.file t 0], ubs := [newBaseUB w.next], writable := true },
      disk := aput (FName.file t 0) (DFile.cont (newBaseUB w.next) Cont.init) w.disk, next := w.next + 2 }
    none none [] (newBaseUB w.next) [] (FName.file t 0) c [] ⟨rfl, rfl, rfl⟩ rfl rfl rfl
  unfold IH5Record.merge_files
  simp [pyExpectOpen, hopen, hw, pyGetNode_root, pyNewRecord, pyCreate, hfree]
  rw [pyFor_pure _ _ (fun kv o => pyNodeAttrSet o [] kv.1 kv.2) _ (by intros; rfl)]
  simp only [hX]
  rw [pyFor_pure _ _ (fun name o => pyGetNode w.self [name] >>= fun node => pyH5CopyFromTo w.self node o [] name) _
    (by intro x _ b; simp; cases pyGetNode w.self [x] <;> rfl)]
  simp only [hY]
  simp [pyIdx_zero, pyOn, pyClose, dispatch_commit_patch, hcls, hcp, pyUblock,
    pyIdx_neg_one _ _ hl, pyIdx_zero' _ _ hf, pyHashsumPayload, aget_aput_same, Single.aget_aput, dispatch__fixes_after_merge,
    IH5MFRecord._fixes_after_merge, pySaveUB]
  cases hman : w.self.manifest with
  | none =>
    simp [hman, Single.aget_aput, ne_mfOf]
    refine ⟨rfl, ?_, ?_, ?_⟩
    · simp [Single.aget_aput, mergedUB, PUB.with_prev_patch, PUB.with_hdf5_hashsum]
    · intro f h1 h2
      simp [Single.aget_aput, h1, h2]
    · simp [hcls, Single.aget_aput, hman, (ne_mfOf (FName.file t 0)).symm]
  | some m0 =>
    cases hext : last.ext with
    | none =>
      simp [hman, hext, PUB.with_prev_patch, PUB.with_hdf5_hashsum, Single.aget_aput, ne_mfOf]
      refine ⟨rfl, ?_, ?_, ?_⟩
      · simp [Single.aget_aput, mergedUB, hext]
      · intro f h1 h2
        simp [Single.aget_aput, h1, h2]
      · simp [hcls, Single.aget_aput, hman, hext, (ne_mfOf (FName.file t 0)).symm]
    | some e =>
      have hu := hlink m0 e hman hext
      simp [hman, hext, hu, PUB.with_prev_patch, PUB.with_hdf5_hashsum, Single.aget_aput, ne_mfOf, gen_manifest,
        pyNotNone, pySaveManifest, pyManifestFilepath]
      refine ⟨rfl, ?_, ?_, ?_⟩
      · simp [Single.aget_aput, mergedUB, hext]
      · intro f h1 h2
        simp [Single.aget_aput, h1, h2]
      · simp [hcls, Single.aget_aput, hman, hext, (ne_mfOf (FName.file t 0)).symm]


/-- **a merge that the guard lets through**: `rec.merge_files(t)` for a record object of either class, a target
record path whose base container does not exist yet, a source whose view can be materialised (`mergeCont`; always
the case when the view is a tree listed parents-first, `gen_merge_files_replayable`), and — for the manifest class —
a loaded manifest that is the one the newest user block links (what `IH5MFRecord._open` / `commit_patch` establish).
The merged container holds exactly `Merge.mergeCont`, its user block is `Merge.mergeUB`, the source object and all
other files are untouched. -/
theorem gen_merge_files_ok (E : Env V) (t : Nat) (w : World V) (c : Cont V) (first last : PUB)
    (hopen : w.self.closed = false)
    (hg : mergeGuard (flagsOf w.self) w.self.writable = .ok ())
    (hfree : aget (FName.file t 0) w.disk = none)
    (hm : mergeCont w.self.conts = .ok [c])
    (hf : w.self.ubs.head? = some first) (hl : w.self.ubs.getLast? = some last)
    (hlink : ∀ m0 e, w.self.manifest = some m0 → last.ext = some e → e.muuid = m0.uuid) :
    ∃ w', dispatch_merge_files E t w = (.ok (.file t 0), w') ∧ MergedOK E t w w' c first last := by
  unfold mergeGuard flagsOf at hg
  unfold dispatch_merge_files
  cases hcls : w.self.cls
  · simp only [hcls] at hg
    have hw : w.self.writable = false := by
      cases hw : w.self.writable
      · rfl
      · simp [hw] at hg
    simp only [run_bind, run_pySelf, hcls]
    exact gen_merge_files_plain E t w c first last hcls hopen hw hfree hm hf hl
  · simp only [hcls] at hg
    by_cases hs : (w.self.ubs.map stubFlag).any id = true
    · simp [hs] at hg
    · have hw : w.self.writable = false := by
        cases hw : w.self.writable
        · rfl
        · simp [hs, hw] at hg
      simp only [run_bind, run_pySelf, hcls, gen_merge_files_mf, hs]
      exact gen_merge_files_mfcls E t w c first last hcls hopen hw hfree hm hf hl hlink

/-- the merged user block is the model's `mergeUB` of the source blocks -/
theorem gen_merged_ub (E : Env V) (ubs : List PUB) (c : Cont V) (first last : PUB)
    (hf : ubs.head? = some first) (hl : ubs.getLast? = some last) :
    mergeUB (ubs.map (·.core)) (E.H c) = some (mergedUB E first last c).core := by
  have h1 : (ubs.map (·.core)).head? = some first.core := by simp [List.head?_map, hf]
  have h2 : (ubs.map (·.core)).getLast? = some last.core := by simp [List.getLast?_map, hl]
  simp [mergeUB, h1, h2, mergedUB]

/-- the same for every record whose view is a tree listed parents-first (the hypothesis `ViewReplayable` of the C05
theorems, reported as `wf T` by the driver on every run): the merged payload is the model's `mergeCont` -/
theorem gen_merge_files_replayable (E : Env V) (t : Nat) (w : World V) (first last : PUB)
    (hrep : Replayable (Overlay.listing w.self.conts))
    (hopen : w.self.closed = false)
    (hg : mergeGuard (flagsOf w.self) w.self.writable = .ok ())
    (hfree : aget (FName.file t 0) w.disk = none)
    (hf : w.self.ubs.head? = some first) (hl : w.self.ubs.getLast? = some last)
    (hlink : ∀ m0 e, w.self.manifest = some m0 → last.ext = some e → e.muuid = m0.uuid) :
    ∃ c w', mergeCont w.self.conts = .ok [c] ∧
      dispatch_merge_files E t w = (.ok (.file t 0), w') ∧ MergedOK E t w w' c first last ∧
      mergeUB (w.self.ubs.map (·.core)) (E.H c) = some (mergedUB E first last c).core := by
  obtain ⟨heq, _⟩ := materialise_eq (Overlay.listing w.self.conts) hrep
  obtain ⟨w', h1, h2⟩ := gen_merge_files_ok E t w _ first last hopen hg hfree heq hf hl hlink
  exact ⟨_, w', heq, h1, h2, gen_merged_ub E _ _ first last hf hl⟩

end MetadorModel.Bridge.MergeFns
