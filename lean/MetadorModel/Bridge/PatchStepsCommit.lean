import MetadorModel.Bridge.PatchSteps
/-!
# Bridge for C11: `IH5Record.commit_patch` and `IH5MFRecord.commit_patch` as regenerated from the source

`gen_commit_patch`: close the HDF5 handle, hash the payload after the user block, put the hash into the
in-memory user block, write the user block, reopen read-only — in this order and nothing else: the
hash-carrying user block is the **last write** to the container. `gen_mf_commit_patch`: the manifest class
prepares the manifest and the linking user block in memory, runs the base-class commit, and writes the sidecar
**after** the container is complete; on `ValueError` the in-memory user block is restored and nothing was written.
-/
set_option linter.unusedSimpArgs false
set_option linter.unusedVariables false
namespace MetadorModel.Bridge.PatchSteps
open MetadorModel.FindFiles MetadorModel.Record MetadorModel.RecordPy MetadorModel.PatchPy
open MetadorModel.Gen.PatchSteps

theorem pyDictGet_pyDictSet_eq (d : List (Name × UB)) (f : Name) (v : UB) : pyDictGet (pyDictSet d f v) f = .ok v := by
  induction d with
  | nil => simp [pyDictSet, pyDictGet]
  | cons a r ih =>
    obtain ⟨k, w⟩ := a
    by_cases hk : k = f
    · simp [pyDictSet, pyDictGet, hk]
    · simp [pyDictSet, pyDictGet, hk, ih]

/-- **`IH5Record.commit_patch(**kw)`** as regenerated from the source is the step sequence `commitPlainW` -/
theorem gen_commit_patch (s : State) (hp : PyRep s.h) (kw : Kw) :
    IH5Record.commit_patch kw (World.ofState s) = commitPlainW s kw := by
  have hcl : (World.ofState s).self.closed = s.h.closed := rfl
  have hal : (World.ofState s).self.allow = s.h.allow := rfl
  have hwr : lastIsRW (World.ofState s).self.files = hasWritable s.h := (hasWritable_eq s.h).symm
  unfold IH5Record.commit_patch commitPlainW
  cases kw with
  | cons a r => simp [pyTruthyList]
  | nil =>
    simp only [pyTruthyList, List.isEmpty_nil, Bool.not_true, Bool.false_eq_true, if_false]
    cases hc : s.h.closed
    case true => simp [gen_expect_open, hcl, hc]
    case false =>
      cases ha : s.h.allow
      case false => simp [gen_expect_open, gen_expect_not_ro, hcl, hal, hc, ha]
      case true =>
        cases hw : hasWritable s.h
        case false => simp [gen_expect_open, gen_expect_not_ro, gen_has_writable, hcl, hal, hwr, hc, ha, hw]
        case true =>
          simp only [run_bind, run_pure, run_pySelf, run_pyLift, gen_expect_open, gen_expect_not_ro, gen_has_writable,
            hcl, hal, hwr, hc, ha, hw, Bool.false_eq_true, if_false, if_true, Bool.not_true]
          rcases nil_or_snoc s.h.files with hnil | ⟨init, ⟨f, ub⟩, hsn⟩
          · simp [hasWritable, hnil] at hw
          · have hl : lastFile s.h.files = some (f, ub) := by rw [hsn]; exact lastFile_append_single _ _
            have hrw : s.h.lastRW = true := by simpa [hasWritable, hsn] using hw
            have hfiles : mkHandles s.h.files s.h.lastRW = init.map ro ++ [⟨f, true, true⟩] := by
              rw [hsn, mkHandles_snoc, hrw]
            have hget : pyDictGet s.h.files f = .ok ub := pyDictGet_mem _ _ _ hp.1 (lastFile_mem _ _ hl)
            simp only [hl, ofState_self, ofState_disk, ofState_trace, ofState_next, ofHandle_files, ofHandle_ublocks,
              ofHandle_closed, ofHandle_allow, ofHandle_mfcls, ofHandle_manifest, hfiles, pyIdx_last_snoc, pyH5CloseAt,
              pySetIdx_last_snoc, pyHashsumFile, setLastH_snoc, if_true, List.nil_append]
            cases hpay : payloadOf s.disk f with
            | none => simp [hc, ha]
            | some p =>
              obtain ⟨ub0, hg⟩ := getF_of_payloadOf hpay
              simp [hget, pySetUblocks, pyDictGet_pyDictSet_eq, pyUBSave, hg, pyH5Open, getF_setF_eq, pySetFiles,
                pySetIdx_last_snoc, commitTrace, gen_constants, hc, ha]

/-- **`IH5Record.commit_patch()`** as regenerated from the source is the model's `commitPlain` -/
theorem gen_commit_patch_model (s : State) (hp : PyRep s.h) (hd : OnDisk s) :
    resOf s (IH5Record.commit_patch [] (World.ofState s)) = commitPlain s := by
  rw [gen_commit_patch s hp]; exact commitPlainW_res s hp hd

/-! ## the manifest class -/

theorem gen_manifest_ext : MANIFEST_EXT = mfExt := rfl

/-- the sidecar is named after the **container file** (one manifest per container, so that writing the
manifest of a new patch never touches the manifest of a committed one) -/
theorem gen_manifest_filepath (f : Name) : IH5MFRecord._manifest_filepath f = manifestFile f := by
  simp [IH5MFRecord._manifest_filepath, manifestFile, gen_manifest_ext]

theorem gen_manifest (w : World) :
    IH5MFRecord.manifest w = match w.self.manifest with
      | some m => (.ok m, w)
      | none => (.error .valueError, w) := by
  unfold IH5MFRecord.manifest
  cases hm : w.self.manifest <;> simp [hm]

theorem mkHandles_setLastUB (l : List (Name × UB)) (u : UB) (rw : Bool) :
    mkHandles (setLastUB l u) rw = mkHandles l rw := by
  rcases nil_or_snoc l with rfl | ⟨init, ⟨f, v⟩, rfl⟩
  · simp [setLastUB]
  · rw [setLastUB_snoc, mkHandles_snoc, mkHandles_snoc]

/-- the world in which the manifest class calls the base-class commit is the Python object of `mfPrep` -/
theorem ofState_mfPrep (s : State) (init : List (Name × UB)) (f : Name) (ub ubT : UB) (hp : PyRep s.h)
    (hsn : s.h.files = init ++ [(f, ub)]) :
    ({ World.ofState s with next := s.next + 2,
                            self := { (World.ofState s).self with ublocks := pyDictSet (World.ofState s).self.ublocks f ubT } } : World)
      = World.ofState (mfPrep s ubT) := by
  have hni : f ∉ init.map Prod.fst := by
    apply nodup_snoc_notin (u := ub); rw [← hsn]; exact hp.1
  have h1 : pyDictSet s.h.files f ubT = setLastUB s.h.files ubT := by
    rw [hsn, pyDictSet_snoc _ _ _ _ hni, setLastUB_snoc]
  simp only [World.ofState, Obj.ofHandle, mfPrep, mkHandles_setLastUB, h1]

theorem commitPlainW_ok_last (s : State) (kw : Kw) (w1 : World) (f : Name) (ub : UB)
    (h : commitPlainW s kw = (.ok (), w1)) (hl : lastFile s.h.files = some (f, ub)) :
    ∃ hs, w1.self.files = hs ++ [⟨f, false, true⟩] := by
  unfold commitPlainW at h
  simp only [hl] at h
  split at h <;> try (cases h; done)
  split at h <;> try (cases h; done)
  split at h <;> try (cases h; done)
  split at h <;> try (cases h; done)
  split at h <;> try (cases h; done)
  cases h
  exact ⟨_, rfl⟩

theorem commitPlainW_ve (s : State) (kw : Kw) (w1 : World) (h : commitPlainW s kw = (.error .valueError, w1)) :
    w1 = World.ofState s := by
  unfold commitPlainW at h
  simp only at h
  split at h <;> try (cases h; rfl)
  split at h <;> try (cases h; rfl)
  split at h <;> try (cases h; rfl)
  split at h <;> try (cases h; rfl)
  split at h <;> try (cases h; done)
  split at h <;> cases h

theorem pyKwPop_snd (kw : Kw) (k : Str) (d : Option PyAny) :
    (pyKwPop kw k d).2 = kw.filter (fun e => !(e.1 == k)) := by
  unfold pyKwPop
  cases h : kw.find? (fun e => e.1 == k) with
  | some e => rfl
  | none =>
    simp only
    rw [List.find?_eq_none] at h
    symm
    rw [List.filter_eq_self]
    intro a ha
    simpa using h a ha

theorem restKw_eq (kw : Kw) : restKw kw = kw.filter (fun e => !(e.1 == KW_STUB) && !(e.1 == KW_EXTS)) := by
  simp only [restKw, pyKwPop_snd, List.filter_filter]
  congr 1; funext e; exact Bool.and_comm _ _

/-- the two `kwargs.pop(..)` in either order leave the same keywords -/
theorem restKw_swap (kw : Kw) : (pyKwPop (pyKwPop kw KW_EXTS none).2 KW_STUB (some ())).2 = restKw kw := by
  rw [restKw_eq]
  simp only [pyKwPop_snd, List.filter_filter]

/-- **`IH5MFRecord.commit_patch(**kw)`** as regenerated from the source is the step sequence `commitMFW` -/
theorem gen_mf_commit_patch (s : State) (hp : PyRep s.h) (kw : Kw) :
    IH5MFRecord.commit_patch kw (World.ofState s) = commitMFW s kw := by
  unfold IH5MFRecord.commit_patch commitMFW
  rcases nil_or_snoc s.h.files with hnil | ⟨init, ⟨f, ub⟩, hsn⟩
  · simp [pyFreshManifest, gen_ublock_last, ofState_self, ofHandle_files, hnil, mkHandles, lastFile]
  · have hl : lastFile s.h.files = some (f, ub) := by rw [hsn]; exact lastFile_append_single _ _
    have hfiles : mkHandles s.h.files s.h.lastRW = init.map ro ++ [⟨f, s.h.lastRW, true⟩] := by
      rw [hsn, mkHandles_snoc]
    have hget : pyDictGet s.h.files f = .ok ub := pyDictGet_mem _ _ _ hp.1 (lastFile_mem _ _ hl)
    have hni : f ∉ init.map Prod.fst := by
      apply nodup_snoc_notin (u := ub); rw [← hsn]; exact hp.1
    generalize hubT : ({ ub with ext := some (s.next, s.next + 1) } : UB) = ubT
    have hp1 := pyRep_mfPrep s ubT hp
    -- the world after `_fresh_manifest()`: two numbers drawn
    obtain ⟨w0, hw0⟩ : ∃ w0 : World, w0 = { disk := s.disk, next := s.next + 2, self := Obj.ofHandle s.h, trace := [] } :=
      ⟨_, rfl⟩
    have e0 : pyFreshManifest (IH5Record._ublock (.int (-1 : Int))) (World.ofState s) = (.ok (s.next, s.next + 1), w0) := by
      subst hw0
      simp [pyFreshManifest, gen_ublock_last, ofState_self, ofHandle_files, ofHandle_ublocks, hfiles, hget, World.ofState]
    have e1 : IH5Record._ublock (.int (-1 : Int)) w0 = (.ok ub, w0) := by
      subst hw0
      simp [gen_ublock_last, ofHandle_files, ofHandle_ublocks, hfiles, hget]
    have e2 : IH5Record._set_ublock (.int (-1 : Int)) ubT w0 = (.ok (), World.ofState (mfPrep s ubT)) := by
      subst hw0
      rw [← ofState_mfPrep s init f ub ubT hp hsn]
      simp [gen_set_ublock_last, ofHandle_files, hfiles, World.ofState]
    have e3 := gen_commit_patch (mfPrep s ubT) hp1 (restKw kw)
    have e4 : IH5Record._set_ublock (.int (-1 : Int)) ub (World.ofState (mfPrep s ubT)) = (.ok (), w0) := by
      have h2 : pyDictSet (setLastUB s.h.files ubT) f ub = s.h.files := by
        rw [hsn, setLastUB_snoc, pyDictSet_snoc _ _ _ _ hni]
      subst hw0
      simp [gen_set_ublock_last, World.ofState, Obj.ofHandle, mfPrep, mkHandles_setLastUB, hfiles, h2]
    have hl1 : lastFile (mfPrep s ubT).h.files = some (f, ubT) := by
      simp only [mfPrep, hsn, setLastUB_snoc]; exact lastFile_append_single _ _
    have hm0 : w0.self.manifest = s.h.manifest := by subst hw0; rfl
    have hk1 : restKw kw = restKw kw := rfl
    have hk2 := restKw_swap kw
    conv at hk1 => lhs; simp only [restKw, KW_STUB, KW_EXTS]
    simp only [KW_STUB, KW_EXTS] at hk2
    simp only [run_bind, run_pure, run_pySelf, run_pyLift, e0, hl, pyMfWithExts, pyExtUpdate, ite_self, hk1, hk2]
    cases hm : s.h.manifest <;>
      simp only [run_bind, run_pure, run_pySelf, run_pyLift, gen_manifest, hm0, hm, Option.isSome_none,
        Option.isSome_some, Bool.false_eq_true, if_false, if_true, e1, hubT, e2, run_tryCatch, e3] <;>
      (generalize hx : commitPlainW (mfPrep s ubT) _ = x
       obtain ⟨r, w1⟩ := x
       cases r with
       | ok v =>
         obtain ⟨hs, hlast⟩ := commitPlainW_ok_last _ _ w1 _ _ hx hl1
         simp [pySetManifest, hlast, pyIdx_last_snoc, pyManifestSave, gen_manifest_filepath]
       | error e =>
         cases e <;> try rfl
         have := commitPlainW_ve _ _ w1 hx
         subst this
         simp [e4, hw0, ofState_disk, ofState_self, ofState_trace])

/-- **`IH5MFRecord.commit_patch(…)`** as regenerated from the source is the model's `commitMF`
(`kw`: any keywords among `manifest_exts=`, `__is_stub__=`) -/
theorem gen_mf_commit_patch_model (s : State) (hp : PyRep s.h) (hd : OnDisk s) (kw : Kw) (hk : restKw kw = []) :
    resOf s (IH5MFRecord.commit_patch kw (World.ofState s)) = commitMF s := by
  rw [gen_mf_commit_patch s hp]; exact commitMFW_res s hp hd kw hk

/-- `self.commit_patch(**kw)`: dispatch on the class of the object -/
theorem gen_dispatch_commit_patch (s : State) (hp : PyRep s.h) (kw : Kw) :
    dispatch_commit_patch kw (World.ofState s) = commitPatchW s kw := by
  unfold dispatch_commit_patch commitPatchW
  have hm : (World.ofState s).self.mfcls = s.h.mfcls := rfl
  cases hc : s.h.mfcls <;> simp [hm, hc, gen_commit_patch s hp, gen_mf_commit_patch s hp]

end MetadorModel.Bridge.PatchSteps
