import MetadorModel.Bridge.FindFilesFns
/-!
Bridge (`IH5Record.__init__`): the translated constructor of `Gen/FindFilesFns.lean` (regenerated from
/repo on every run by `harness/translate_c03.py`) is the model's `openRec`, for every record argument,
mode and on-disk situation.
-/
namespace MetadorModel.Bridge.FindFilesFns
open MetadorModel MetadorModel.FindFiles MetadorModel.Record MetadorModel.RecordPy

/-- **the mode dispatch of `IH5Record.__init__`**: for every record argument (prefix path or
file list), every mode and every on-disk situation, the translated constructor is the model's
`openRec` (on a free handle slot; the model answers `busy` otherwise) -/
theorem gen_init (s : State) (mfcls : Bool) (t : Target) (m : Mode) (hc : s.h.closed = true) :
    Gen.FindFilesFns.init s mfcls t m = openRec s mfcls t m := by
  unfold Gen.FindFilesFns.init openRec
  simp only [hc, Bool.not_true, Bool.false_eq_true, if_false]
  cases t with
  | list fs =>
    cases m <;> simp [modeStr, Gen.FindFilesFns.OPEN_MODES, pyTruthy, pyStart]
    case r | rp | a =>
      by_cases hfs : fs = []
      · simp [hfs, pyCtor, pyRaise, fail]
      · simp only [hfs, if_false]
        refine open_chain' s mfcls fs _ _ _ (fun r1 => ?_) (by decide)
        simp [openTail]
    all_goals simp [pyCtor, pyRaise, fail]
  | name n =>
    cases m <;> simp [modeStr, Gen.FindFilesFns.OPEN_MODES, pyTruthy, pyStart]
    case w | wm | x => exact create_chain s mfcls n _
    all_goals
      rw [gen_find_files]
      cases hf : findFiles (names s.disk) n with
      | none => simp [pyCall, pyCtor, pyRaise, fail]
      | some l =>
        cases l with
        | nil =>
          simp only [pyCall, if_true]
          first
            | exact create_chain s mfcls n false
            | simp [pyCtor, pyRaise, fail]
        | cons f fs =>
          simp only [pyCall, reduceCtorEq, if_false]
          refine open_chain' s mfcls (f :: fs) _ _ _ (fun r1 => ?_) (by decide)
          simp [openTail]


end MetadorModel.Bridge.FindFilesFns
