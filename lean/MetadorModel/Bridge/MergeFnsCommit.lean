import MetadorModel.Gen.MergeFns
import MetadorModel.Proofs.Single
/-!
# Bridge for C10: `IH5MFRecord.manifest`, `_fresh_manifest`, `commit_patch` (ih5/manifest.py) as regenerated
from the source

What a commit of the manifest class does to the record object and to the file system, in closed form:
`gen_commit_patch_ok` (the manifest is written next to the newest container, its uuid and hash are linked in
the user-block extension, it describes the current skeleton, extensions are inherited unless overridden) and
`gen_commit_patch_refused` (when the base-class commit refuses, the object and the files are what they were).
-/
namespace MetadorModel.Bridge.MergeFns
open MetadorModel.Tree MetadorModel.Overlay MetadorModel.Merge MetadorModel.MergePy
open MetadorModel.Gen.MergeFns
variable {V : Type} {α : Type}

/-! ## Python list indexing at the ends -/

theorem pyIdx_last (init : List α) (x : α) : pyIdx (init ++ [x]) (-1 : Int) = .ok x := by
  simp only [pyIdx, List.length_append, List.length_cons, List.length_nil]
  have h1 : ((-1 : Int) < 0) := by omega
  simp only [h1, if_true]
  have h2 : ¬ ((-1 : Int) + ((init.length + (0 + 1) : Nat) : Int) < 0) := by omega
  simp only [h2, if_false]
  have h3 : ((-1 : Int) + ((init.length + (0 + 1) : Nat) : Int)).toNat = init.length := by omega
  rw [h3]
  simp

theorem pySetIdx_last (init : List α) (x y : α) : pySetIdx (init ++ [x]) (-1 : Int) y = .ok (init ++ [y]) := by
  simp only [pySetIdx, List.length_append, List.length_cons, List.length_nil]
  have h1 : ((-1 : Int) < 0) := by omega
  simp only [h1, if_true]
  have h2 : ¬ ((-1 : Int) + ((init.length + (0 + 1) : Nat) : Int) < 0) := by omega
  simp only [h2, if_false]
  have h3 : ((-1 : Int) + ((init.length + (0 + 1) : Nat) : Int)).toNat = init.length := by omega
  rw [h3]
  simp

theorem pyIdx_zero (x : α) (rest : List α) : pyIdx (x :: rest) (0 : Int) = .ok x := by
  simp [pyIdx]

theorem ne_mfOf : ∀ (f : FName), f ≠ .mfOf f
  | .file _ _ => by intro h; cases h
  | .mfOf g => by
    intro h
    injection h with h'
    exact ne_mfOf g h'

/-! ## `manifest`, `_fresh_manifest` -/

theorem gen_manifest (E : Env V) (w : World V) :
    IH5MFRecord.manifest E w = match w.self.manifest with
      | some m => (.ok m, w)
      | none => (.error (.valueError .noManifest), w) := by
  unfold IH5MFRecord.manifest
  cases hm : w.self.manifest <;> simp [hm, pyNotNone]

/-- the manifest a commit builds: a new uuid, the newest user block without the manifest extension, the
skeleton of the current view, no extensions -/
def freshManifest (w : World V) (old : PUB) : Manifest :=
  { uuid := w.next, ub := { old with ext := none }, skeleton := skel (Overlay.listing w.self.conts), exts := [] }

theorem gen_fresh_manifest (E : Env V) (w : World V) (init : List PUB) (old : PUB) (hubs : w.self.ubs = init ++ [old]) :
    IH5MFRecord._fresh_manifest E w = (.ok (freshManifest w old), { w with next := w.next + 1 }) := by
  unfold IH5MFRecord._fresh_manifest
  simp [pyUblock, hubs, pyIdx_last, pyManifestFromUserblock, pySkeletonForRecord, freshManifest]

/-! ## `commit_patch` -/

/-- extensions of the new manifest: the ones passed, else the ones of the manifest loaded before, else none -/
def commitExts (w : World V) (kw : Option (Option Exts)) : Exts :=
  match kw.getD none with
  | some x => x
  | none => match w.self.manifest with
    | some m => m.exts
    | none => []

/-- the manifest `commit_patch` writes -/
def commitManifest (w : World V) (kw : Option (Option Exts)) (old : PUB) : Manifest :=
  { freshManifest w old with exts := commitExts w kw }

/-- the user block `commit_patch` writes: the checksum of the payload and the link to the manifest -/
def commitUB (E : Env V) (w : World V) (kwStub : Option Bool) (kw : Option (Option Exts)) (old : PUB) (c : Cont V) : PUB :=
  { core := { old.core with hash := some (E.H c) },
    ext := some { isStub := kwStub.getD false, muuid := w.next, mhash := E.HM (commitManifest w kw old) } }

/-- the base-class commit goes through -/
def CanCommit (o : Obj V) : Prop := o.closed = false ∧ o.allowPatching = true ∧ o.writable = true

theorem gen_commit_patch_ok (E : Env V) (w : World V) (kwStub : Option Bool) (kw : Option (Option Exts))
    (init : List PUB) (old : PUB) (finit : List FName) (f : FName) (c : Cont V) (rest : Rec V)
    (hc : CanCommit w.self) (hubs : w.self.ubs = init ++ [old]) (hfiles : w.self.files = finit ++ [f])
    (hconts : w.self.conts = c :: rest) :
    IH5MFRecord.commit_patch E kwStub kw [] w =
      (.ok (), { self := { w.self with ubs := init ++ [commitUB E w kwStub kw old c], writable := false,
                                       manifest := some (commitManifest w kw old) },
                 disk := aput (.mfOf f) (.mf (commitManifest w kw old)) (aput f (.cont (commitUB E w kwStub kw old c) c) w.disk),
                 next := w.next + 1 }) := by
  obtain ⟨h1, h2, h3⟩ := hc
  unfold IH5MFRecord.commit_patch
  simp only [run_bind, gen_fresh_manifest E w init old hubs, run_pySelf]
  cases hm : w.self.manifest <;> cases hk : kw.getD none <;>
    simp [hm, hk, gen_manifest, pyUblock, pySetUblock, hubs, pyIdx_last, pySetIdx_last, pyBaseCommit, refusalB, h1, h2, h3,
      hconts, hfiles, pySetManifest, pySaveManifest, pyManifestFilepath, pyExtUpdate, PUB.with_ub_exts,
      Manifest.with_manifest_exts, commitUB, commitManifest, commitExts, pyNotNone, freshManifest]

/-- **a refused commit leaves the record object and the files as they were** (only a uuid was drawn) -/
theorem gen_commit_patch_refused (E : Env V) (w : World V) (kwStub : Option Bool) (kw : Option (Option Exts))
    (kwargs : List String) (init : List PUB) (old : PUB) (m : Msg)
    (hubs : w.self.ubs = init ++ [old])
    (hr : refusalB w.self.closed w.self.allowPatching w.self.writable kwargs = some m) :
    IH5MFRecord.commit_patch E kwStub kw kwargs w = (.error (.valueError m), { w with next := w.next + 1 }) := by
  unfold IH5MFRecord.commit_patch
  simp only [run_bind, gen_fresh_manifest E w init old hubs, run_pySelf]
  cases hm : w.self.manifest <;> cases hk : kw.getD none <;>
    simp [hm, hk, gen_manifest, pyUblock, pySetUblock, hubs, pyIdx_last, pySetIdx_last, pyBaseCommit, hr,
      pyExtUpdate, PUB.with_ub_exts, Manifest.with_manifest_exts, pyNotNone, freshManifest] <;>
    (rw [← hubs, ← hm])

/-! ### what a successful commit establishes (clauses of C10) -/

/-- **the manifest is linked**: after a commit the sidecar of the newest container holds a manifest whose uuid and
hash are the ones recorded in the extension of the newest user block — in memory and on disk —, which describes
the skeleton of the current view, and which is the manifest the object has loaded -/
theorem gen_commit_patch_linked (E : Env V) (w w' : World V) (kwStub : Option Bool) (kw : Option (Option Exts))
    (init : List PUB) (old : PUB) (finit : List FName) (f : FName) (c : Cont V) (rest : Rec V)
    (hc : CanCommit w.self) (hubs : w.self.ubs = init ++ [old]) (hfiles : w.self.files = finit ++ [f])
    (hconts : w.self.conts = c :: rest)
    (hrun : IH5MFRecord.commit_patch E kwStub kw [] w = (.ok (), w')) :
    ∃ mf ub e, aget (.mfOf f) w'.disk = some (.mf mf) ∧ aget f w'.disk = some (.cont ub c) ∧
      w'.self.ubs.getLast? = some ub ∧ ub.ext = some e ∧ ub.core.hash = some (E.H c) ∧
      e.muuid = mf.uuid ∧ e.mhash = E.HM mf ∧ e.isStub = kwStub.getD false ∧
      mf.skeleton = skel (Overlay.listing w.self.conts) ∧ w'.self.manifest = some mf := by
  rw [gen_commit_patch_ok E w kwStub kw init old finit f c rest hc hubs hfiles hconts] at hrun
  cases hrun
  refine ⟨commitManifest w kw old, commitUB E w kwStub kw old c, _, ?_, ?_, ?_, rfl, rfl, rfl, rfl, rfl, rfl, rfl⟩
  · exact Single.aget_aput_same _ _ _
  · show aget f (aput f.mfOf _ (aput f _ w.disk)) = _
    rw [Single.aget_aput_other _ _ _ _ (ne_mfOf f)]
    exact Single.aget_aput_same _ _ _
  · simp

/-- **manifest extensions persist until overridden** -/
theorem gen_commit_patch_exts (E : Env V) (w w' : World V) (kwStub : Option Bool) (kw : Option (Option Exts))
    (init : List PUB) (old : PUB) (finit : List FName) (f : FName) (c : Cont V) (rest : Rec V)
    (hc : CanCommit w.self) (hubs : w.self.ubs = init ++ [old]) (hfiles : w.self.files = finit ++ [f])
    (hconts : w.self.conts = c :: rest)
    (hrun : IH5MFRecord.commit_patch E kwStub kw [] w = (.ok (), w')) :
    ∃ mf, w'.self.manifest = some mf ∧
      (∀ x, kw = some (some x) → mf.exts = x) ∧
      ((kw = none ∨ kw = some none) → ∀ m0, w.self.manifest = some m0 → mf.exts = m0.exts) := by
  rw [gen_commit_patch_ok E w kwStub kw init old finit f c rest hc hubs hfiles hconts] at hrun
  cases hrun
  refine ⟨commitManifest w kw old, rfl, ?_, ?_⟩
  · intro x hx; subst hx; rfl
  · rintro (h | h) m0 hm0 <;> subst h <;> simp [commitManifest, commitExts, hm0]

end MetadorModel.Bridge.MergeFns
