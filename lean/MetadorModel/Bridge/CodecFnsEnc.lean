import MetadorModel.Bridge.CodecFnsTac
/-! Bridge (C12), `schema/encoder.py` and the `@json_encoder` registrations of `schema/types.py`
(see `Bridge/CodecFnsBase.lean` for the set-up). -/
namespace MetadorModel.Bridge.CodecFns
open MetadorModel MetadorModel.Codec MetadorModel.CodecParsers MetadorModel.CodecPy

/-- `json_encoder(func)(cls)`: pydantic models and dataclasses are refused with `TypeError`, a second
encoder for a class with `ValueError`; otherwise the class is entered and returned -/
theorem gen_json_encoder (func : EncFn) (reg : Registry) (cls : ClsDesc) :
    Gen.CodecFns.json_encoder func reg cls = regEncoder func reg cls := by
  cases h1 : cls.isModel <;> cases h2 : cls.isDataclass <;> cases h3 : Registry.has reg cls.key <;>
    simp [Gen.CodecFns.json_encoder, regEncoder, h1, h2, h3]

theorem gen_add_json_encoder (func : EncFn) (reg : Registry) (cls : ClsDesc) :
    Gen.CodecFns.add_json_encoder reg cls func = regEncoder func reg cls := by
  simp only [Gen.CodecFns.add_json_encoder, gen_json_encoder]
  try bridge_close

/-- `_dynamize_encoder(inner)`: the default encoder first; exactly after a `TypeError` the registry
entry of `type(obj)`; without an entry the same `TypeError` -/
theorem gen_dynamize_encoder (L : Lib) (reg : Registry) (inner : EncLeaf) :
    Gen.CodecFns._dynamize_encoder L reg inner = dynLeaf L reg inner := by
  funext v
  simp only [Gen.CodecFns._dynamize_encoder, dynLeaf]
  cases inner v with
  | ok r => bridge_close
  | error e =>
    cases e <;> simp [catches, ExcName.catches] <;> bridge_close

/-- `DynJsonEncoderMetaMixin.__init__`: after `super().__init__`, the encoder of the class is wrapped -/
theorem gen_mixin_init (L : Lib) (reg : Registry) (sup : ClsSt → M ClsSt) (self : ClsSt) (bases : List ClsSt) :
    Gen.CodecFns.DynJsonEncoderMetaMixin.__init__ L reg sup self bases =
      (match sup self with
       | .error e => .error e
       | .ok s => .ok { s with jsonEncoder := dynLeaf L reg s.jsonEncoder }) := by
  simp only [Gen.CodecFns.DynJsonEncoderMetaMixin.__init__, gen_dynamize_encoder]
  bridge_close

/-- the three decorators of `schema/types.py` run without an exception and leave exactly the
registry of the model: `Duration ↦ isodate.duration_isoformat`, `PintUnit ↦ str`, `PintQuantity ↦ str` -/
theorem gen_registry : Gen.CodecFns.registry = .ok registryModel := by
  simp [Gen.CodecFns.registry, Gen.CodecFns.registrations, runRegistrations, gen_json_encoder, regEncoder,
    Registry.has, Registry.get, Registry.set, registryModel]

end MetadorModel.Bridge.CodecFns
