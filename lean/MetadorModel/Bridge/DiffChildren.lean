import MetadorModel.Gen.Diff
import MetadorModel.Bridge.DiffBase
/-! Bridge (C18): the generated `DiffNode.children` equals the model's `children`. -/
set_option linter.unusedSimpArgs false
namespace MetadorModel.Bridge.Diff
open MetadorModel MetadorModel.Diff MetadorModel.DiffPy

theorem gen_children (d : DNode) : Gen.Diff.children d = .ok (Diff.children d) := by
  obtain ⟨p, pv, cv, rm, md, ad⟩ := d
  simp [Gen.Diff.children, Diff.children, chain, values, DNode.removed, DNode.modified, DNode.added]

end MetadorModel.Bridge.Diff
