import MetadorModel.Gen.BytesFns
import MetadorModel.Proofs.Bytes
/-! Bridge theorems for `_hash_alg`, `hashsum`, `DEF_HASH_ALG`, `qualified_hashsum`, `file_hashsum` (part of `Bridge/BytesFns.lean`, which explains the set-up; a separate
module so that a broken proof is attributed to the function group that changed). -/
namespace MetadorModel.Bridge.BytesFns
open MetadorModel MetadorModel.Bytes MetadorModel.BytesPy
/-! ## hashing -/

theorem gen_def_hash_alg : Gen.BytesFns.DEF_HASH_ALG = sha256 := by decide

/-- the table `_hash_alg`: its keys are the model's `hashAlgs`, and the constructor stored under
a key is `hashlib.<key>` -/
theorem gen_hash_alg {σ : Type} (hl : HashLib σ) (alg : Str) :
    (pyDictGet (Gen.BytesFns._hash_alg hl) alg).map (fun c => c ()) =
      if alg ∈ hashAlgs then some (hl.new alg) else none := by
  by_cases h1 : alg = sha256
  · subst h1; simp [Gen.BytesFns._hash_alg, pyDictGet, hashAlgs, sha256]
  · by_cases h2 : alg = sha512
    · subst h2; simp [Gen.BytesFns._hash_alg, pyDictGet, hashAlgs, sha256, sha512]
    · have h1' : ¬ alg = ['s', 'h', 'a', '2', '5', '6'] := h1
      have h2' : ¬ alg = ['s', 'h', 'a', '5', '1', '2'] := h2
      simp [Gen.BytesFns._hash_alg, pyDictGet, hashAlgs, h1, h2, h1', h2']

/-- the `while True:` loop: second component of the loop state (the hash object) is the
model's `readLoop` -/
theorem gen_hashsum_loop {σ : Type} (hl : HashLib σ) :
    ∀ (fuel : Nat) (data : Bytes) (h : σ),
      (Gen.BytesFns.hashsum.loop1 hl fuel data h).2 = readLoop hl fuel data h := by
  intro fuel
  induction fuel with
  | zero => intro data h; rfl
  | succ f ih =>
    intro data h
    simp only [Gen.BytesFns.hashsum.loop1, readLoop]
    split <;> simp_all

theorem gen_hashsum {σ : Type} (hl : HashLib σ) (d : PyData) (alg : Str) :
    Gen.BytesFns.hashsum hl d alg = hashsum hl d.content alg := by
  have hk := gen_hash_alg hl alg
  have hloop := gen_hashsum_loop hl
  unfold Gen.BytesFns.hashsum hashsum
  cases hg : pyDictGet (Gen.BytesFns._hash_alg hl) alg with
  | none =>
    rw [hg] at hk
    by_cases ha : alg ∈ hashAlgs <;> simp_all
  | some c =>
    rw [hg] at hk
    by_cases ha : alg ∈ hashAlgs
    · simp only [ha, if_true, Option.map_some, Option.some.injEq] at hk
      cases d <;> simp [PyData.content, ha, hk, ← hloop]
    · simp [ha] at hk

theorem gen_qualified_hashsum {σ : Type} (hl : HashLib σ) (d : PyData) (alg : Str) :
    Gen.BytesFns.qualified_hashsum hl d alg = qualifiedHashsum hl d.content alg ∧
    Gen.BytesFns.qualified_hashsum_d hl d = qualifiedHashsum hl d.content sha256 := by
  have h : ∀ a, Gen.BytesFns.qualified_hashsum hl d a = qualifiedHashsum hl d.content a := by
    intro a
    unfold Gen.BytesFns.qualified_hashsum qualifiedHashsum
    rw [gen_hashsum]
    cases hashsum hl d.content a <;> simp
  exact ⟨h alg, by unfold Gen.BytesFns.qualified_hashsum_d; rw [h, gen_def_hash_alg]⟩

/-- `file_hashsum(path, alg)`: `content` is what the file at `path` holds -/
theorem gen_file_hashsum {σ : Type} (hl : HashLib σ) (content : Bytes) (alg : Str) :
    Gen.BytesFns.file_hashsum hl content alg = qualifiedHashsum hl content alg := by
  unfold Gen.BytesFns.file_hashsum
  simp only [(gen_qualified_hashsum hl _ _).1, PyData.content]
  cases qualifiedHashsum hl content alg <;> rfl

end MetadorModel.Bridge.BytesFns
