import MetadorModel.Gen.MergeFns
import MetadorModel.Bridge.MergeFnsTree
import MetadorModel.Bridge.MergeFnsCommit
/-!
# Bridge for C10: `init_stub_skeleton`, `init_stub_base` (ih5/skeleton.py) as regenerated from the source

`Gen.MergeFns.init_stub_skeleton` computes the reference fold `stubFold` (one node and its attribute
placeholders per skeleton entry), which is the model's `Merge.stubCont`; `init_stub_base` then resets
`prev_patch`.
-/
namespace MetadorModel.Bridge.MergeFns
open MetadorModel.Tree MetadorModel.Overlay MetadorModel.Merge MetadorModel.MergePy MetadorModel.Single
open MetadorModel.Gen.MergeFns
variable {V : Type}

theorem pyLen_nonneg (o : Obj V) (p : Path) : 0 ≤ pyLen o p ∧ 0 ≤ pyLenAttrs o p := by
  simp [pyLen, pyLenAttrs]

/-- on an empty container the generated function is the reference fold -/
theorem gen_init_stub_skeleton_fold (E : Env V) (ds : Obj V) (sk : Skel)
    (h1 : pyLen ds [] = 0) (h2 : pyLenAttrs ds [] = 0) :
    init_stub_skeleton E ds sk = stubFold E sk ds := by
  unfold init_stub_skeleton
  simp [h1, h2]
  unfold stubFold
  apply pyFor_congr_mem
  rintro ⟨k, g, names⟩ _ b
  unfold stubEntry
  cases g
  · simp
  · simp only [beq_self_eq_true, if_true, bind_assoc]
    cases pyContains b k with
    | error e => rfl
    | ok bb => cases bb <;> rfl

/-- a container that is not empty is refused -/
theorem gen_init_stub_skeleton_refused (E : Env V) (ds : Obj V) (sk : Skel)
    (h : pyLen ds [] ≠ 0 ∨ pyLenAttrs ds [] ≠ 0) :
    init_stub_skeleton E ds sk = .error (.valueError .notEmpty) := by
  obtain ⟨n1, n2⟩ := pyLen_nonneg ds []
  unfold init_stub_skeleton
  rcases h with h | h
  · have : 0 < pyLen ds [] := by omega
    simp [h, this]; rfl
  · have : 0 < pyLenAttrs ds [] := by omega
    simp [h, this]; rfl

theorem pyLen_init (o : Obj V) (h : o.conts = Rec.init) : pyLen o [] = 0 ∧ pyLenAttrs o [] = 0 := by
  have hl : Overlay.listing (Rec.init : Rec V) = [([], NKind.group, [])] := by
    rw [listing_root_first]
    have hc : ([] : Path) ∈ candidates (Rec.init : Rec V) := by
      rw [candidates, Listing.mem_sort_dedup]; simp [Rec.init, Cont.init]
    have ha : attrsList (Rec.init : Rec V) [] = [] := by
      have hk : attrKeys (Rec.init : Rec V) [] = [] := by
        rw [List.eq_nil_iff_forall_not_mem]
        intro k hk
        rw [attrKeys, Listing.mem_sort_dedup] at hk
        simp [Rec.init, Cont.init, aget, vnode] at hk
      simp [attrsList, hk]
    have hn : nonRoot (Overlay.listing (Rec.init : Rec V)) = [] := by
      rw [nonRoot, List.filter_eq_nil_iff]
      intro e he
      obtain ⟨hv, _⟩ := mem_listing _ e he
      have hmem : e.1 ∈ candidates (Rec.init : Rec V) := by
        have := (listing_keys_sublist (Rec.init : Rec V)).subset (List.mem_map_of_mem (f := (·.1)) he)
        exact this
      rw [candidates, Listing.mem_sort_dedup] at hmem
      simp [Rec.init, Cont.init] at hmem
      simp [hmem]
    simp [hc, ha, hn]
  refine ⟨?_, ?_⟩
  · simp [pyLen, pyKeys, h, hl, childKey]
  · have ha : attrsList (Rec.init : Rec V) [] = [] := by
      have := rootAttrs_listing (Rec.init : Rec V)
      rw [hl] at this
      simpa [rootAttrsOf] using this.symm
    simp [pyLenAttrs, h, ha]

/-- **`init_stub_skeleton` writes the model's `stubCont`** into a fresh container, for the skeleton of every record
whose view is a tree listed parents-first -/
theorem gen_init_stub_skeleton (E : Env V) (r : Rec V) (hrep : Replayable (Overlay.listing r)) (ds : Obj V)
    (hds : ds.conts = Rec.init) :
    init_stub_skeleton E ds (skel (Overlay.listing r)) = liftTree ds (stubCont E.empty r) := by
  obtain ⟨h1, h2⟩ := pyLen_init ds hds
  rw [gen_init_stub_skeleton_fold E ds _ h1 h2]
  exact stubFold_eq E r hrep ds hds

/-- `init_stub_base`: the skeleton, then the source block as a base block (`prev_patch` reset) -/
theorem gen_init_stub_base (E : Env V) (t : Obj V) (ub : PUB) (sk : Skel) :
    init_stub_base E t ub sk =
      match init_stub_skeleton E t sk with
      | .ok t' => pyObjSetUblock t' (-1 : Int) { ub with core := { ub.core with prev := none } }
      | .error e => .error e := by
  unfold init_stub_base
  cases h : init_stub_skeleton E t sk with
  | error e => simp [h, bind, Except.bind]
  | ok t' =>
    simp only [h, PUB.with_prev_patch, bind, Except.bind, pure, Except.pure]

theorem pySetIdx_single {α : Type} (x y : α) : pySetIdx [x] (-1 : Int) y = .ok [y] := pySetIdx_last [] x y

/-- **`create_stub`** from the manifest `m` of a record `r` (its skeleton is `skel` of the view of `r`): the stub
container holds `Merge.stubCont`, its user block is the one stored in the manifest with `prev_patch` reset, the
checksum of the stub payload, and the stub mark; nothing else on disk changes but the sidecar of the stub -/
theorem gen_create_stub (E : Env V) (rec : Nat) (mfile : FName) (w : World V) (m : Manifest) (r : Rec V)
    (hmf : aget mfile w.disk = some (.mf m)) (hfree : aget (FName.file rec 0) w.disk = none)
    (hsk : m.skeleton = skel (Overlay.listing r)) (hrep : Replayable (Overlay.listing r)) :
    ∃ c ds w', stubCont E.empty r = .ok [c] ∧
      IH5MFRecord.create_stub E rec mfile w = (.ok ds, w') ∧
      ds.conts = [c] ∧ ds.writable = false ∧ w'.self = w.self ∧
      (∃ ub, ds.ubs = [ub] ∧ aget (FName.file rec 0) w'.disk = some (.cont ub c) ∧
        ub.core = { m.ub.core with prev := none, hash := some (E.H c) } ∧
        (∃ e, ub.ext = some e ∧ e.isStub = true)) ∧
      (∀ f, f ≠ FName.file rec 0 → f ≠ FName.mfOf (FName.file rec 0) → aget f w'.disk = aget f w.disk) := by
  obtain ⟨heq, _⟩ := materialise_eq _ (replayable_stub E.empty (Overlay.listing r) hrep)
  obtain ⟨c, hstub⟩ : ∃ c, stubCont E.empty r = .ok [c] := ⟨_, heq⟩
  refine ⟨c, ?_⟩
  have hsk' := gen_init_stub_skeleton E r hrep
    { cls := Cls.IH5MFRecord, conts := Rec.init, files := [FName.file rec 0], ubs := [newBaseUB w.next], writable := true } rfl
  rw [hstub] at hsk'
  unfold IH5MFRecord.create_stub
  simp [pyParseManifest, hmf, pyHashsumFile, pyCreate, hfree, gen_init_stub_base, hsk, hsk', liftTree, pyObjSetUblock,
    pySetIdx_single, pyExtUpdate]
  have hcp := gen_commit_patch_ok E
    { self := { cls := Cls.IH5MFRecord, conts := [c], files := [FName.file rec 0],
                ubs := [{ core := { m.ub.core with prev := none },
                          ext := some { isStub := true, muuid := m.uuid, mhash := E.HM m } }], writable := true },
      disk := aput (FName.file rec 0) (DFile.cont (newBaseUB w.next) Cont.init) w.disk, next := w.next + 2 }
    (some true) none [] _ [] (FName.file rec 0) c [] ⟨rfl, rfl, rfl⟩ rfl rfl rfl
  refine ⟨hstub, ?_⟩
  simp [pyOn, dispatch_commit_patch, hcp]
  refine ⟨?_, ?_⟩
  · simp [Single.aget_aput, ne_mfOf, commitUB]
  · intro f h1 h2
    simp [Single.aget_aput, h1, h2]


/-- the stub's block is the model's `stubUB` when the manifest stores the newest block of the real record (what
`commit_patch` puts there, `gen_commit_patch_ok`) -/
theorem gen_stub_ub (E : Env V) (ubs : List UB) (last : UB) (c : Cont V) (m : Manifest)
    (hl : ubs.getLast? = some last) (hm : m.ub.core = last) :
    stubUB ubs (E.H c) = some { m.ub.core with prev := none, hash := some (E.H c) } := by
  simp [stubUB, hl, hm]

end MetadorModel.Bridge.MergeFns
