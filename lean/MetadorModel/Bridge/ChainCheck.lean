import MetadorModel.Bridge.ChainCheckUB
/-!
# Bridge (C04): the translated `IH5Record._open` / `IH5MFRecord._open` are the model's `openFiles`

`Gen/ChainCheck.lean` is regenerated from the source on every run (`harness/translate_c04.py`).
Main theorems, for all inputs:

* `gen_IH5Record_open`   : `IH5Record._open H HM .IH5Record paths ab ro = liftE (openFiles H HM false ab paths)`
* `gen_IH5MFRecord_open` : `IH5MFRecord._open H HM .IH5MFRecord paths none ab ro = liftE (openFiles H HM true ab paths)`
* `gen_open_ok_iff_coherent` / `gen_mf_open_ok_iff_coherent`: the translated function accepts a set of
  loadable files exactly when it is a coherent file set (`Chain.validate_ok_iff` transferred).

`paths : List (Option (File P M))` (`none`: the user block of that path does not load), `ab` =
`allow_baseless`, `ro` = `reopen_incomplete_patch` (which is shown not to matter), the manifest path of
`IH5MFRecord._open` not given (`none`, i.e. inferred from the newest container — the only case the model
covers). `liftE` turns the model's `Err` into the `ValueError` of that message; so the theorems also say that
no `IndexError` / `AttributeError` / `FileNotFoundError` of the interpreter can escape from the translated code:
the index arithmetic of the loop `range(1, len - 1)`, of `[-1]`, `[-2]` and the `is_file()` guard are right.

How the source's control flow meets the model's recursion: `pyForAux_inner` (the `for i in range(1, n-1)`
loop over indices = `checkInner`, structural recursion over the list), `checkRest_concat` (inner containers,
then the newest one), `pySet_pids` (`len({…}) != len(files)` = `!pidsDistinct`), `pySortBy_idx`.
-/
namespace MetadorModel.Bridge.ChainCheck
open MetadorModel.Chain MetadorModel.ChainPy MetadorModel.Gen.ChainCheck

variable {P M : Type} (H : P → Digest) (HM : M → Digest)

/-! ### list indexing -/
section idx
variable {α : Type}

theorem pyIdx_neg_one (xs : List α) (x : α) : pyIdx (xs ++ [x]) (-1) = .ok x := by
  simp [pyIdx]

theorem pyIdx_neg_two (xs : List α) (y x : α) : pyIdx (xs ++ [y, x]) (-2) = .ok y := by
  simp [pyIdx]

theorem pySetIdx_neg_one (xs : List α) (x v : α) : pySetIdx (xs ++ [x]) (-1) v = .ok (xs ++ [v]) := by
  simp [pySetIdx]

end idx

/-! ### sort, set -/
theorem pySortBy_idx (l : List (File P M)) : pySortBy (fun f => f.ub.idx) l = sortByIdx l := by
  have hi : ∀ (x : File P M) (acc : List (File P M)), pyInsertBy (fun f => f.ub.idx) x acc = insertByIdx x acc := by
    intro x acc
    induction acc with
    | nil => rfl
    | cons y r ih => simp [pyInsertBy, insertByIdx, ih]
  unfold pySortBy sortByIdx
  congr 1
  funext acc x
  exact hi x acc

theorem pySet_length_le {β : Type} [DecidableEq β] (xs : List β) : (pySet xs).length ≤ xs.length := by
  induction xs with
  | nil => simp [pySet]
  | cons x r ih => by_cases h : x ∈ r <;> simp [pySet, h] <;> omega

theorem pySet_length_eq_iff {β : Type} [DecidableEq β] (xs : List β) : (pySet xs).length = xs.length ↔ xs.Nodup := by
  induction xs with
  | nil => simp [pySet]
  | cons x r ih =>
    by_cases h : x ∈ r
    · have := pySet_length_le r
      simp [pySet, h]; omega
    · simp [pySet, h, ih]

theorem pySet_pids (l : List (File P M)) :
    (!(Int.ofNat (pySet (l.map (fun f => f.ub.pid))).length == Int.ofNat l.length)) = !pidsDistinct l := by
  have h := pySet_length_eq_iff (l.map (fun f => f.ub.pid))
  rw [List.length_map, ← pidsDistinct_iff] at h
  cases hp : pidsDistinct l
  · have : ¬ (pySet (l.map (fun f => f.ub.pid))).length = l.length := by rw [h, hp]; simp
    simp; omega
  · have := h.mpr hp
    simp [this]

/-! ### the model's chain check, split the way the source loops -/
/-- inner containers: hash required, each linked to its predecessor -/
def checkInner (mfAware : Bool) (rid0 : Uuid) : File P M → List (File P M) → Except Err Unit
  | _, [] => pure ()
  | p, f :: r => do
    checkUB H mfAware rid0 f (some p.ub) true
    checkInner mfAware rid0 f r

theorem checkRest_concat (mfAware : Bool) (rid0 : Uuid) (p : File P M) (mid : List (File P M)) (l : File P M) :
    checkRest H mfAware rid0 p (mid ++ [l]) =
      (do checkInner H mfAware rid0 p mid; checkUB H mfAware rid0 l (some (lastOf p mid).ub) false) := by
  induction mid generalizing p with
  | nil =>
    simp only [List.nil_append, checkRest, checkInner, lastOf]
    cases checkUB H mfAware rid0 l (some p.ub) false <;> rfl
  | cons f r ih =>
    cases r with
    | nil =>
      simp only [List.cons_append, List.nil_append, checkRest, checkInner, lastOf]
      cases checkUB H mfAware rid0 f (some p.ub) true <;> rfl
    | cons g r' =>
      have := ih f
      simp only [List.cons_append] at this ⊢
      simp only [checkRest, checkInner, lastOf] at this ⊢
      rw [this]
      cases checkUB H mfAware rid0 f (some p.ub) true <;> rfl

theorem pyForAux_inner (mfAware : Bool) (rid0 : Uuid) (files : List (File P M)) (body : Int → Except PyErr Unit)
    (hbody : ∀ (k : Nat) (p f : File P M), files[k]? = some p → files[k + 1]? = some f →
      body ((k : Int) + 1) = liftE (checkUB H mfAware rid0 f (some p.ub) true))
    (mid : List (File P M)) : ∀ (pre : List (File P M)) (p : File P M) (tail : List (File P M)),
      files = pre ++ p :: (mid ++ tail) →
      pyForAux body mid.length ((pre.length : Int) + 1) = liftE (checkInner H mfAware rid0 p mid) := by
  induction mid with
  | nil => intro pre p tail _; rfl
  | cons f r ih =>
    intro pre p tail hf
    have h1 : files[pre.length]? = some p := by simp [hf]
    have h2 : files[pre.length + 1]? = some f := by
      rw [hf, List.getElem?_append_right (by omega)]; simp
    have h3 := ih (pre ++ [p]) f tail (by simp [hf])
    simp only [List.length_append, List.length_cons, List.length_nil, Nat.cast_add, Nat.cast_one, zero_add] at h3
    simp only [List.length_cons, pyForAux, checkInner, liftE_bind, hbody _ p f h1 h2, h3]

@[simp] theorem ok_bind {ε α β : Type} (a : α) (f : α → Except ε β) : (Except.ok a >>= f) = f a := rfl
@[simp] theorem error_bind {ε α β : Type} (e : ε) (f : α → Except ε β) :
    ((Except.error e : Except ε α) >>= f) = .error e := rfl

theorem pyForRange_inner (mfAware : Bool) (rid0 : Uuid) (b : File P M) (mid : List (File P M)) (x : File P M)
    (body : Int → Except PyErr Unit)
    (hbody : ∀ (k : Nat) (p f : File P M), (b :: (mid ++ [x]))[k]? = some p → (b :: (mid ++ [x]))[k + 1]? = some f →
      body ((k : Int) + 1) = liftE (checkUB H mfAware rid0 f (some p.ub) true)) :
    pyForRange 1 (Int.ofNat (b :: (mid ++ [x])).length - 1) body = liftE (checkInner H mfAware rid0 b mid) := by
  have hn : (Int.ofNat (b :: (mid ++ [x])).length - 1 - 1).toNat = mid.length := by
    simp
  have := pyForAux_inner H mfAware rid0 (b :: (mid ++ [x])) body hbody mid [] b [x] rfl
  simp only [List.length_nil, Nat.cast_zero, zero_add] at this
  rw [pyForRange, hn, this]

theorem pyIdx_last (b : File P M) (mid : List (File P M)) (x : File P M) :
    pyIdx (b :: (mid ++ [x])) (-1) = .ok x := by
  rw [← List.cons_append]; exact pyIdx_neg_one _ _

theorem pyIdx_last2 (b : File P M) (mid : List (File P M)) (x : File P M) :
    pyIdx (b :: (mid ++ [x])) (-2) = .ok (lastOf b mid) := by
  have h : b :: (mid ++ [x]) = (b :: mid).dropLast ++ [lastOf b mid, x] := by
    conv_lhs => rw [← List.cons_append, ← dropLast_append_lastOf b mid]
    simp
  rw [h]; exact pyIdx_neg_two _ _ _

theorem pySetIdx_last (b : File P M) (mid : List (File P M)) (x : File P M) :
    pySetIdx (b :: (mid ++ [x])) (-1) x = .ok (b :: (mid ++ [x])) := by
  rw [← List.cons_append]; exact pySetIdx_neg_one _ _ _

@[simp] theorem map_ok' {ε α β : Type} (f : α → β) (a : α) : Except.map f (Except.ok a : Except ε α) = .ok (f a) := rfl
@[simp] theorem throw_bind {α β : Type} (e : PyErr) (f : α → Except PyErr β) :
    ((throw e : Except PyErr α) >>= f) = .error e := rfl

theorem mapM_id_length {α : Type} : ∀ (xs : List (Option α)) (l : List α), xs.mapM id = some l → l.length = xs.length
  | [], l, h => by simp at h; simp [← h]
  | none :: xs, l, h => by simp at h
  | some x :: xs, l, h => by
    simp only [List.mapM_cons, id, Option.pure_def, Option.bind_eq_bind, Option.bind_some] at h
    cases hm : xs.mapM id with
    | none => simp [hm] at h
    | some l' =>
      simp [hm] at h
      subst h
      simp [mapM_id_length xs l' hm]

/-- the checks of `IH5Record._open` on the sorted list (everything but the manifest) -/
def checkSortedCore (mfAware allowBaseless : Bool) (b : File P M) (rest : List (File P M)) : Except Err Unit :=
  if !allowBaseless && b.ub.prev.isSome then .error .basePrev
  else do
    checkUB H mfAware b.ub.rid b none (!rest.isEmpty)
    checkRest H mfAware b.ub.rid b rest
    if !pidsDistinct (b :: rest) then .error .dupPid else pure ()

/-- `IH5Record._open` of the model, for either class, without the manifest check -/
def openCore (mfAware ab : Bool) (fs : List (Option (File P M))) : Except Err (List (File P M)) :=
  if fs.isEmpty then .error .empty
  else match fs.mapM id with
    | none => .error .load
    | some l =>
      if l.any (fun f => !f.h5ok) then .error .h5open
      else match sortByIdx l with
        | [] => .error .empty
        | b :: rest => (checkSortedCore H mfAware ab b rest).map (fun _ => b :: rest)

theorem gen_open_core (cls : Cls) (paths : List (Option (File P M))) (ab ro : Bool) :
    IH5Record._open H HM cls paths ab ro = liftE (openCore H (mfAwareOf cls) ab paths) := by
  unfold IH5Record._open openCore
  simp only [gen_ublock_file, pySortBy_idx]
  by_cases he : paths.isEmpty
  · simp [he, throw, throwThe, MonadExceptOf.throw, bind, Except.bind]
  · simp only [he]
    cases hl : paths.mapM id with
    | none => simp [pyLoadAll, hl, bind, Except.bind]
    | some l =>
      have hne : l ≠ [] := by
        intro h0; have := mapM_id_length paths l hl; subst h0
        have : paths = [] := List.length_eq_zero_iff.mp this.symm
        simp [this] at he
      by_cases h5 : l.any (fun f => !f.h5ok)
      · simp [pyLoadAll, pyOpenAll, hl, h5, bind, Except.bind]
      · obtain ⟨b, rest, hs⟩ : ∃ b rest, sortByIdx l = b :: rest := by
          cases hs : sortByIdx l with
          | nil =>
            have := sortByIdx_perm l; rw [hs] at this
            exact absurd this.nil_eq.symm hne
          | cons b rest => exact ⟨b, rest, rfl⟩
        -- statements that do not depend on the order of the files may stand before or after the sort
        have hlen : l.length = (b :: rest).length := by rw [← hs]; exact (sortByIdx_perm l).length_eq.symm
        simp only [pyLoadAll, hl, pyOpenAll, h5, ok_bind, Bool.not_false, Bool.not_true, Bool.false_eq_true, ↓reduceIte, bne]
        simp only [hs, hlen, gen_ublock_int, pyIdx_zero_cons, map_ok', ok_bind, throw_bind, gen_dispatch_check_ublock]
        rcases List.eq_nil_or_concat rest with hr | ⟨mid, x, hr⟩
        · subst hr
          simp only [checkSortedCore, checkRest]
          cases hc : checkUB H (mfAwareOf cls) b.ub.rid b none (decide (Int.ofNat [b].length > 1)) with
          | error e => simp at hc; cases ab <;> cases hp : b.ub.prev <;> simp [hc, Except.map]
          | ok u =>
            simp at hc
            cases ab <;> cases hp : b.ub.prev <;> cases hh : b.ub.hash <;> cases ro <;>
              simp [hc, hh, pyForRange, pyForAux, pyIdx, pySetIdx, pySet, pidsDistinct, Except.map, pure, Except.pure, bind, Except.bind]
        · subst hr
          simp only [List.concat_eq_append] at hs ⊢
          have hgt : decide (Int.ofNat (b :: (mid ++ [x])).length > 1) = true := by simp
          rw [pyForRange_inner H (mfAwareOf cls) b.ub.rid b mid x]
          · simp only [hgt, pyIdx_last, pyIdx_last2, pySetIdx_last, map_ok', ok_bind, gen_dispatch_check_ublock]
            have hne' : (!(mid ++ [x]).isEmpty) = true := by simp
            simp only [pySet_pids, checkSortedCore, checkRest_concat, hne']
            cases h1 : checkUB H (mfAwareOf cls) b.ub.rid b none true <;>
            cases h2 : checkInner H (mfAwareOf cls) b.ub.rid b mid <;>
            cases h3 : checkUB H (mfAwareOf cls) b.ub.rid x (some (lastOf b mid).ub) false <;>
            cases ab <;> cases hp : b.ub.prev <;> cases hh : x.ub.hash <;> cases ro <;>
            cases hd : pidsDistinct (b :: (mid ++ [x])) <;>
              simp [Except.map, pure, Except.pure, bind, Except.bind]
          · intro k p f h1 h2
            have e1 : ((k : Int) + 1) = ((k + 1 : Nat) : Int) := by push_cast; rfl
            have e2 : ((k : Int) + 1 - 1) = (k : Int) := by omega
            simp only [e2]
            rw [e1]
            simp only [pyIdx_nat _ _ _ h1, pyIdx_nat _ _ _ h2, map_ok', ok_bind, gen_dispatch_check_ublock]

/-- the manifest part of `IH5MFRecord._open` of the model, on the sorted list -/
def mfCheck (s : List (File P M)) : Except Err (List (File P M)) :=
  match s with
  | [] => .ok []
  | b :: rest => (checkManifest HM (lastOf b rest)).map (fun _ => s)

theorem checkSorted_eq (mfAware ab : Bool) (b : File P M) (rest : List (File P M)) :
    checkSorted H HM mfAware ab b rest =
      (checkSortedCore H mfAware ab b rest >>= fun _ =>
        if mfAware then checkManifest HM (lastOf b rest) else pure ()) := by
  unfold checkSorted checkSortedCore
  by_cases hc : (!ab && b.ub.prev.isSome) = true
  · simp only [hc, if_true]; rfl
  · simp only [hc]
    cases checkUB H mfAware b.ub.rid b none (!rest.isEmpty) <;>
    cases checkRest H mfAware b.ub.rid b rest <;>
    cases pidsDistinct (b :: rest) <;> cases mfAware <;> rfl

theorem openFiles_false (ab : Bool) (fs : List (Option (File P M))) :
    openFiles H HM false ab fs = openCore H false ab fs := by
  unfold openFiles openCore validate
  by_cases he : fs.isEmpty
  · simp [he, throw, throwThe, MonadExceptOf.throw]
  · simp only [he]
    cases hl : fs.mapM id with
    | none => simp [throw, throwThe, MonadExceptOf.throw]
    | some l =>
      have hne : l ≠ [] := by
        intro h0; have := mapM_id_length fs l hl; subst h0
        have : fs = [] := List.length_eq_zero_iff.mp this.symm
        simp [this] at he
      simp only [List.isEmpty_iff, hne, if_false]
      by_cases h5 : l.any (fun f => !f.h5ok)
      · simp only [h5, if_true]; rfl
      · simp only [h5]
        cases hs : sortByIdx l with
        | nil => rfl
        | cons b rest =>
          simp only [Bool.false_eq_true, if_false, checkSorted_eq]
          cases checkSortedCore H false ab b rest <;> rfl

theorem openFiles_true (ab : Bool) (fs : List (Option (File P M))) :
    openFiles H HM true ab fs = (openCore H true ab fs >>= mfCheck HM) := by
  unfold openFiles openCore validate
  by_cases he : fs.isEmpty
  · simp [he, throw, throwThe, MonadExceptOf.throw]
  · simp only [he]
    cases hl : fs.mapM id with
    | none => simp [throw, throwThe, MonadExceptOf.throw]
    | some l =>
      have hne : l ≠ [] := by
        intro h0; have := mapM_id_length fs l hl; subst h0
        have : fs = [] := List.length_eq_zero_iff.mp this.symm
        simp [this] at he
      simp only [List.isEmpty_iff, hne, if_false]
      by_cases h5 : l.any (fun f => !f.h5ok)
      · simp only [h5, if_true]; rfl
      · simp only [h5]
        cases hs : sortByIdx l with
        | nil => rfl
        | cons b rest =>
          simp only [Bool.false_eq_true, if_false, checkSorted_eq, if_true]
          cases checkSortedCore H true ab b rest <;> simp [mfCheck, Except.map, bind, Except.bind]

theorem openCore_ok_cons {mfAware ab : Bool} {fs : List (Option (File P M))} {s : List (File P M)}
    (h : openCore H mfAware ab fs = .ok s) : ∃ b rest, s = b :: rest := by
  unfold openCore at h
  split at h
  · cases h
  · split at h
    · cases h
    · split at h
      · cases h
      · split at h
        · cases h
        · rename_i b rest _
          cases hc : checkSortedCore H mfAware ab b rest with
          | error e => simp [hc, Except.map] at h
          | ok u => simp [hc, Except.map] at h; exact ⟨b, rest, h.symm⟩

/-- **`IH5Record._open` is the model's `openFiles` (class `IH5Record`).** -/
theorem gen_IH5Record_open (paths : List (Option (File P M))) (ab ro : Bool) :
    IH5Record._open H HM .IH5Record paths ab ro = liftE (openFiles H HM false ab paths) := by
  rw [gen_open_core, openFiles_false]; rfl

theorem pyIdx_lastOf (b : File P M) (rest : List (File P M)) : pyIdx (b :: rest) (-1) = .ok (lastOf b rest) := by
  conv_lhs => rw [← dropLast_append_lastOf b rest]
  exact pyIdx_neg_one _ _

/-- **`IH5MFRecord._open` (manifest path inferred) is the model's `openFiles` (class `IH5MFRecord`).** -/
theorem gen_IH5MFRecord_open (paths : List (Option (File P M))) (ab ro : Bool) :
    IH5MFRecord._open H HM .IH5MFRecord paths none ab ro = liftE (openFiles H HM true ab paths) := by
  unfold IH5MFRecord._open
  rw [gen_open_core, openFiles_true, liftE_bind]
  cases ho : openCore H (mfAwareOf .IH5MFRecord) ab paths with
  | error e => 
    have : openCore H true ab paths = .error e := ho
    simp [this]
  | ok s =>
    have ho' : openCore H true ab paths = .ok s := ho
    obtain ⟨b, rest, rfl⟩ := openCore_ok_cons H ho
    simp only [ho', liftE_ok, ok_bind, gen_ublock_int, pyIdx_lastOf, map_ok', Option.isNone_none, if_true]
    simp only [mfCheck, checkManifest]
    cases he : (lastOf b rest).ub.ext with
    | some e =>
      cases hm : (lastOf b rest).mf with
      | none => (simp [pyNotNone, Except.map]; rfl)
      | some m =>
        by_cases hh : e.mhash = HM m <;> simp [pyNotNone, pyHashsumMf, Except.map, hh] <;> rfl
    | none =>
      rcases List.eq_nil_or_concat rest with rfl | ⟨mid, x, rfl⟩
      · simp [Except.map]; rfl
      · simp only [List.concat_eq_append, pyIdx_last2, map_ok', ok_bind]
        cases (lastOf b mid).ub.ext <;> cases (lastOf b mid).mf <;>
          cases (lastOf b (mid ++ [x])).ub.hash <;> simp [pyNotNone, pyHashsumMf, Except.map] <;> rfl

theorem mapM_id_map_some {α : Type} (fs : List α) : (fs.map some).mapM id = some fs := by
  induction fs with
  | nil => rfl
  | cons f r ih => simp [ih]

theorem openFiles_map_some (mfAware ab : Bool) (fs : List (File P M)) :
    openFiles H HM mfAware ab (fs.map some) = validate H HM mfAware ab fs := by
  unfold openFiles
  rw [mapM_id_map_some]
  cases fs with
  | nil => rfl
  | cons f r => rfl

/-- **Transfer of `validate_ok_iff` to the source (class `IH5Record`)**: the translated `_open` returns `s`
for a set of loadable files iff `s` is an arrangement of them that is a coherent file set. -/
theorem gen_open_ok_iff_coherent (fs s : List (File P M)) (ab ro : Bool) :
    IH5Record._open H HM .IH5Record (fs.map some) ab ro = .ok s ↔ s.Perm fs ∧ Coherent H HM false ab s := by
  rw [gen_IH5Record_open, openFiles_map_some, ← Chain.validate_ok_iff]
  cases validate H HM false ab fs <;> simp [liftE, Except.mapError]

/-- the same for `IH5MFRecord` (manifest of the newest container included) -/
theorem gen_mf_open_ok_iff_coherent (fs s : List (File P M)) (ab ro : Bool) :
    IH5MFRecord._open H HM .IH5MFRecord (fs.map some) none ab ro = .ok s ↔ s.Perm fs ∧ Coherent H HM true ab s := by
  rw [gen_IH5MFRecord_open, openFiles_map_some, ← Chain.validate_ok_iff]
  cases validate H HM true ab fs <;> simp [liftE, Except.mapError]

/-- defaults of the keyword parameters: `IH5Record(files, "r")` checks with `allow_baseless = False`; no
manifest path is passed unless the caller gives one -/
theorem gen_open_defaults :
    IH5Record._open.default_allow_baseless = false ∧ IH5Record._open.default_reopen_incomplete_patch = false ∧
    IH5MFRecord._open.default_allow_baseless = false ∧ (IH5MFRecord._open.default_manifest_file (M := M)) = none :=
  ⟨rfl, rfl, rfl, rfl⟩

end MetadorModel.Bridge.ChainCheck
