import MetadorModel.Gen.GroupMethods
import MetadorModel.Model.Paths
import MetadorModel.Model.PathsAlias
/-!
Obligations on the method table extracted from `container/wrappers.py` on every run
(`Gen/GroupMethods.lean`). A new or refactored method that hands a user-controlled path to
`self.__wrapped__` without a dominating `_guard_path`, a listing method that neither filters on
`is_internal_path` nor delegates to one that does, a protocol method that is not wrapped, a
mapping dunder that `wrapt.ObjectProxy` forwards unfiltered, or a `__getattr__` that lets unknown
attributes through, changes the table and breaks one of these `decide` proofs.
-/
namespace MetadorModel.Bridge.GroupMethods
open MetadorModel MetadorModel.Paths

/-- every method of the table guards every user-controlled path before `__wrapped__` sees it -/
theorem methods_guarded : ∀ m ∈ Gen.groupMethods, m.guardsAllPaths = true := by decide

/-- every listing primitive filters reserved names (itself or by delegation) -/
theorem listings_filtered : ∀ m ∈ Gen.groupMethods, m.listingFiltered = true := by decide

/-- every method of the `H5GroupLike` protocol is wrapped explicitly by `MetadorGroup`, and the
ones with path-named parameters have guarded path arguments -/
theorem protocol_covered : ∀ pm ∈ Gen.protocolMethods,
    Gen.groupMethods.any (fun m => m.cls == "MetadorGroup" && m.name == pm.1 &&
      (pm.2.isEmpty || !m.shape.pathArgs.isEmpty)) = true := by decide

/-- unknown attributes are refused: `MetadorGroup.__getattr__` never returns, and
`MetadorContainer.__getattr__` forwards only `mode`, `flush`, `close` -/
theorem unknown_refused : Gen.groupGetattrRefuses = true ∧ Gen.containerGetattrWhitelisted = true ∧
    ∀ n ∈ Gen.containerSupported, n ∈ ["close", "flush", "mode"] := by decide

/-- no mapping-protocol dunder (`__getitem__ __setitem__ __delitem__ __contains__ __iter__
__len__ __reversed__`) falls through to `wrapt.ObjectProxy` (cf. F18) -/
theorem passthrough_harmless : Gen.passthrough = [] := by decide

/-- non-vacuity: the table is populated (the eleven path-taking methods are there, `copy` and
`move` with two guarded positions each) -/
theorem table_nonempty :
    (Gen.groupMethods.filter fun m => !m.shape.pathArgs.isEmpty).length ≥ 11 ∧
    Gen.groupMethods.any (fun m => m.name == "copy" && m.shape.pathArgs.length == 2 &&
      m.shape.guards == [.readOnly, .path 0, .path 1]) = true ∧
    Gen.groupMethods.any (fun m => m.name == "move" && m.shape.pathArgs.length == 2) = true := by
  decide

/-- `MetadorGroup.__setitem__` refuses, before anything else, every value whose class names or
references another node (`HardLink`, `SoftLink`, `ExternalLink`, `Reference` and subclasses):
the class lists tested by its leading `if …: raise` statements contain all of `Paths.linkTypes`.
The name-based guard and the name-based listing filter are only sufficient because no such value
is ever stored. -/
theorem link_values_refused : Gen.setitemValueTestFirst = true ∧
    ∀ ty ∈ Paths.linkTypes, ty ∈ Gen.refusedValueTypes := by decide

/-- … and every value that h5py would store as a named datatype (`numpy.dtype`,
`h5py.Datatype`): such a node is neither group nor dataset and `_wrap_if_node` would hand it out
as the raw h5py object (F35). -/
theorem type_values_refused : ∀ ty ∈ Paths.typeTypes, ty ∈ Gen.refusedValueTypes := by decide

/-- `MetadorNode._guard_path` consists of exactly the two `if …: raise` statements that
`Paths.guardPath` / `Paths.guardPathV` mirror, the first one being the test
`M.is_internal_path(path)` on the argument as it was handed over — nothing (no early `return`,
no type test, no conversion) comes before it. -/
theorem guard_path_shape : Gen.guardPathStmts =
    ["raise-if M.is_internal_path(path)", "raise-if self.acl[NodeAcl.local_only] and path[0] == '/'"] := by
  decide

end MetadorModel.Bridge.GroupMethods
