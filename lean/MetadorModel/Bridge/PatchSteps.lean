import MetadorModel.Gen.PatchSteps
import MetadorModel.Bridge.PatchStepsModel
/-!
# Bridge for C11: constants, file names, guards, `_ublock` / `_set_ublock`
as regenerated from the source (`Gen/PatchSteps.lean`, written by `harness/translate_c11.py` on every run)

Each `gen_*` theorem says that a regenerated method, run on the Python object that stands for a state `s`
of the record model, is the hand-written step sequence of `Bridge/PatchStepsModel.lean` — same result or
exception, same object afterwards, same disk, **same file-system actions in the same order**. Together with
`createPatchW_res` … (there) this gives `gen_create_patch_model` (Bridge/PatchStepsCreate.lean): the regenerated
`create_patch` *is* the model's `createPatch`; likewise `gen_discard_patch_model` (PatchStepsDiscard),
`gen_commit_patch_model`, `gen_mf_commit_patch_model` (PatchStepsCommit), `gen_close_model` (PatchStepsClose);
`IH5UserBlock.save` at byte level: PatchStepsSave; crash states of the step sequences: PatchStepsCrash. A change of the source that reorders, drops or adds a file-system effect, or changes a
guard, changes the generated text and breaks the `gen_*` theorem of that method.
-/
set_option linter.unusedSimpArgs false
set_option linter.unusedVariables false
namespace MetadorModel.Bridge.PatchSteps
open MetadorModel.FindFiles MetadorModel.Record MetadorModel.RecordPy MetadorModel.PatchPy
open MetadorModel.Gen.PatchSteps

/-! ## constants and file names -/

theorem gen_constants : USER_BLOCK_SIZE = 1024 := rfl

/-! ## guards -/

theorem gen_has_writable (w : World) : IH5Record._has_writable w = (.ok (lastIsRW w.self.files), w) := by
  unfold IH5Record._has_writable
  rcases nil_or_snoc w.self.files with h | ⟨init, x, h⟩
  · simp [h, pyTruthyList, lastIsRW]
  · simp [h, pyTruthyList, lastIsRW, pyIdx_last_snoc, pyH5Mode]
    try (cases x.rw <;> simp)

theorem gen_expect_open (w : World) :
    IH5Record._expect_open w = (if w.self.closed then (.error .valueError, w) else (.ok (), w)) := by
  unfold IH5Record._expect_open
  cases h : w.self.closed <;> simp [h]

theorem gen_mode (w : World) : IH5Record.mode w = (.ok (if w.self.allow then ['r', '+'] else ['r']), w) := by
  unfold IH5Record.mode
  cases h : w.self.allow <;> simp [h]

theorem gen_expect_not_ro (w : World) :
    IH5Record._expect_not_ro w = (if w.self.allow then (.ok (), w) else (.error .valueError, w)) := by
  unfold IH5Record._expect_not_ro
  cases h : w.self.allow <;> simp [gen_mode, h]

/-! ## `_ublock`, `_set_ublock` -/

theorem gen_ublock_last_nil (w : World) (h : w.self.files = []) :
    IH5Record._ublock (.int (-1 : Int)) w = (.error .indexError, w) := by
  unfold IH5Record._ublock
  simp [h, pyIdx_last_nil]

theorem gen_ublock_last_snoc (w : World) (hs : List H5) (x : H5) (h : w.self.files = hs ++ [x]) :
    IH5Record._ublock (.int (-1 : Int)) w = (pyDictGet w.self.ublocks x.name, w) := by
  unfold IH5Record._ublock
  cases hg : pyDictGet w.self.ublocks x.name <;> simp [h, pyIdx_last_snoc, hg]

theorem gen_set_ublock_last_snoc (w : World) (hs : List H5) (x : H5) (u : UB) (h : w.self.files = hs ++ [x]) :
    IH5Record._set_ublock (.int (-1 : Int)) u w =
      (.ok (), { w with self := { w.self with ublocks := pyDictSet w.self.ublocks x.name u } }) := by
  unfold IH5Record._set_ublock
  simp [h, pyIdx_last_snoc, pySetUblocks]

theorem gen_ublock_last (w : World) :
    IH5Record._ublock (.int (-1 : Int)) w = match w.self.files.getLast? with
      | none => (.error .indexError, w)
      | some x => (pyDictGet w.self.ublocks x.name, w) := by
  rcases nil_or_snoc w.self.files with h | ⟨hs, x, h⟩
  · rw [gen_ublock_last_nil w h, h]; rfl
  · rw [gen_ublock_last_snoc w hs x h, h]; simp

theorem gen_set_ublock_last (w : World) (u : UB) :
    IH5Record._set_ublock (.int (-1 : Int)) u w = match w.self.files.getLast? with
      | none => (.error .indexError, w)
      | some x => (.ok (), { w with self := { w.self with ublocks := pyDictSet w.self.ublocks x.name u } }) := by
  rcases nil_or_snoc w.self.files with h | ⟨hs, x, h⟩
  · unfold IH5Record._set_ublock
    simp [h, pyIdx_last_nil]
  · rw [gen_set_ublock_last_snoc w hs x u h, h]; simp

end MetadorModel.Bridge.PatchSteps
