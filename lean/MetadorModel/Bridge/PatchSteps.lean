import MetadorModel.Gen.PatchSteps
import MetadorModel.Bridge.PatchStepsModel
/-!
# Bridge for C11: guards, `IH5UserBlock.create`, `_new_container`, `create_patch`, `discard_patch`
as regenerated from the source (`Gen/PatchSteps.lean`, written by `harness/translate_c11.py` on every run)

Each `gen_*` theorem says that a regenerated method, run on the Python object that stands for a state `s`
of the record model, is the hand-written step sequence of `Bridge/PatchStepsModel.lean` — same result or
exception, same object afterwards, same disk, **same file-system actions in the same order**. Together with
`createPatchW_res` … (there) this gives `gen_create_patch_model`: the regenerated `create_patch` *is* the
model's `createPatch`. A change of the source that reorders, drops or adds a file-system effect, or changes a
guard, changes the generated text and breaks the `gen_*` theorem of that method.
-/
set_option linter.unusedSimpArgs false
set_option linter.unusedVariables false
namespace MetadorModel.Bridge.PatchSteps
open MetadorModel.FindFiles MetadorModel.Record MetadorModel.RecordPy MetadorModel.PatchPy
open MetadorModel.Gen.PatchSteps

/-! ## constants and file names -/

theorem gen_constants : USER_BLOCK_SIZE = 1024 ∧ MANIFEST_EXT = mfExt := ⟨rfl, rfl⟩

/-- the sidecar is named after the **container file** (one manifest per container, so that writing the
manifest of a new patch never touches the manifest of a committed one) -/
theorem gen_manifest_filepath (f : Name) : IH5MFRecord._manifest_filepath f = manifestFile f := by
  simp [IH5MFRecord._manifest_filepath, manifestFile, gen_constants.2]

/-! ## guards -/

theorem gen_has_writable (w : World) : IH5Record._has_writable w = (.ok (lastIsRW w.self.files), w) := by
  unfold IH5Record._has_writable
  rcases nil_or_snoc w.self.files with h | ⟨init, x, h⟩
  · simp [h, pyTruthyList, lastIsRW]
  · simp [h, pyTruthyList, lastIsRW, pyIdx_last_snoc, pyH5Mode]
    try (cases x.rw <;> simp)

theorem gen_expect_open (w : World) :
    IH5Record._expect_open w = (if w.self.closed then (.error .valueError, w) else (.ok (), w)) := by
  unfold IH5Record._expect_open
  cases h : w.self.closed <;> simp [h]

theorem gen_mode (w : World) : IH5Record.mode w = (.ok (if w.self.allow then ['r', '+'] else ['r']), w) := by
  unfold IH5Record.mode
  cases h : w.self.allow <;> simp [h]

theorem gen_expect_not_ro (w : World) :
    IH5Record._expect_not_ro w = (if w.self.allow then (.ok (), w) else (.error .valueError, w)) := by
  unfold IH5Record._expect_not_ro
  cases h : w.self.allow <;> simp [gen_mode, h]

/-! ## `_ublock`, `_set_ublock` -/

theorem gen_ublock_last_nil (w : World) (h : w.self.files = []) :
    IH5Record._ublock (.int (-1 : Int)) w = (.error .indexError, w) := by
  unfold IH5Record._ublock
  simp [h, pyIdx_last_nil]

theorem gen_ublock_last_snoc (w : World) (hs : List H5) (x : H5) (h : w.self.files = hs ++ [x]) :
    IH5Record._ublock (.int (-1 : Int)) w = (pyDictGet w.self.ublocks x.name, w) := by
  unfold IH5Record._ublock
  cases hg : pyDictGet w.self.ublocks x.name <;> simp [h, pyIdx_last_snoc, hg]

theorem gen_set_ublock_last_snoc (w : World) (hs : List H5) (x : H5) (u : UB) (h : w.self.files = hs ++ [x]) :
    IH5Record._set_ublock (.int (-1 : Int)) u w =
      (.ok (), { w with self := { w.self with ublocks := pyDictSet w.self.ublocks x.name u } }) := by
  unfold IH5Record._set_ublock
  simp [h, pyIdx_last_snoc, pySetUblocks]

theorem gen_ublock_last (w : World) :
    IH5Record._ublock (.int (-1 : Int)) w = match w.self.files.getLast? with
      | none => (.error .indexError, w)
      | some x => (pyDictGet w.self.ublocks x.name, w) := by
  rcases nil_or_snoc w.self.files with h | ⟨hs, x, h⟩
  · rw [gen_ublock_last_nil w h, h]; rfl
  · rw [gen_ublock_last_snoc w hs x h, h]; simp

theorem gen_set_ublock_last (w : World) (u : UB) :
    IH5Record._set_ublock (.int (-1 : Int)) u w = match w.self.files.getLast? with
      | none => (.error .indexError, w)
      | some x => (.ok (), { w with self := { w.self with ublocks := pyDictSet w.self.ublocks x.name u } }) := by
  rcases nil_or_snoc w.self.files with h | ⟨hs, x, h⟩
  · unfold IH5Record._set_ublock
    simp [h, pyIdx_last_nil]
  · rw [gen_set_ublock_last_snoc w hs x u h, h]; simp

/-! ## `IH5UserBlock.create` -/

/-- a patch block: index and `prev_patch` from the predecessor, one fresh uuid, **no checksum** -/
theorem gen_ub_create_some (p : UB) (w : World) :
    IH5UserBlock.create (some p) w = (.ok (newPatchUB p w.next), { w with next := w.next + 1 }) := by
  unfold IH5UserBlock.create
  simp [pyUuid1, newPatchUB]

theorem gen_ub_create_none (w : World) :
    IH5UserBlock.create none w = (.ok (newBaseUB w.next), { w with next := w.next + 2 }) := by
  unfold IH5UserBlock.create
  simp [pyUuid1, newBaseUB]

/-! ## `_new_container`: steps 1–3 -/

/-- create with mode `x` and a reserved user block of 1024 bytes, close, write the user block, reopen `r+` —
in this order, and nothing else -/
theorem gen_new_container (path : Name) (ub : UB) (w : World) :
    IH5Record._new_container path ub w =
      if w.self.files.any (fun h => h.live && h.name == path) then (.error .osError, w)
      else if (getF w.disk path).isSome then (.error .fileExists, w)
      else (.ok ⟨path, true, true⟩,
            { w with disk := setF w.disk path (.cont ub []), trace := w.trace ++ createTrace path ub }) := by
  unfold IH5Record._new_container
  by_cases h1 : w.self.files.any (fun h => h.live && h.name == path) = true
  · simp [pyH5Create, h1]
  · by_cases h2 : (getF w.disk path).isSome = true
    · simp [pyH5Create, h1, h2]
    · simp [pyH5Create, h1, h2, pyH5Close, pyUBSave, pyH5Open, getF_setF_eq, setF_setF, gen_constants.1, createTrace]

/-! ## `create_patch` -/

theorem mkHandles_head (f0 : Name) (u0 : UB) (rest : List (Name × UB)) (rw : Bool) :
    ∃ h t, mkHandles ((f0, u0) :: rest) rw = h :: t ∧ h.name = f0 := by
  cases rest with
  | nil => exact ⟨_, _, rfl, rfl⟩
  | cons y r => exact ⟨_, _, rfl, rfl⟩

theorem next_patch_filepath_ofState (s : State) (hp : PyRep s.h) (f0 : Name) (u0 : UB) (rest : List (Name × UB))
    (fl : Name) (ul : UB) (hfs : s.h.files = (f0, u0) :: rest) (hl : lastFile s.h.files = some (fl, ul)) :
    pyNextPatchFilepath (World.ofState s) = (.ok (patchFile (inferName f0) (ul.idx + 1)), World.ofState s) := by
  obtain ⟨h, t, hh, hname⟩ := mkHandles_head f0 u0 rest s.h.lastRW
  rcases nil_or_snoc s.h.files with hnil | ⟨init, ⟨fl', ul'⟩, hsn⟩
  · rw [hnil] at hfs; cases hfs
  · have hl' := lastFile_append_single init (fl', ul')
    rw [← hsn, hl] at hl'
    cases hl'
    have hget : pyDictGet s.h.files fl = .ok ul := pyDictGet_mem _ _ _ hp.1 (lastFile_mem _ _ hl)
    have h0 : pyIdx (World.ofState s).self.files (0 : Int) = .ok h := by
      rw [ofState_files, hfs, hh, pyIdx_zero_cons]
    have h1 : pyIdx (World.ofState s).self.files (-1 : Int) = .ok ⟨fl, s.h.lastRW, true⟩ := by
      rw [ofState_files, hsn, mkHandles_snoc, pyIdx_last_snoc]
    have h2 : (World.ofState s).self.ublocks = s.h.files := rfl
    simp only [pyNextPatchFilepath, h0, h1, h2, hget, hname]

/-- **`create_patch`** as regenerated from the source is the step sequence `createPatchW` -/
theorem gen_create_patch (s : State) (hp : PyRep s.h) :
    IH5Record.create_patch (World.ofState s) = createPatchW s := by
  have hcl : (World.ofState s).self.closed = s.h.closed := rfl
  have hal : (World.ofState s).self.allow = s.h.allow := rfl
  have hwr : lastIsRW (World.ofState s).self.files = hasWritable s.h := (hasWritable_eq s.h).symm
  unfold IH5Record.create_patch createPatchW
  cases hc : s.h.closed
  case true => simp [gen_expect_open, hcl, hc]
  case false =>
    cases ha : s.h.allow
    case false => simp [gen_expect_open, gen_expect_not_ro, hcl, hal, hc, ha]
    case true =>
      cases hw : hasWritable s.h
      case true => simp [gen_expect_open, gen_expect_not_ro, gen_has_writable, hcl, hal, hwr, hc, ha, hw]
      case false =>
        simp only [run_bind, gen_expect_open, gen_expect_not_ro, gen_has_writable, hcl, hal, hwr, hc, ha, hw,
          Bool.false_eq_true, if_false, if_true, Bool.not_true]
        rcases nil_or_snoc s.h.files with hnil | ⟨init, ⟨fl, ul⟩, hsn⟩
        · have h0 : pyIdx (World.ofState s).self.files (0 : Int) = .error .indexError := by
            rw [ofState_files, hnil]; exact pyIdx_zero_nil
          simp [pyNextPatchFilepath, h0, hnil, lastFile]
        · have hl : lastFile s.h.files = some (fl, ul) := by rw [hsn]; exact lastFile_append_single _ _
          cases hfs : s.h.files with
          | nil => rw [hfs] at hsn; simp at hsn
          | cons a rest =>
            obtain ⟨f0, u0⟩ := a
            rw [next_patch_filepath_ofState s hp f0 u0 rest fl ul hfs hl]
            have hfiles : (World.ofState s).self.files = init.map ro ++ [⟨fl, s.h.lastRW, true⟩] := by
              rw [ofState_files, hsn, mkHandles_snoc]
            have hget : pyDictGet (World.ofState s).self.ublocks fl = .ok ul :=
              pyDictGet_mem _ _ _ hp.1 (lastFile_mem _ _ hl)
            simp only [gen_ublock_last_snoc _ _ _ hfiles, hget, gen_ub_create_some, gen_new_container]
            have hdisk : (World.ofState s).disk = s.disk := rfl
            have hnext : (World.ofState s).next = s.next := rfl
            have htr : (World.ofState s).trace = [] := rfl
            rw [ofState_files, any_live_mkHandles, hdisk, hnext, htr]
            have hl' := hl
            rw [hfs] at hl'
            simp only [hl', fileNames]
            rcases Bool.eq_false_or_eq_true ((s.h.files.map Prod.fst).contains (patchFile (inferName f0) (ul.idx + 1)))
              with hopen | hopen
            · simp only [hopen, if_true]
            · rcases Bool.eq_false_or_eq_true (getF s.disk (patchFile (inferName f0) (ul.idx + 1))).isSome with hex | hex
              · simp only [hopen, hex, Bool.false_eq_true, if_false, if_true]
              · simp only [hopen, hex, Bool.false_eq_true, if_false]
                have hc2 : (Obj.ofHandle s.h).closed = false := hc
                have ha2 : (Obj.ofHandle s.h).allow = true := ha
                have hf2 : (Obj.ofHandle s.h).files = mkHandles s.h.files s.h.lastRW := rfl
                simp [pySetFiles, pySetUblocks, World.ofState, hc2, ha2, hf2]

/-- **`create_patch`** as regenerated from the source is the model's `createPatch` (state, outcome, files
created / removed / rewritten) -/
theorem gen_create_patch_model (s : State) (hp : PyRep s.h) :
    resOf s (IH5Record.create_patch (World.ofState s)) = createPatch s := by
  rw [gen_create_patch s hp]; exact createPatchW_res s hp

/-! ## `discard_patch` -/

theorem gen_delete_latest_container (w : World) (hs : List H5) (x : H5) (hf : w.self.files = hs ++ [x]) :
    IH5Record._delete_latest_container w =
      match pyDictDel w.self.ublocks x.name with
      | .error e => (.error e, { w with self := { w.self with files := hs } })
      | .ok d =>
        let w1 : World := { w with self := { w.self with files := hs, ublocks := d },
                                   trace := if x.live then w.trace ++ [.h5close x.name x.rw] else w.trace }
        match getF w.disk x.name with
        | none => (.error .fileNotFound, w1)
        | some _ => (.ok (), { w1 with disk := eraseF w.disk x.name, trace := w1.trace ++ [.unlink x.name] }) := by
  unfold IH5Record._delete_latest_container
  cases hd : pyDictDel w.self.ublocks x.name with
  | error e => simp [hf, pyPop_snoc, pySetFiles, hd]
  | ok d =>
    cases hg : getF w.disk x.name <;> cases hl : x.live <;>
      simp [hf, pyPop_snoc, pySetFiles, pySetUblocks, hd, pyH5Close, pyUnlink, hg, hl]

/-- **`discard_patch`** as regenerated from the source is the step sequence `discardW` -/
theorem gen_discard_patch (s : State) (hp : PyRep s.h) :
    IH5Record.discard_patch (World.ofState s) = discardW s := by
  have hcl : (World.ofState s).self.closed = s.h.closed := rfl
  have hal : (World.ofState s).self.allow = s.h.allow := rfl
  have hwr : lastIsRW (World.ofState s).self.files = hasWritable s.h := (hasWritable_eq s.h).symm
  have hlen : (World.ofState s).self.files.length = s.h.files.length := by rw [ofState_files, mkHandles_length]
  unfold IH5Record.discard_patch discardW
  cases hc : s.h.closed
  case true => simp [gen_expect_open, hcl, hc]
  case false =>
    cases ha : s.h.allow
    case false => simp [gen_expect_open, gen_expect_not_ro, hcl, hal, hc, ha]
    case true =>
      cases hw : hasWritable s.h
      case false => simp [gen_expect_open, gen_expect_not_ro, gen_has_writable, hcl, hal, hwr, hc, ha, hw]
      case true =>
        by_cases hone : s.h.files.length = 1
        · have hone' : (s.h.files.length == 1) = true := by simpa using hone
          simp only [run_bind, run_pure, run_pySelf, gen_expect_open, gen_expect_not_ro, gen_has_writable, hcl, hal, hwr,
            hc, ha, hw, hlen, hone', Bool.false_eq_true, if_false, if_true, Bool.not_true]
          simp
        · have hone' : (s.h.files.length == 1) = false := by simpa using hone
          simp only [run_bind, run_pure, run_pySelf, gen_expect_open, gen_expect_not_ro, gen_has_writable, hcl, hal, hwr,
            hc, ha, hw, hlen, hone', Bool.false_eq_true, if_false, if_true, Bool.not_true]
          rcases nil_or_snoc s.h.files with hnil | ⟨init, ⟨f, ub⟩, hsn⟩
          · simp [hasWritable, hnil] at hw
          · have hl : lastFile s.h.files = some (f, ub) := by rw [hsn]; exact lastFile_append_single _ _
            have hrw : s.h.lastRW = true := by simpa [hasWritable, hsn] using hw
            have hfiles : (World.ofState s).self.files = init.map ro ++ [⟨f, true, true⟩] := by
              rw [ofState_files, hsn, mkHandles_snoc, hrw]
            have hni : f ∉ init.map Prod.fst := by
              apply nodup_snoc_notin (u := ub); rw [← hsn]; exact hp.1
            have hdel : pyDictDel (World.ofState s).self.ublocks f = .ok init := by
              show pyDictDel s.h.files f = .ok init
              rw [hsn]; exact pyDictDel_snoc _ _ _ hni
            rw [gen_delete_latest_container _ _ _ hfiles]
            simp only [hdel, hl]
            have hdl : dropLastF (World.ofState s).self.ublocks = init := by
              show dropLastF s.h.files = init
              rw [hsn]; exact dropLastF_snoc _ _
            have hdisk : (World.ofState s).disk = s.disk := rfl
            have hc2 : (Obj.ofHandle s.h).closed = false := hc
            have ha2 : (Obj.ofHandle s.h).allow = true := ha
            have hf2 : (Obj.ofHandle s.h).files = init.map ro ++ [⟨f, true, true⟩] := hfiles
            have hdl2 : dropLastF (Obj.ofHandle s.h).ublocks = init := hdl
            cases hg : getF s.disk f <;>
              simp [hdisk, hg, hf2, hdl2, hc2, ha2, World.ofState]

theorem gen_discard_patch_model (s : State) (hp : PyRep s.h) (hd : OnDisk s) :
    resOf s (IH5Record.discard_patch (World.ofState s)) = discardPatch s := by
  rw [gen_discard_patch s hp]; exact discardW_res s hp hd

end MetadorModel.Bridge.PatchSteps
