import MetadorModel.Bridge.MergeFnsGroup
import MetadorModel.Proofs.Single
/-!
# Bridge for C05 / C10, part 2: what the loops of `merge_files` and `init_stub_skeleton` write

Reference folds over the dictionary operations (`mergeFold`, `stubFold`) and the proofs that they
are the model's `Merge.mergeCont` / `Merge.stubCont`. `Bridge/MergeFns.lean` shows that the
generated functions compute these folds.
-/
namespace MetadorModel.Bridge.MergeFns
open MetadorModel.Tree MetadorModel.Overlay MetadorModel.Merge MetadorModel.MergePy MetadorModel.Single
variable {V : Type}

/-! ## the listing: sorted, duplicate free, closed under top-level ancestors -/

theorem listing_keys_sorted (r : Rec V) : Srt pathLt ((Overlay.listing r).map (·.1)) :=
  (candidates_sorted r).sublist (listing_keys_sublist r)

theorem listing_keys_nodup (r : Rec V) : ((Overlay.listing r).map (·.1)).Nodup :=
  (Listing.nodup_sort_dedup pathLt _).sublist (listing_keys_sublist r)

theorem listing_top (r : Rec V) : ∀ e ∈ Overlay.listing r, ∀ k s, e.1 = k :: s →
    ∃ e' ∈ Overlay.listing r, e'.1 = [k] := by
  intro e he k s hks
  cases s with
  | nil => exact ⟨e, he, hks⟩
  | cons a s' =>
    obtain ⟨hv, _⟩ := mem_listing r e he
    have hg : viewKind r [k] = some .group := by
      apply view_prefix_group r [k] (a :: s') (by simp)
      rw [show [k] ++ a :: s' = e.1 by rw [hks]; rfl, hv]; simp
    exact ⟨_, listing_mem_of_visible r [k] (by simp) .group hg, rfl⟩

/-- `obj["/"].keys()` -/
def topKeys (r : Rec V) : List Key := (Overlay.listing r).filterMap (fun e => childKey [] e.1)

/-- the entries below the top-level key `k` (the subtree `h5_copy_from_to` lists) -/
def block (r : Rec V) (k : Key) : Listing V := (Overlay.listing r).filter (fun e => isPre [k] e.1)

theorem listing_blocks (r : Rec V) : (topKeys r).flatMap (block r) = nonRoot (Overlay.listing r) :=
  flatMap_blocks (Overlay.listing r) (listing_keys_sorted r) (listing_keys_nodup r) (listing_top r)

theorem mem_topKeys (r : Rec V) (k : Key) (h : k ∈ topKeys r) : ∃ kd, viewKind r [k] = some kd := by
  simp only [topKeys, List.mem_filterMap, childKey_nil] at h
  obtain ⟨e, he, hk⟩ := h
  obtain ⟨hv, _⟩ := mem_listing r e he
  exact ⟨e.2.1, by rw [← hk, hv]⟩

/-- the root attributes the model copies are `obj["/"].attrs.items()` -/
theorem rootAttrs_listing (r : Rec V) : rootAttrsOf (Overlay.listing r) = attrsList r [] := by
  rw [Listing.rootAttrsOf_eq, Listing.aget_listing_root]
  by_cases hc : [] ∈ candidates r
  · simp [hc]
  · simp only [hc, if_false, Option.map_none, Option.getD_none]
    have hnone : ∀ c ∈ r, aget [] c = none := by
      intro c hcr
      cases hroot : aget [] c with
      | none => rfl
      | some n =>
        exfalso; apply hc
        rw [candidates, Listing.mem_sort_dedup]
        simp only [List.mem_flatMap, List.mem_map]
        exact ⟨c, hcr, ([], n), aget_mem _ _ _ hroot, rfl⟩
    have hk : attrKeys r [] = [] := by
      rw [List.eq_nil_iff_forall_not_mem]
      intro k hk
      rw [attrKeys, Listing.mem_sort_dedup] at hk
      simp only [List.mem_flatMap] at hk
      obtain ⟨c, hcr, hk⟩ := hk
      simp [hnone c hcr] at hk
    simp [attrsList, hk]

/-! ## replaying -/

theorem replay_append (s d : Path) (l1 l2 : Listing V) : ∀ (r : Rec V),
    W.replay s d r (l1 ++ l2) = W.replay s d r l1 >>= fun r' => W.replay s d r' l2 := by
  induction l1 with
  | nil => intro r; simp [W.replay, bind, Except.bind]
  | cons e more ih =>
    intro r
    obtain ⟨q, kd, as⟩ := e
    simp only [List.cons_append, W.replay, bind_assoc]
    congr 1; funext r1
    congr 1; funext r2
    exact ih r2

/-- copying the subtree at the top-level key `k` to the same key of the target writes the entries where they
were -/
theorem replay_shift (k : Key) (l : Listing V) (h : ∀ e ∈ l, isPre [k] e.1 = true) : ∀ (r : Rec V),
    W.replay [k] ([] ++ [k]) r l = W.replay [] [] r l := by
  induction l with
  | nil => intro r; simp [W.replay]
  | cons e more ih =>
    intro r
    obtain ⟨q, kd, as⟩ := e
    obtain ⟨s, hs⟩ := (isPre_single k q).1 (h (q, kd, as) (by simp))
    subst hs
    simp only [W.replay, List.nil_append, List.length_cons, List.length_nil, List.drop_succ_cons, List.drop_zero,
      List.singleton_append, Nat.zero_add]
    congr 1; funext r1
    congr 1; funext r2
    exact ih (fun e he => h e (by simp [he])) r2


/-! ## `merge_files`: root attributes, then one `h5_copy_from_to` per top-level key -/

section fold
variable {α β : Type}

theorem pyFor_append {m : Type → Type} [Monad m] [LawfulMonad m] (xs ys : List α) (f : α → β → m β) :
    ∀ b, pyFor (xs ++ ys) b f = pyFor xs b f >>= fun b' => pyFor ys b' f := by
  induction xs with
  | nil => intro b; simp [pyFor]
  | cons x xs ih => intro b; simp [pyFor, ih]

theorem pyFor_congr_mem {m : Type → Type} [Monad m] (xs : List α) (f g : α → β → m β)
    (h : ∀ x ∈ xs, ∀ b, f x b = g x b) : ∀ b, pyFor xs b f = pyFor xs b g := by
  induction xs with
  | nil => intro b; rfl
  | cons x xs ih =>
    intro b
    simp only [pyFor]
    rw [h x (by simp) b]
    congr 1; funext b'
    exact ih (fun y hy => h y (by simp [hy])) b'

/-- a loop whose body only computes (or raises) leaves the state alone -/
theorem pyFor_pure (xs : List α) (f : α → β → PyM V β) (g : α → β → Except PyErr β) (w : World V)
    (h : ∀ x ∈ xs, ∀ b, f x b w = (g x b, w)) : ∀ b, pyFor xs b f w = (pyFor xs b g, w) := by
  induction xs with
  | nil => intro b; rfl
  | cons x xs ih =>
    intro b
    simp only [pyFor, run_bind]
    rw [h x (by simp) b]
    cases hg : g x b with
    | error e => simp [bind, Except.bind]
    | ok b' =>
      simp only [bind, Except.bind]
      exact ih (fun y hy => h y (by simp [hy])) b'

/-- a loop over tree operations of one record object -/
theorem pyFor_liftTree (xs : List α) (g : α → Rec V → Except Tree.Err (Rec V)) :
    ∀ (o : Obj V), pyFor xs o (fun x o => liftTree o (g x o.conts)) = liftTree o (pyFor xs o.conts g) := by
  induction xs with
  | nil => intro o; simp [pyFor, liftTree, pure, Except.pure]
  | cons x xs ih =>
    intro o
    simp only [pyFor]
    cases hg : g x o.conts with
    | error e => simp [liftTree, bind, Except.bind]
    | ok c =>
      simp only [liftTree, bind, Except.bind]
      have := ih { o with conts := c }
      simpa [liftTree] using this
end fold

/-- `for name in source_node.keys(): h5_copy_from_to(source_node[name], target_node, name)` on the target tree -/
def keyStep (src : Rec V) (name : Key) (t : Rec V) : Except Tree.Err (Rec V) :=
  W.replay [name] ([] ++ [name]) t (block src name)

/-- the two loops of `merge_files` on the target tree -/
def mergeFold (src t : Rec V) : Except Tree.Err (Rec V) :=
  W.copyAttrs t [] (attrsList src []) >>= fun t1 => pyFor (topKeys src) t1 (keyStep src)

theorem keys_replay (src : Rec V) (ks : List Key) : ∀ (t : Rec V),
    pyFor ks t (keyStep src) = W.replay [] [] t (ks.flatMap (block src)) := by
  induction ks with
  | nil => intro t; simp [pyFor, W.replay, pure, Except.pure]
  | cons k ks ih =>
    intro t
    simp only [pyFor, List.flatMap_cons, replay_append, keyStep]
    rw [replay_shift k (block src k) (fun e he => by simpa [block] using (List.mem_filter.1 he).2)]
    congr 1; funext t'
    exact ih t'

/-- **the writes of `merge_files` are the model's `mergeCont`** -/
theorem materialise_unfold (l : Listing V) :
    materialise l = W.copyAttrs (Rec.init : Rec V) [] (rootAttrsOf l) >>= fun r1 => W.replay [] [] r1 (nonRoot l) := rfl

theorem mergeFold_eq (r : Rec V) : mergeFold r Rec.init = mergeCont r := by
  rw [mergeCont, materialise_unfold, rootAttrs_listing]
  simp only [mergeFold, keys_replay, listing_blocks]

/-! ## `init_stub_skeleton`: one node and its attribute placeholders per skeleton entry -/

/-- the root entry of a strictly increasing path-keyed list comes first -/
theorem root_first {β : Type} : ∀ (L : List (Path × β)), L.Pairwise (fun a b => pathLt a.1 b.1 = true) →
    L = (match aget [] L with | some x => [([], x)] | none => []) ++ L.filter (fun e => e.1 != [])
  | [], _ => rfl
  | e :: L', h => by
    obtain ⟨p, x⟩ := e
    rw [List.pairwise_cons] at h
    have hne : ∀ b ∈ L', b.1 ≠ [] := by
      intro b hb hnil
      have := h.1 b hb
      rw [hnil] at this
      cases p <;> simp [pathLt] at this
    have hfil : L'.filter (fun e => e.1 != []) = L' := by
      rw [List.filter_eq_self]
      intro b hb; simpa using hne b hb
    by_cases hp : p = []
    · subst hp
      simp [aget, hfil]
    · have hnone : aget [] L' = none := by
        cases hg : aget [] L' with
        | none => rfl
        | some y => exact absurd rfl (hne _ (aget_mem _ _ _ hg))
      simp [aget, hp, hnone, hfil]

theorem listing_strict (r : Rec V) : (Overlay.listing r).Pairwise (fun a b => pathLt a.1 b.1 = true) := by
  have h1 : (Overlay.listing r).Pairwise (fun a b => pathLt b.1 a.1 = false) := by
    have := listing_keys_sorted r
    unfold Srt at this
    rwa [List.pairwise_map] at this
  have h2 : (Overlay.listing r).Pairwise (fun a b => a.1 ≠ b.1) := by
    have := listing_keys_nodup r
    unfold List.Nodup at this
    rwa [List.pairwise_map] at this
  refine (h1.and h2).imp ?_
  intro a b ⟨hab, hne⟩
  rcases pathLt_total a.1 b.1 hne with h | h
  · exact h
  · rw [h] at hab; cases hab

/-- the listing of a record: its root entry (if a container has one), then everything else -/
theorem listing_root_first (r : Rec V) :
    Overlay.listing r = (if [] ∈ candidates r then [([], NKind.group, attrsList r [])] else []) ++ nonRoot (Overlay.listing r) := by
  have := root_first (Overlay.listing r) (listing_strict r)
  rw [Listing.aget_listing_root] at this
  by_cases hc : [] ∈ candidates r
  · simpa [hc, nonRoot] using this
  · simpa [hc, nonRoot] using this

/-- the entry of `stubListing` for a listing entry -/
def emptiedE (empty : V) (e : Path × NKind V × List (Key × V)) : Path × NKind V × List (Key × V) :=
  (e.1, (match e.2.1 with | .group => .group | .data _ => .data empty), e.2.2.map (fun kv => (kv.1, empty)))

theorem stubListing_map (empty : V) (l : Listing V) : stubListing empty l = l.map (emptiedE empty) := rfl

/-- what `init_stub_skeleton` does for one skeleton entry -/
def stubEntry (E : Env V) (e : Path × Bool × List Key) (o : Obj V) : Except PyErr (Obj V) :=
  (if e.2.1 == true then
      pyContains o e.1 >>= fun b => if !b then pyCreateGroup o e.1 else pure o
    else if e.2.1 == false then pySetItem o e.1 E.empty
    else pure o) >>= fun o1 => pyFor e.2.2 o1 (fun a o => pyItemAttrSet o e.1 a E.empty)

/-- the loop of `init_stub_skeleton` -/
def stubFold (E : Env V) (sk : Skel) (o : Obj V) : Except PyErr (Obj V) := pyFor sk o (stubEntry E)

theorem look_found_single (c : Cont V) (g : Good c) (p : Path) (n : RNode V) (h : aget p c = some n) :
    ∃ i m, look [c] p = .found i m := by
  cases p with
  | nil => exact ⟨0, vnode, by simp [look, lookFrom]⟩
  | cons a t => exact ⟨0, n, look_single_found c g.pc g.nodel (a :: t) n (by simp) h⟩

/-- attribute placeholders of one node -/
theorem stubAttrs_single (empty : V) (p : Path) (names : List Key) :
    ∀ (o : Obj V) (c : Cont V) (n : RNode V), o.conts = [c] → Good c → aget p c = some n →
      pyFor names o (fun a o => pyItemAttrSet o p a empty) =
        .ok { o with conts := [aput p { n with attrs := putAll (names.map (fun a => (a, empty))) n.attrs } c] } := by
  induction names with
  | nil =>
    intro o c n ho _ hp
    simp only [pyFor, List.map_nil, putAll, List.foldl_nil, pure, Except.pure]
    rw [aput_self p _ c (by simpa using hp), ← ho]
  | cons a rest ih =>
    intro o c n ho g hp
    obtain ⟨i, m, hl⟩ := look_found_single c g p n hp
    have hstep : pyItemAttrSet o p a empty =
        .ok { o with conts := [aput p { n with attrs := aput a (some empty) n.attrs } c] } := by
      simp only [pyItemAttrSet, ho, hl, setAttrRaw_single c p n a (some empty) hp, liftTree]
    have g' := good_aput_attrs c g p n (aput a (some empty) n.attrs) hp
    rw [pyFor, hstep]
    simp only [bind, Except.bind]
    rw [ih { o with conts := [aput p { n with attrs := aput a (some empty) n.attrs } c] } _
      { n with attrs := aput a (some empty) n.attrs } rfl g' (aget_aput_same _ _ _)]
    simp [putAll, aput_aput_same]

theorem stubEntry_single (E : Env V) (e : Path × NKind V × List (Key × V)) (o : Obj V) (c : Cont V)
    (ho : o.conts = [c]) (g : Good c) (h : StepOk c (emptiedE E.empty e)) :
    stubEntry E (skelEntry e) o = .ok { o with conts := [apply1 c (emptiedE E.empty e)] } ∧
      Good (apply1 c (emptiedE E.empty e)) := by
  obtain ⟨par, k, np, hq, hnp, hg, hnone⟩ := h
  obtain ⟨q, kd, as⟩ := e
  simp only [emptiedE] at hq hnone
  subst hq
  have hgood : ∀ n : RNode V, n.kind.isDel = false → Good (aput (par ++ [k]) n c) :=
    fun n hn => good_aput_new c g par k np n hnp hg hnone hn
  have hpart := look_single_part c g.pc par k (Or.inr ⟨np, hnp, hg⟩) hnone
  have hmap : (as.map (fun kv => kv.1)).map (fun a => (a, E.empty)) = as.map (fun kv => (kv.1, E.empty)) := by
    simp [List.map_map, Function.comp_def]
  cases kd with
  | group =>
    have g1 := hgood vnode (by simp [vnode, RKind.isDel])
    have hat := stubAttrs_single E.empty (par ++ [k]) (as.map (·.1))
      { o with conts := [aput (par ++ [k]) vnode c] } _ vnode rfl g1 (aget_aput_same _ _ _)
    refine ⟨?_, ?_⟩
    · simp only [stubEntry, skelEntry, beq_self_eq_true, if_true, pyContains, ho, hpart, pyCreateGroup,
        createGroup_single c g par k np hnp hg hnone, liftTree, bind, Except.bind, Bool.not_false]
      rw [hat]
      simp [apply1, emptiedE, rawKind, aput_aput_same, vnode, hmap]
    · simpa [apply1, emptiedE, rawKind] using hgood ⟨.vgroup, putAll (as.map (fun kv => (kv.1, E.empty))) []⟩ (by simp [RKind.isDel])
  | data v =>
    have g1 := hgood ⟨.data E.empty, []⟩ (by simp [RKind.isDel])
    have hat := stubAttrs_single E.empty (par ++ [k]) (as.map (·.1))
      { o with conts := [aput (par ++ [k]) ⟨.data E.empty, []⟩ c] } _ ⟨.data E.empty, []⟩ rfl g1 (aget_aput_same _ _ _)
    refine ⟨?_, ?_⟩
    · simp only [stubEntry, skelEntry, pySetItem, ho,
        createDataset_single c g par k np E.empty hnp hg hnone, liftTree, bind, Except.bind]
      simp only [show ((false : Bool) == true) = false from rfl, show ((false : Bool) == false) = true from rfl,
        if_true, Bool.false_eq_true, if_false]
      rw [hat]
      simp [apply1, emptiedE, rawKind, aput_aput_same, hmap]
    · simpa [apply1, emptiedE, rawKind] using hgood ⟨.data E.empty, putAll (as.map (fun kv => (kv.1, E.empty))) []⟩ (by simp [RKind.isDel])

/-- the non-root part of the skeleton -/
theorem stubFold_chain (E : Env V) (l : Listing V) : ∀ (o : Obj V) (c : Cont V), o.conts = [c] → Good c →
    Chain c (stubListing E.empty l) →
    stubFold E (skel l) o = .ok { o with conts := [(stubListing E.empty l).foldl apply1 c] } := by
  induction l with
  | nil =>
    intro o c ho _ _
    simp [stubFold, skel, pyFor, stubListing, pure, Except.pure, ← ho]
  | cons e more ih =>
    intro o c ho g hch
    rw [stubListing_map, List.map_cons] at hch
    obtain ⟨hs, hmore⟩ := hch
    obtain ⟨h1, g1⟩ := stubEntry_single E e o c ho g hs
    have := ih { o with conts := [apply1 c (emptiedE E.empty e)] } _ rfl g1 (by rw [stubListing_map]; exact hmore)
    simp only [stubFold, skel, List.map_cons, pyFor, bind, Except.bind] at this ⊢
    rw [h1]
    simpa [stubListing_map] using this

theorem rootAttrsOf_stub (empty : V) (l : Listing V) :
    rootAttrsOf (stubListing empty l) = (rootAttrsOf l).map (fun kv => (kv.1, empty)) := by
  rw [Listing.rootAttrsOf_eq, Listing.rootAttrsOf_eq, stubListing_eq, aget_map_val]
  cases aget [] l <;> simp [emptied]

theorem rootCont_nil : rootCont ([] : List (Key × V)) = Cont.init := by
  simp [rootCont, putAll, Cont.init, aput, vnode]

/-- **the writes of `init_stub_skeleton` are the model's `stubCont`** (for a record whose view is a tree listed
parents-first — the hypothesis of the C05 / C10 theorems, reported as `wf T` by the driver on every run) -/
theorem stubFold_eq (E : Env V) (r : Rec V) (h : Replayable (Overlay.listing r)) (o : Obj V) (ho : o.conts = Rec.init) :
    stubFold E (skel (Overlay.listing r)) o = liftTree o (stubCont E.empty r) := by
  have hrep := replayable_stub E.empty (Overlay.listing r) h
  obtain ⟨heq, _⟩ := materialise_eq _ hrep
  rw [stubCont, heq]
  unfold Replayable at hrep
  rw [nonRoot_stub] at hrep ⊢
  rw [rootAttrsOf_stub, rootAttrs_listing] at hrep ⊢
  -- the loop: root entry (if any), then the rest
  have hsplit : stubFold E (skel (Overlay.listing r)) o =
      stubFold E (skel (if [] ∈ candidates r then [([], NKind.group, attrsList r [])] else [])) o >>=
        fun o1 => stubFold E (skel (nonRoot (Overlay.listing r))) o1 := by
    conv_lhs => rw [listing_root_first r]
    simp only [stubFold, skel, List.map_append]
    exact pyFor_append _ _ _ _
  rw [hsplit]
  have hroot : stubFold E (skel (if [] ∈ candidates r then [([], NKind.group, attrsList r [])] else [])) o =
      .ok { o with conts := [rootCont ((attrsList r []).map (fun kv => (kv.1, E.empty)))] } := by
    by_cases hc : [] ∈ candidates r
    · have hat := stubAttrs_single E.empty [] ((attrsList r []).map (·.1)) o Cont.init vnode (by rw [ho]; rfl) good_init
        (by simp [Cont.init, aget])
      have hmap : ((attrsList r []).map (fun kv => kv.1)).map (fun a => (a, E.empty)) =
          (attrsList r []).map (fun kv => (kv.1, E.empty)) := by
        simp [List.map_map, Function.comp_def]
      simp only [hc, if_true, stubFold, skel, List.map_cons, List.map_nil, pyFor, skelEntry, stubEntry,
        beq_self_eq_true, pyContains, ho, bind, Except.bind]
      simp only [show look (Rec.init : Rec V) [] = .found 0 vnode from rfl, Bool.not_true, Bool.false_eq_true, if_false,
        pure, Except.pure]
      rw [hat]
      simp [rootCont, hmap, vnode]
    · have hnil : attrsList r [] = [] := by
        rw [← rootAttrs_listing, Listing.rootAttrsOf_eq, Listing.aget_listing_root]; simp [hc]
      simp only [hc, if_false, stubFold, skel, List.map_nil, pyFor, pure, Except.pure, hnil, rootCont_nil]
      congr 1
      cases o; simp_all [Rec.init]
  rw [hroot]
  simp only [bind, Except.bind]
  rw [stubFold_chain E (nonRoot (Overlay.listing r)) _ _ rfl (good_rootCont _) hrep]
  simp [liftTree, stubListing_eq]

end MetadorModel.Bridge.MergeFns
