import MetadorModel.Gen.PartialMerge
import MetadorModel.Proofs.Partial
/-!
# Bridge: the Lean text generated from `schema/partial.py` equals the model (C14)

`Gen/PartialMerge.lean` is regenerated from the source of `/repo` on every `./check C14` run by
`harness/translate_c14.py` (`PartialModel._update_field`, `PartialModel.merge_with`, translated
statement by statement over the value dictionary `Py/PartialPy.lean`). The theorems below are
re-checked by `lake build` on every run:

* `gen_update_field`: with enough interpreter stack (`fuel`), the translated `_update_field`
  returns / raises exactly what the model's `updO` (the `None` shortcut + `merge`) says, for **all**
  values, paths, `self`, `allow_overwrite`;
* `gen_merge_with`: the translated `merge_with` on two model instances is the model's `mergeWith`
  (field loop `mergeFields`, result of the left class);
* `gen_no_recursion_error`: under the same fuel bound the translated functions do not run out of stack.

The C14 theorems (`Props/C14.lean`) are about `merge` / `mergeFields` / `mergeWith` / `updO`; through
these equalities they are statements about what the source says now.
-/
set_option linter.unusedSimpArgs false
set_option linter.unusedVariables false
set_option linter.unusedTactic false
namespace MetadorModel.Bridge.PartialMerge
open MetadorModel MetadorModel.Partial MetadorModel.PartialPy

/-! ## how much stack a merge needs: one frame per `_update_field`, one per nested `merge_with` -/
mutual
def need : PVal → Nat
  | .atom _ => 1
  | .list _ => 1
  | .set _ => 1
  | .obj _ fs => needF fs + 2
def needF : Fields → Nat
  | [] => 0
  | (_, v) :: r => max (need v) (needF r)
end

def needO : Option PVal → Nat
  | none => 1
  | some v => need v

theorem need_mem {kv : String × PVal} {fs : Fields} (h : kv ∈ fs) : need kv.2 ≤ needF fs := by
  induction fs with
  | nil => simp at h
  | cons a r ih =>
    obtain ⟨k0, v⟩ := a
    simp only [needF]
    rcases List.mem_cons.mp h with rfl | h'
    · exact Nat.le_max_left _ _
    · exact Nat.le_trans (ih h') (Nat.le_max_right _ _)

/-- the outcome of a translated computation in the model's terms: the value, or the error kind;
`none` = the interpreter ran out of stack (`RecursionError`), which the model does not have -/
def out {α β : Type} (f : α → β) (x : M α) : Option (Except Err β) :=
  match x with
  | .ok a => some (.ok (f a))
  | .error e => e.toErr.map .error

@[simp] theorem out_ok {α β : Type} (f : α → β) (a : α) : out f (Except.ok a : M α) = some (.ok (f a)) := rfl
@[simp] theorem out_pure {α β : Type} (f : α → β) (a : α) : out f (pure a : M α) = some (.ok (f a)) := rfl
@[simp] theorem out_error {α β : Type} (f : α → β) (e : PyErr) :
    out f (Except.error e : M α) = e.toErr.map .error := rfl
@[simp] theorem out_throw {α β : Type} (f : α → β) (e : PyErr) :
    out f (throw e : M α) = e.toErr.map .error := rfl

/-! ## the model never reports `invalid` from a merge (the `except ValidationError` fall-through of
`_update_field` is dead code under the model's assumption "cast is the identity") -/

theorem no_invalid (k : Nat) :
    (∀ ow o n, need n ≤ k → merge ow o n ≠ .error .invalid) ∧
    (∀ ow acc f2, needF f2 + 1 ≤ k → mergeFields ow acc f2 ≠ .error .invalid) := by
  induction k with
  | zero =>
    refine ⟨fun ow o n h => ?_, fun ow acc f2 h => by omega⟩
    cases n <;> simp [need] at h
  | succ k ih =>
    refine ⟨fun ow o n h => ?_, fun ow acc f2 h => ?_⟩
    · cases n with
      | atom b => cases o <;> cases ow <;> simp [merge, asOpaque]
      | list ys => cases o <;> cases ow <;> simp [merge, asOpaque]
      | set ys => cases o <;> cases ow <;> simp [merge, asOpaque]
      | obj c2 f2 =>
        cases o with
        | atom b => cases ow <;> simp [merge, asOpaque]
        | list ys => cases ow <;> simp [merge, asOpaque]
        | set ys => cases ow <;> simp [merge, asOpaque]
        | obj c1 f1 =>
          have h2 := ih.2 ow f1 f2 (by simp only [need] at h; omega)
          rw [merge]
          split_ifs
          · cases hm : mergeFields ow f1 f2 with
            | ok r => simp
            | error e => rw [hm] at h2; simpa using h2
          · cases ow <;> simp [asOpaque]
    · induction f2 generalizing acc with
      | nil => simp [mergeFields]
      | cons a r ihr =>
        obtain ⟨k0, v⟩ := a
        have hv : need v ≤ k := by simp only [needF] at h; omega
        have hr : needF r + 1 ≤ k + 1 := by simp only [needF] at h; omega
        rw [mergeFields]
        cases AL.get acc k0 with
        | none => exact ihr _ hr
        | some o =>
          have h1 := ih.1 ow o v hv
          cases hm : merge ow o v with
          | ok m => simp only [hm]; exact ihr _ hr
          | error e => rw [hm] at h1; simp only [hm]; simpa using h1

theorem merge_ne_invalid (ow : Bool) (o n : PVal) : merge ow o n ≠ .error .invalid :=
  (no_invalid (need n)).1 ow o n (Nat.le_refl _)

theorem mergeFields_ne_invalid (ow : Bool) (acc f2 : Fields) : mergeFields ow acc f2 ≠ .error .invalid :=
  (no_invalid (needF f2 + 1)).2 ow acc f2 (Nat.le_refl _)

/-- the result of `merge_with` on an instance of class `c1`, from the result of the field loop -/
def objOf (c1 : Cls) : Except Err Fields → Except Err V
  | .ok r => .ok (some (.obj c1 r))
  | .error e => .error e

@[simp] theorem objOf_ok (c1 : Cls) (r : Fields) : objOf c1 (.ok r) = .ok (some (.obj c1 r)) := rfl
@[simp] theorem objOf_error (c1 : Cls) (e : Err) : objOf c1 (.error e) = .error e := rfl

/-- a translated call that simulates a model computation which never reports `invalid`: it
returns the model's value, or raises an exception other than `ValidationError` / `RecursionError` -/
theorem sim_cases {x : M V} {y : Except Err Fields} {c1 : Cls} (hy : y ≠ .error .invalid)
    (h : out id x = some (objOf c1 y)) :
    (∃ r, x = .ok (some (.obj c1 r)) ∧ y = .ok r) ∨
    (∃ e e', x = .error e ∧ y = .error e' ∧ e.toErr = some e' ∧ e ≠ .validationError) := by
  cases x with
  | ok v =>
    cases y with
    | ok r => left; simp at h; exact ⟨r, by rw [h], rfl⟩
    | error e => simp at h
  | error e =>
    cases y with
    | ok r => cases e <;> simp [PyErr.toErr] at h
    | error e' =>
      right
      refine ⟨e, e', rfl, rfl, ?_, ?_⟩
      · cases e <;> simp [PyErr.toErr] at h ⊢ <;> exact h
      · intro he; subst he; simp [PyErr.toErr] at h; subst h; exact hy rfl

/-! ## the field loop -/

/-- the loop of `merge_with`, abstractly: a loop body that does, per field, what `updO` and `AL.ins`
do, computes `mergeFields` -/
theorem fold_fields (ow : Bool) (c1 : Cls) (step : V → String × PVal → M V) (f2 : Fields)
    (hstep : ∀ acc kv, kv ∈ f2 →
      out id (step (some (.obj c1 acc)) kv) =
        some (match updO ow (AL.get acc kv.1) (some kv.2) with
        | .ok (some m) => .ok (some (.obj c1 (AL.ins kv.1 m acc)))
        | .ok none => .error .shape
        | .error e => .error e)) :
    ∀ acc, out id (List.foldlM step (some (.obj c1 acc)) f2) = some (objOf c1 (mergeFields ow acc f2)) := by
  induction f2 with
  | nil => intro acc; simp [mergeFields_nil]
  | cons a r ih =>
    obtain ⟨k0, v⟩ := a
    intro acc
    have hs := hstep acc (k0, v) (by simp)
    have ih' := ih (fun acc kv hkv => hstep acc kv (by simp [hkv]))
    rw [mergeFields_cons, List.foldlM_cons]
    cases hst : step (some (.obj c1 acc)) (k0, v) with
    | error e' =>
      rw [hst] at hs
      cases hu : updO ow (AL.get acc k0) (some v) with
      | error e => simp only [hu] at hs ⊢; simpa [bind, Except.bind] using hs
      | ok z =>
        cases z with
        | none => simp only [hu] at hs ⊢; simpa [bind, Except.bind] using hs
        | some m => simp only [hu] at hs; cases e' <;> simp [PyErr.toErr] at hs
    | ok b =>
      rw [hst] at hs
      cases hu : updO ow (AL.get acc k0) (some v) with
      | error e => simp [hu] at hs
      | ok z =>
        cases z with
        | none => simp [hu] at hs
        | some m =>
          simp only [hu, out_ok, id, Option.some.injEq, Except.ok.injEq] at hs
          subst hs
          simpa [bind, Except.bind, hu] using ih' (AL.ins k0 m acc)

/-! ## the two translated functions -/

/-- evaluate a generated term on constructor-headed arguments: unfold the generated definition, the
dictionary and the `Except` monad, and let `simp` decide every `if` / `match` -/
syntax "py_unfold" ("[" Lean.Parser.Tactic.simpLemma,* "]")? : tactic
macro_rules
  | `(tactic| py_unfold) => `(tactic| py_unfold [])
  | `(tactic| py_unfold [$ls,*]) => `(tactic|
      simp [Gen.PartialMerge._update_field, isNone, isList, isSet, isModel, truthy, truthyL, truthyO, optOr,
        Legacy.truthy, pyAdd, pyUnion, toPartialVal, toPartial, pyType, pyIssubclass, guardModel,
        updO, merge, related, asOpaque,
        bind, Except.bind, pure, Except.pure, throw, throwThe, MonadExceptOf.throw, $ls,*])

/-- … and map the exceptions to the model's error kinds -/
syntax "py_eval" ("[" Lean.Parser.Tactic.simpLemma,* "]")? : tactic
macro_rules
  | `(tactic| py_eval) => `(tactic| py_unfold [PyErr.toErr])
  | `(tactic| py_eval [$ls,*]) => `(tactic| py_unfold [PyErr.toErr, $ls,*])

theorem gen_both (k : Nat) :
    (∀ self o n path ow, needO n ≤ k →
      out id (Gen.PartialMerge._update_field k self o n path ow) = some (updO ow o n)) ∧
    (∀ c1 f1 c2 f2 ii ow path, needF f2 + 1 ≤ k →
      out id (Gen.PartialMerge.merge_with k (some (.obj c1 f1)) (some (.obj c2 f2)) ii ow path) =
        some (objOf c1 (mergeFields ow f1 f2))) := by
  induction k with
  | zero =>
    refine ⟨fun self o n path ow h => ?_, fun c1 f1 c2 f2 ii ow path h => by omega⟩
    rcases n with _ | n
    · simp [needO] at h
    · cases n <;> simp [needO, need] at h
  | succ k ih =>
    refine ⟨fun self o n path ow h => ?_, fun c1 f1 c2 f2 ii ow path h => ?_⟩
    · -- `_update_field`: split on the constructors of both values
      rcases o with _ | o <;> rcases n with _ | n
      · py_eval
      · py_eval
      · py_eval
      · cases o <;> cases n
        case obj.obj c1 f1 c2 f2 =>
          -- two model instances: the nested `merge_with` is, by induction, the model's field loop
          have h2 := fun ii p => ih.2 c1 f1 c2 f2 ii ow p (by simp only [needO, need] at h; omega)
          obtain ⟨X, hX⟩ : ∃ X : Bool → Option (List String) → M V, ∀ ii p,
              Gen.PartialMerge.merge_with k (some (.obj c1 f1)) (some (.obj c2 f2)) ii ow p = X ii p :=
            ⟨_, fun _ _ => rfl⟩
          simp only [hX] at h2
          have hni := mergeFields_ne_invalid ow f1 f2
          by_cases hr : (sub c2 c1 || sub c1 c2) = true
          · cases hf : mergeFields ow f1 f2 with
            | ok r =>
              have hXr : ∀ ii p, X ii p = .ok (some (.obj c1 r)) := fun ii p => by
                rcases sim_cases hni (h2 ii p) with ⟨r', h3, h4⟩ | ⟨e, e', h3, h4, _, _⟩
                · rw [hf] at h4; cases h4; exact h3
                · rw [hf] at h4; cases h4
              py_eval [hX, hXr, hf, hr]
            | error e' =>
              -- every nested call raises the model's error (never `ValidationError`), whatever its arguments
              obtain ⟨E, hE1, hE2, hE3⟩ : ∃ E : Bool → Option (List String) → PyErr,
                  (∀ ii p, X ii p = .error (E ii p)) ∧ (∀ ii p, (E ii p).toErr = some e') ∧
                  (∀ ii p, E ii p ≠ .validationError) := by
                refine ⟨fun ii p => match X ii p with | .error e => e | .ok _ => .valueError, ?_, ?_, ?_⟩ <;>
                · intro ii p
                  rcases sim_cases hni (h2 ii p) with ⟨r', h3, h4⟩ | ⟨e, e'', h3, h4, h5, h6⟩
                  · rw [hf] at h4; cases h4
                  · rw [hf] at h4; cases h4; simp [h3, h5, h6]
              py_unfold [hX, hE1, hf, hr]
              repeat' split
              all_goals first | (simp_all ; done) | (rename_i heq; simp_all [← heq] ; done)
          · cases ow <;> py_eval [hr]
        all_goals first
          | (cases ow <;> py_eval ; done)
          | (rename_i a; cases a <;> cases ow <;> py_eval ; done)
    · simp only [Gen.PartialMerge.merge_with, pyCast, pyCopy, fieldVals, pure_bind, bind_pure]
      apply fold_fields ow c1 _ f2
      intro acc kv hkv
      have hn : needO (some kv.2) ≤ k := by
        have := need_mem hkv
        simp only [needO]; omega
      simp only [dictGet, pure_bind, bind_pure]
      generalize hx : Gen.PartialMerge._update_field k _ (AL.get acc kv.1) (some kv.2) _ ow = g
      have h1 : out id g = some (updO ow (AL.get acc kv.1) (some kv.2)) := by
        rw [← hx]; exact ih.1 _ _ _ _ _ hn
      cases g with
      | error e =>
        cases hu : updO ow (AL.get acc kv.1) (some kv.2) with
        | error e' => rw [hu] at h1; simpa [bind, Except.bind] using h1
        | ok z => rw [hu] at h1; cases e <;> simp [PyErr.toErr] at h1
      | ok z =>
        simp only [out_ok, id, Option.some.injEq] at h1
        obtain ⟨m, rfl⟩ := updO_some_right_ok h1.symm
        simp [← h1, dictSet, bind, Except.bind]

/-! ## the bridge theorems -/

/-- `PartialModel._update_field` as written in the source = `updO` (the `None` shortcut, then `merge`:
list concatenation, set union, recursive merge of related model classes, conflict / overwrite) of the
model, for all values, with the error kinds `ValueError ↦ conflict`, `TypeError ↦ shape`. -/
theorem gen_update_field (fuel : Nat) (self o n : Option PVal) (path : Option (List String)) (ow : Bool)
    (h : needO n ≤ fuel) :
    out id (Gen.PartialMerge._update_field fuel self o n path ow) = some (updO ow o n) :=
  (gen_both fuel).1 self o n path ow h

/-- … in particular on two provided values it is the model's `merge`. -/
theorem gen_update_field_merge (fuel : Nat) (self : Option PVal) (o n : PVal) (path : Option (List String))
    (ow : Bool) (h : need n ≤ fuel) :
    out id (Gen.PartialMerge._update_field fuel self (some o) (some n) path ow) =
      some (match merge ow o n with
        | .ok m => .ok (some m)
        | .error e => .error e) := by
  rw [gen_update_field fuel self (some o) (some n) path ow h]
  rfl

/-- `PartialModel.merge_with` as written in the source (cast of the right operand, copy of the left one,
the field loop) on two model instances = `mergeWith` of the model: the field loop is `mergeFields`, the
result has the class of the left operand; `ignore_invalid` and `_path` do not matter. -/
theorem gen_merge_with (fuel : Nat) (c1 : Cls) (f1 : Fields) (c2 : Cls) (f2 : Fields) (ii ow : Bool)
    (path : Option (List String)) (h : needF f2 + 1 ≤ fuel) :
    out id (Gen.PartialMerge.merge_with fuel (some (.obj c1 f1)) (some (.obj c2 f2)) ii ow path) =
      some (match mergeWith ow (.obj c1 f1) (.obj c2 f2) with
        | .ok r => .ok (some r)
        | .error e => .error e) := by
  rw [(gen_both fuel).2 c1 f1 c2 f2 ii ow path h, mergeWith]
  cases mergeFields ow f1 f2 <;> rfl

/-- with that much stack the translated functions do not raise `RecursionError` -/
theorem gen_no_recursion_error (fuel : Nat) (self o n : Option PVal) (path : Option (List String)) (ow : Bool)
    (h : needO n ≤ fuel) :
    Gen.PartialMerge._update_field fuel self o n path ow ≠ .error .recursionError := by
  intro hx
  have := gen_update_field fuel self o n path ow h
  rw [hx] at this
  simp [PyErr.toErr] at this

/-! ## the generated text computes (non-vacuity of the statements above) -/

/-- a provided `0` survives the merge with an absent value (F5) -/
example : Gen.PartialMerge._update_field 1 none none (some (.atom (.int 0))) none false
    = .ok (some (.atom (.int 0))) := by rfl

/-- a conflict without overwrite permission is a `ValueError`, with it the later value wins -/
example : Gen.PartialMerge._update_field 1 none (some (.atom (.int 0))) (some (.atom (.int 1))) none false
    = .error .valueError := by rfl
example : Gen.PartialMerge._update_field 1 none (some (.atom (.int 0))) (some (.atom (.int 1))) none true
    = .ok (some (.atom (.int 1))) := by rfl

/-- child instance on the left, parent instance on the right: recursive merge, result of the left class,
lists concatenated; needs three frames -/
example : Gen.PartialMerge._update_field 3 none
    (some (.obj ["Par", "Chi"] [("xs", .list [.atom (.int 1)])]))
    (some (.obj ["Par"] [("x", .atom (.int 0)), ("xs", .list [.atom (.int 2)])])) none false
    = .ok (some (.obj ["Par", "Chi"] [("x", .atom (.int 0)), ("xs", .list [.atom (.int 1), .atom (.int 2)])])) := by
  rfl
example : Gen.PartialMerge._update_field 2 none
    (some (.obj ["Par", "Chi"] [("xs", .list [.atom (.int 1)])]))
    (some (.obj ["Par"] [("xs", .list [.atom (.int 2)])])) none false
    = .error .recursionError := by
  rfl

end MetadorModel.Bridge.PartialMerge
