import MetadorModel.Bridge.PatchSteps
/-!
# Bridge for C11: `IH5UserBlock.create`, `_new_container`, `create_patch` as regenerated from the source

`gen_new_container`: create with mode `x` and 1024 reserved bytes, close, write the user block, reopen `r+` — in
this order and nothing else. `gen_create_patch`: the guards, the file name of the next patch, a fresh user
block **without checksum** linked to the newest one, `_new_container`, then the object is updated.
-/
set_option linter.unusedSimpArgs false
set_option linter.unusedVariables false
namespace MetadorModel.Bridge.PatchSteps
open MetadorModel.FindFiles MetadorModel.Record MetadorModel.RecordPy MetadorModel.PatchPy
open MetadorModel.Gen.PatchSteps

/-! ## `IH5UserBlock.create` -/

/-- a patch block: index and `prev_patch` from the predecessor, one fresh uuid, **no checksum** -/
theorem gen_ub_create_some (p : UB) (w : World) :
    IH5UserBlock.create (some p) w = (.ok (newPatchUB p w.next), { w with next := w.next + 1 }) := by
  unfold IH5UserBlock.create
  simp [pyUuid1, newPatchUB]

theorem gen_ub_create_none (w : World) :
    IH5UserBlock.create none w = (.ok (newBaseUB w.next), { w with next := w.next + 2 }) := by
  unfold IH5UserBlock.create
  simp [pyUuid1, newBaseUB]

/-! ## `_new_container`: steps 1–3 -/

/-- create with mode `x` and a reserved user block of 1024 bytes, close, write the user block, reopen `r+` —
in this order, and nothing else -/
theorem gen_new_container (path : Name) (ub : UB) (w : World) :
    IH5Record._new_container path ub w =
      if w.self.files.any (fun h => h.live && h.name == path) then (.error .osError, w)
      else if (getF w.disk path).isSome then (.error .fileExists, w)
      else (.ok ⟨path, true, true⟩,
            { w with disk := setF w.disk path (.cont ub []), trace := w.trace ++ createTrace path ub }) := by
  unfold IH5Record._new_container
  by_cases h1 : w.self.files.any (fun h => h.live && h.name == path) = true
  · simp [pyH5Create, h1]
  · by_cases h2 : (getF w.disk path).isSome = true
    · simp [pyH5Create, h1, h2]
    · simp [pyH5Create, h1, h2, pyH5Close, pyUBSave, pyH5Open, getF_setF_eq, setF_setF, gen_constants, createTrace]

/-! ## `create_patch` -/

theorem mkHandles_head (f0 : Name) (u0 : UB) (rest : List (Name × UB)) (rw : Bool) :
    ∃ h t, mkHandles ((f0, u0) :: rest) rw = h :: t ∧ h.name = f0 := by
  cases rest with
  | nil => exact ⟨_, _, rfl, rfl⟩
  | cons y r => exact ⟨_, _, rfl, rfl⟩

theorem next_patch_filepath_ofState (s : State) (hp : PyRep s.h) (f0 : Name) (u0 : UB) (rest : List (Name × UB))
    (fl : Name) (ul : UB) (hfs : s.h.files = (f0, u0) :: rest) (hl : lastFile s.h.files = some (fl, ul)) :
    pyNextPatchFilepath (World.ofState s) = (.ok (patchFile (inferName f0) (ul.idx + 1)), World.ofState s) := by
  obtain ⟨h, t, hh, hname⟩ := mkHandles_head f0 u0 rest s.h.lastRW
  rcases nil_or_snoc s.h.files with hnil | ⟨init, ⟨fl', ul'⟩, hsn⟩
  · rw [hnil] at hfs; cases hfs
  · have hl' := lastFile_append_single init (fl', ul')
    rw [← hsn, hl] at hl'
    cases hl'
    have hget : pyDictGet s.h.files fl = .ok ul := pyDictGet_mem _ _ _ hp.1 (lastFile_mem _ _ hl)
    have h0 : pyIdx (World.ofState s).self.files (0 : Int) = .ok h := by
      rw [ofState_files, hfs, hh, pyIdx_zero_cons]
    have h1 : pyIdx (World.ofState s).self.files (-1 : Int) = .ok ⟨fl, s.h.lastRW, true⟩ := by
      rw [ofState_files, hsn, mkHandles_snoc, pyIdx_last_snoc]
    have h2 : (World.ofState s).self.ublocks = s.h.files := rfl
    simp only [pyNextPatchFilepath, h0, h1, h2, hget, hname]

/-- **`create_patch`** as regenerated from the source is the step sequence `createPatchW` -/
theorem gen_create_patch (s : State) (hp : PyRep s.h) :
    IH5Record.create_patch (World.ofState s) = createPatchW s := by
  have hcl : (World.ofState s).self.closed = s.h.closed := rfl
  have hal : (World.ofState s).self.allow = s.h.allow := rfl
  have hwr : lastIsRW (World.ofState s).self.files = hasWritable s.h := (hasWritable_eq s.h).symm
  unfold IH5Record.create_patch createPatchW
  cases hc : s.h.closed
  case true => simp [gen_expect_open, hcl, hc]
  case false =>
    cases ha : s.h.allow
    case false => simp [gen_expect_open, gen_expect_not_ro, hcl, hal, hc, ha]
    case true =>
      cases hw : hasWritable s.h
      case true => simp [gen_expect_open, gen_expect_not_ro, gen_has_writable, hcl, hal, hwr, hc, ha, hw]
      case false =>
        simp only [run_bind, gen_expect_open, gen_expect_not_ro, gen_has_writable, hcl, hal, hwr, hc, ha, hw,
          Bool.false_eq_true, if_false, if_true, Bool.not_true]
        rcases nil_or_snoc s.h.files with hnil | ⟨init, ⟨fl, ul⟩, hsn⟩
        · -- no file at all: whichever of `_next_patch_filepath()` / `_ublock(-1)` comes first raises IndexError
          have h0 : pyIdx (World.ofState s).self.files (0 : Int) = .error .indexError := by
            rw [ofState_files, hnil]; exact pyIdx_zero_nil
          have hnp : pyNextPatchFilepath (World.ofState s) = (.error .indexError, World.ofState s) := by
            simp [pyNextPatchFilepath, h0]
          have hub : IH5Record._ublock (.int (-1 : Int)) (World.ofState s) = (.error .indexError, World.ofState s) :=
            gen_ublock_last_nil _ (by rw [ofState_files, hnil]; rfl)
          simp [hnp, hub, hnil, lastFile]
        · have hl : lastFile s.h.files = some (fl, ul) := by rw [hsn]; exact lastFile_append_single _ _
          cases hfs : s.h.files with
          | nil => rw [hfs] at hsn; simp at hsn
          | cons a rest =>
            obtain ⟨f0, u0⟩ := a
            have hnp := next_patch_filepath_ofState s hp f0 u0 rest fl ul hfs hl
            have hfiles : (World.ofState s).self.files = init.map ro ++ [⟨fl, s.h.lastRW, true⟩] := by
              rw [ofState_files, hsn, mkHandles_snoc]
            have hget : pyDictGet (World.ofState s).self.ublocks fl = .ok ul :=
              pyDictGet_mem _ _ _ hp.1 (lastFile_mem _ _ hl)
            have hub : IH5Record._ublock (.int (-1 : Int)) (World.ofState s) = (.ok ul, World.ofState s) := by
              rw [gen_ublock_last_snoc _ _ _ hfiles, hget]
            simp only [run_bind, hnp, hub, gen_ub_create_some, gen_new_container]
            have hdisk : (World.ofState s).disk = s.disk := rfl
            have hnext : (World.ofState s).next = s.next := rfl
            have htr : (World.ofState s).trace = [] := rfl
            rw [ofState_files, any_live_mkHandles, hdisk, hnext, htr]
            have hl' := hl
            rw [hfs] at hl'
            simp only [hl', fileNames]
            rcases Bool.eq_false_or_eq_true ((s.h.files.map Prod.fst).contains (patchFile (inferName f0) (ul.idx + 1)))
              with hopen | hopen
            · simp only [hopen, if_true]
            · rcases Bool.eq_false_or_eq_true (getF s.disk (patchFile (inferName f0) (ul.idx + 1))).isSome with hex | hex
              · simp only [hopen, hex, Bool.false_eq_true, if_false, if_true]
              · simp only [hopen, hex, Bool.false_eq_true, if_false]
                have hc2 : (Obj.ofHandle s.h).closed = false := hc
                have ha2 : (Obj.ofHandle s.h).allow = true := ha
                have hf2 : (Obj.ofHandle s.h).files = mkHandles s.h.files s.h.lastRW := rfl
                simp [pySetFiles, pySetUblocks, World.ofState, hc2, ha2, hf2]

/-- **`create_patch`** as regenerated from the source is the model's `createPatch` (state, outcome, files
created / removed / rewritten) -/
theorem gen_create_patch_model (s : State) (hp : PyRep s.h) :
    resOf s (IH5Record.create_patch (World.ofState s)) = createPatch s := by
  rw [gen_create_patch s hp]; exact createPatchW_res s hp

end MetadorModel.Bridge.PatchSteps
