import MetadorModel.Bridge.CodecFnsTac
/-! Bridge (C12), `schema/core.py`: constants on input and in the JSON schema, and `SchemaMagic.__init__`. -/
namespace MetadorModel.Bridge.CodecFns
open MetadorModel MetadorModel.Codec MetadorModel.CodecParsers MetadorModel.CodecPy

theorem gen_key_constflds : Gen.CodecFns.KEY_SCHEMA_CONSTFLDS = kConstFlds := rfl

/-- `override_consts` is a *pre* root validator … -/
theorem gen_override_consts_pre : Gen.CodecFns.SchemaBase.override_consts.pre = true := rfl

/-- … that overwrites the input with every constant of the class, unconditionally -/
theorem gen_override_consts (cls : SchemaCls) (values : Dict) :
    Gen.CodecFns.SchemaBase.override_consts cls values = .ok (overrideConsts cls.constants values) := by
  simp only [Gen.CodecFns.SchemaBase.override_consts, overrideConsts]

theorem forItems_schemaExtraLoop (cs schema : Dict) :
    forItems (fun schema cname cval =>
        match dictSet2 schema kProperties cname (Json.bool true) with
        | .error ex => Except.error ex
        | .ok schema => dictSet2 schema kConstFlds cname cval) cs schema
      = schemaExtraLoop schema cs := by
  induction cs generalizing schema with
  | nil => rfl
  | cons p cs ih =>
    obtain ⟨c, v⟩ := p
    simp only [forItems, schemaExtraLoop]
    cases dictSet2 schema kProperties c (Json.bool true) with
    | error e => rfl
    | ok s1 =>
      simp only []
      cases dictSet2 s1 kConstFlds c v with
      | error e => rfl
      | ok s2 => exact ih s2

/-- `Config.schema_extra` -/
theorem gen_schema_extra (L : Lib) (schema : Dict) (model : SchemaCls) :
    Gen.CodecFns.SchemaBase.Config.schema_extra L schema model = schemaExtra L schema model := by
  have hp : (['p', 'r', 'o', 'p', 'e', 'r', 't', 'i', 'e', 's'] : Str) = kProperties := rfl
  simp only [Gen.CodecFns.SchemaBase.Config.schema_extra, schemaExtra, gen_key_constflds, hp]
  have hu : optOr model.unwrapOpt model = model.unwrap := by
    simp only [optOr, SchemaCls.unwrap]
    cases model.unwrapOpt <;> rfl
  rw [hu]
  cases hm : model.unwrap.isMetadataSchema <;> cases hc : model.unwrap.constants.isEmpty <;> simp <;> exact forItems_schemaExtraLoop _ _

theorem forEachM_inherit (bases : List ClsSt) (self : ClsSt) :
    forEachM (fun (self : ClsSt) (b : ClsSt) => (Except.ok { self with constants := dictUpdate self.constants b.constants } : M ClsSt)) bases self
      = .ok { self with constants := bases.foldl (fun acc b => dictUpdate acc b.constants) self.constants } := by
  induction bases generalizing self with
  | nil => rfl
  | cons b bs ih => simp only [forEachM, ih, List.foldl]

/-- `SchemaMagic.__init__`: first `super().__init__` (F4: this is what reaches
`DynJsonEncoderMetaMixin.__init__`), then the constants of all bases, copied -/
theorem gen_magic_init (L : Lib) (reg : Registry) (sup : ClsSt → M ClsSt) (self : ClsSt) (bases : List ClsSt) :
    Gen.CodecFns.SchemaMagic.__init__ L reg sup self bases =
      (match sup self with
       | .error e => .error e
       | .ok s => .ok { s with constants := inheritConsts bases }) := by
  simp only [Gen.CodecFns.SchemaMagic.__init__]
  cases sup self with
  | error e => bridge_close
  | ok s => simp only [forEachM_inherit, inheritConsts]; try bridge_close

end MetadorModel.Bridge.CodecFns
