#!/bin/sh
# tools/refresh_evidence.sh [tier]: run every registered check once on /repo (seed 0) so that every
# committed evidence file comes from this tree; prints one line per check; exit 1 if any check fails.
cd "$(dirname "$0")/.." || exit 2
tier=${1:-quick}
unset METADOR_REPO
mkdir -p /tmp/refresh
rm -f /tmp/refresh/summary.txt
for p in $(/venv/bin/python -c "import json;print(' '.join(c['property_id'] for c in json.load(open('MANIFEST.json'))['checks']))"); do echo $p; done | \
  xargs -P 3 -I{} sh -c "VERIF_SEED=0 VERIF_WORKERS=5 ./check {} --tier $tier > /tmp/refresh/{}.log 2>&1; echo \"{} exit=\$? \$(tail -1 /tmp/refresh/{}.log | cut -c1-140)\" >> /tmp/refresh/summary.txt"
sort /tmp/refresh/summary.txt
! grep -v "exit=0" /tmp/refresh/summary.txt > /dev/null
