#!/usr/bin/env python3
"""tools/seedtest.py <PID> <seed-worktree> [--tier quick|thorough] [--only i]
Take the seeded changes a sub-agent left in <worktree>/out/<i>/ (patch.diff, demo.py, meta.json),
confirm them (demo passes unchanged, fails patched), run ./check <PID> against the patched
worktree (METADOR_REPO) and record everything in /verif/seeded/<PID>-s<i>/."""
import json, os, re, shutil, subprocess, sys, time

V = os.path.dirname(os.path.dirname(os.path.abspath(__file__)))


def sh(cmd, cwd=None, env=None, timeout=3600):
    e = dict(os.environ)
    e.update(env or {})
    p = subprocess.run(cmd, shell=True, cwd=cwd, env=e, stdout=subprocess.PIPE, stderr=subprocess.STDOUT, text=True, timeout=timeout)
    return p.returncode, p.stdout


def main():
    pid, wt = sys.argv[1], sys.argv[2].rstrip("/")
    tier = sys.argv[sys.argv.index("--tier") + 1] if "--tier" in sys.argv else "quick"
    only = sys.argv[sys.argv.index("--only") + 1] if "--only" in sys.argv else None
    tag = sys.argv[sys.argv.index("--tag") + 1] if "--tag" in sys.argv else "s"
    out = os.path.join(wt, "out")
    res = []
    for i in sorted(d for d in os.listdir(out) if os.path.isfile(os.path.join(out, d, "patch.diff"))):
        if only and i != only:
            continue
        src = os.path.join(out, i)
        dst = os.path.join(V, "seeded", "%s-%s%s" % (pid, tag, i))
        os.makedirs(dst, exist_ok=True)
        shutil.copy(os.path.join(src, "patch.diff"), dst)
        demo = open(os.path.join(src, "demo.py")).read()
        demo2 = re.sub(r'sys\.path\.insert\(0,\s*"%s/src"\)' % re.escape(wt), 'sys.path.insert(0, __import__("os").environ.get("METADOR_SRC", "/repo/src"))', demo)
        open(os.path.join(dst, "demo.py"), "w").write(demo2)
        meta = json.load(open(os.path.join(src, "meta.json")))
        env = {"METADOR_SRC": wt + "/src"}
        sh("git checkout -- .", cwd=wt)
        c0, o0 = sh("/venv/bin/python %s/demo.py" % dst, env=env)
        ca, oa = sh("git apply %s/patch.diff" % dst, cwd=wt)
        c1, o1 = sh("/venv/bin/python %s/demo.py" % dst, env=env)
        t0 = time.time()
        cc, oc = sh("./check %s --tier %s" % (pid, tier), cwd=V, env={"METADOR_REPO": wt})
        dt = time.time() - t0
        sh("git checkout -- .", cwd=wt)
        viol = [l for l in oc.splitlines() if l.startswith(("VIOLATION", "KNOWN-FINDING"))]
        broken = [l for l in oc.splitlines() if l.startswith("obligation not discharged")]
        disagree = [l for l in oc.splitlines() if l.startswith("model/implementation disagreement")]
        kinds = []
        for l in viol:
            m = re.search(r"replay=(\S+)", l)
            if m and os.path.exists(os.path.join(V, m.group(1))):
                rep = json.load(open(os.path.join(V, m.group(1))))
                kinds.append(rep.get("signature") or rep.get("kind"))
        meta["confirmed"] = dict(demo_unchanged_exit=c0, patch_applies=ca == 0, demo_patched_exit=c1)
        meta["verif"] = dict(check="./check %s --tier %s (METADOR_REPO=patched worktree)" % (pid, tier), exit=cc, wall_s=round(dt, 1), violation_lines=viol,
                             signatures=kinds, broken_obligations=broken[:5], disagreements=len(disagree),
                             caught=cc == 1, caught_with_failing_input=any("no-failing-input-found" not in l for l in viol if l.startswith("VIOLATION")))
        json.dump(meta, open(os.path.join(dst, "meta.json"), "w"), indent=1)
        res.append((i, c0, ca, c1, cc, kinds, round(dt, 1)))
        print("seed %s-%s%s: demo clean=%s apply=%s demo patched=%s | check exit=%s %s (%.0fs)" % (pid, tag, i, c0, ca, c1, cc, kinds, dt))
    # the unchanged worktree must be quiet
    cc, oc = sh("./check %s --tier %s" % (pid, tier), cwd=V, env={"METADOR_REPO": wt})
    print("unchanged worktree: check exit=%s" % cc)


if __name__ == "__main__":
    main()
