#!/bin/sh
# tools/gate_commit.sh "<message>": commit /verif only if every harness file compiles, MANIFEST is regenerated
# and valid, and all Lean modules/drivers of the registered checks build.
cd "$(dirname "$0")/.." || exit 2
/venv/bin/python -m py_compile harness/*.py harness/props/*.py tools/*.py || { echo "py_compile failed"; exit 1; }
/venv/bin/python tools/gen_manifest.py || exit 1
/venv/bin/python - <<'PY' || exit 1
import json, jsonschema
jsonschema.validate(json.load(open("MANIFEST.json")), json.load(open("/root/.vp/MANIFEST.schema.json")))
print("manifest valid")
import glob, sys
esch = json.load(open("/root/.vp/EVIDENCE.schema.json"))
bad = []
for chk in json.load(open("MANIFEST.json"))["checks"]:
    f = chk["evidence_file"]
    try:
        e = json.load(open(f)); jsonschema.validate(e, esch)
        c = e["coverage"]
        if c.get("obligations") != c.get("discharged") or e.get("violations"):
            bad.append("%s: obligations %s discharged %s violations %s" % (f, c.get("obligations"), c.get("discharged"), e.get("violations")))
    except Exception as ex:
        bad.append("%s: %s" % (f, str(ex)[:100]))
if bad:
    print("EVIDENCE NOT CLEAN (re-run these checks on the unchanged tree before committing):"); print("\n".join(bad)); sys.exit(1)
print("evidence files valid")
PY
./setup.sh > /tmp/gate_setup.log 2>&1 || { tail -30 /tmp/gate_setup.log; echo "setup failed"; exit 1; }
tail -1 /tmp/gate_setup.log
git add -A && git commit -qm "$1" && git log --oneline | head -1
