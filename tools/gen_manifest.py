#!/usr/bin/env python3
"""Regenerate MANIFEST.json from tools/checks.json (per-property texts) — keeps it valid."""
import json, os
V = os.path.dirname(os.path.dirname(os.path.abspath(__file__)))
props = [json.loads(l) for l in open(os.path.join(V, "properties.jsonl"))]
reg = json.load(open(os.path.join(V, "tools", "checks.json")))
checks = []
for p in props:
    pid = p["id"]
    if pid not in reg["checks"]:
        continue
    e = reg["checks"][pid]
    checks.append(dict(
        property_id=pid,
        quick_cmd="./check %s --tier quick" % pid,
        thorough_cmd="./check %s --tier thorough" % pid,
        evidence_file="evidence/%s.json" % pid,
        replay_cmd_template="./check %s --replay {path}" % pid,
        engine="lean4-models+correspondence",
        level_claimed=dict(category="proof", text=e["text"], design_ref="DESIGN.md §5 " + pid),
        level_note=e["note"],
        technique=e["technique"],
    ))
na = [dict(property_id=p["id"], reason=reg["not_applicable"].get(p["id"], "check not built yet (planned at level proof, see DESIGN.md §5)"))
      for p in props if p["id"] not in reg["checks"]]
man = dict(
    version=1,
    setup_cmd="cd /verif && ./setup.sh",
    hooks=dict(guard="METADOR_CORE_VERIF",
               enable="no hooks in /repo are needed (all observations go through the Python API, file hashes and directory snapshots); checks export METADOR_CORE_VERIF=1 for completeness",
               baseline_off_cmd="cd /repo && /venv/bin/python -m pytest -ra -q -p no:cacheprovider --timeout=900 --continue-on-collection-errors",
               source_commits=[], add_only=True),
    engines=[dict(name="lean4-models+correspondence", path="lean/ + harness/", serves_properties=sorted(reg["checks"]),
                  kind_free_text="Lean 4 (4.33.0) executable models with machine-checked theorems (lake project lean/, no own axioms, no sorry); a Python harness runs the real metador-core code and the compiled Lean drivers on the same inputs (line protocol) and diffs; a direct oracle on the real code turns a broken proof or correspondence into a concrete failing input")],
    checks=checks,
    notes=reg.get("notes", ""),
    not_applicable=na,
)
json.dump(man, open(os.path.join(V, "MANIFEST.json"), "w"), indent=1)
print("checks:", [c["property_id"] for c in checks], "not_applicable:", [n["property_id"] for n in na])
