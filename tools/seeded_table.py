#!/usr/bin/env python3
"""Print the markdown table of seeded changes (DESIGN.md §9.3) from seeded/*/meta.json."""
import json, os, re
V = os.path.dirname(os.path.dirname(os.path.abspath(__file__)))
rows = []
for d in sorted(os.listdir(os.path.join(V, "seeded"))):
    mp = os.path.join(V, "seeded", d, "meta.json")
    if not os.path.exists(mp):
        continue
    m = json.load(open(mp))
    v = m.get("verif", {})
    sigs = [s for s in (v.get("signatures") or []) if s]
    if v.get("caught") and v.get("caught_with_failing_input"):
        res = "failing input: " + ", ".join("`%s`" % s.split(":", 1)[-1] for s in sigs if s != "no-failing-input-found")[:160]
    elif v.get("caught"):
        res = "broken obligation/correspondence only (`no-failing-input-found`)"
    else:
        res = "**missed**"
    what = re.sub(r"\s+", " ", m.get("what", "")).replace("|", "/")
    needs = re.sub(r"\s+", " ", m.get("needs", "")).replace("|", "/")
    rows.append("| %s | %s | %s | %s |" % (d, what[:230] + ("…" if len(what) > 230 else ""), needs[:200] + ("…" if len(needs) > 200 else ""), res))
print("| change | what it does | needs to manifest | `./check` (quick tier) |")
print("|---|---|---|---|")
print("\n".join(rows))
